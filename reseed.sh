#!/bin/bash
# usage: reseed.sh <seed-name> <check ids...>   re-runs quick checks against a committed seeded change
# (scratch worktree of /repo HEAD under /tmp, removed afterwards)
set -u
NAME=$1; shift
S=/verif/seeded/$NAME
WT=$(mktemp -d /tmp/vf-reseed-XXXXXX)
git -C /repo worktree add -q --detach $WT HEAD || exit 3
trap 'git -C /repo worktree remove --force $WT 2>/dev/null; rm -rf $WT' EXIT
if ! git -C $WT apply $S/patch.diff 2>/dev/null; then echo "$NAME: PATCH DOES NOT APPLY on current HEAD"; exit 3; fi
( cd $WT && PYTHONPATH=$WT timeout 600 /venv/bin/python -m pytest -q -p no:cacheprovider -x 2>&1 | tail -1 )
( cd $WT && PYTHONPATH=$WT timeout 300 /venv/bin/python $S/demo.py > /dev/null 2>&1 ); echo "$NAME: demo exit on changed tree = $?"
for C in "$@"; do
  ( cd /verif && VF_REPO=$WT timeout 3000 ./check $C --tier quick > /tmp/vf-reseed-$C.log 2>&1 ); E=$?
  echo "$NAME: check $C exit=$E: $(grep '^  violation' /tmp/vf-reseed-$C.log | head -2 | cut -c1-200)"
  rm -f /tmp/vf-reseed-$C.log
done
