#!/bin/bash
# usage: seedtest.sh <worktree-id> <i> <seed-name> <check ids...>
# Confirms a seeded change (tests pass, demo fails with / passes without) in its scratch worktree and runs the
# given quick checks against the changed tree (VF_REPO=<worktree>); writes /verif/seeded/<seed-name>/.
set -u
WT=/tmp/mut/$1; I=$2; NAME=$3; shift 3
OUT=/verif/seeded/$NAME
mkdir -p $OUT
git -C $WT checkout -q --detach main 2>/dev/null; git -C $WT checkout -q -- . 
if ! git -C $WT apply --check $WT/OUT/patch$I.diff 2>/dev/null; then echo "PATCH DOES NOT APPLY on current main"; exit 3; fi
cp $WT/OUT/patch$I.diff $OUT/patch.diff; cp $WT/OUT/demo$I.py $OUT/demo.py; cp $WT/OUT/meta$I.json $OUT/meta_agent.json
# clean tree: demo passes
( cd $WT && PYTHONPATH=$WT timeout 300 /venv/bin/python OUT/demo$I.py > $OUT/demo_clean.log 2>&1 ); DC=$?
git -C $WT apply $WT/OUT/patch$I.diff
( cd $WT && PYTHONPATH=$WT timeout 600 /venv/bin/python -m pytest -q -p no:cacheprovider -x > $OUT/tests.log 2>&1 ); T=$?
( cd $WT && PYTHONPATH=$WT timeout 300 /venv/bin/python OUT/demo$I.py > $OUT/demo_mutant.log 2>&1 ); DM=$?
echo "tests_exit=$T demo_clean_exit=$DC demo_mutant_exit=$DM ($(tail -1 $OUT/tests.log))"
RES=""
for C in "$@"; do
  ( cd /verif && VF_REPO=$WT timeout 3000 ./check $C --tier quick > $OUT/check_$C.log 2>&1 ); E=$?
  cp /verif/replay/$C-quick-0.json $OUT/replay_$C.json 2>/dev/null
  echo "check $C exit=$E: $(grep -c '^  violation' $OUT/check_$C.log) mechanism(s): $(grep '^  violation' $OUT/check_$C.log | head -3 | cut -c1-220)"
  RES="$RES $C:$E"
done
git -C $WT checkout -q -- .
echo "{\"tests_exit\": $T, \"demo_clean_exit\": $DC, \"demo_mutant_exit\": $DM, \"checks\": \"$RES\"}" > $OUT/ran.json
