#!/bin/bash
# Nothing to build or install: the checks are pure Python run by /venv/bin/python against /repo's working tree.
set -e
cd "$(dirname "$0")"
mkdir -p evidence replay
export PYTHONPATH="${VF_REPO:-/repo}:$PWD"
timeout 60 /venv/bin/python -B -c "
import supp, supp.linter, supp.assistant, supp.remote, supp.umsgpack, vf.core
vf.core.assert_repo()
print('setup ok: supp from', supp.__file__)"
