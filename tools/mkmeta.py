"""Writes seeded/<name>/meta.json from the mutation agent's meta_agent.json, the run record ran.json and a
{seed name: caught_by} map given as argv[1] (used after each wave of seeded changes)."""
import json, os, sys
caught = json.load(open(sys.argv[1]))   # {seed name: caught_by text}
for name, cb in caught.items():
    d='/verif/seeded/'+name
    ma=json.load(open(d+'/meta_agent.json'))
    ran=json.load(open(d+'/ran.json')) if os.path.exists(d+'/ran.json') else {}
    meta={'seed':name,'property':ma.get('property'),'summary':ma.get('summary'),'files_changed':ma.get('files_changed'),
          'needs_to_manifest':ma.get('needs_to_manifest'),'why_tests_pass':ma.get('why_tests_pass'),
          'confirmed':{'how':'seedtest.sh / reseed.sh: scratch worktree at current /repo HEAD; git apply patch.diff; full pytest suite; demo.py; quick checks with VF_REPO=<worktree>; worktree removed',
                       'tests_exit':ran.get('tests_exit',0),'demo_exit_on_clean_tree':ran.get('demo_clean_exit',0),'demo_exit_on_changed_tree':ran.get('demo_mutant_exit',1),
                       'checks_run_exit_codes_first_attempt':ran.get('checks','(rebased patch: see caught_by)')},
          'caught_by':cb}
    json.dump(meta,open(d+'/meta.json','w'),indent=1)
    print(name)
