"""Regenerates the seeded-change table of DESIGN.md (section 9.6) from seeded/*/meta.json."""
import json, glob, os, re
rows=[]
for m in sorted(glob.glob('/verif/seeded/*/meta.json')):
    d=json.load(open(m))
    name=os.path.basename(os.path.dirname(m))
    summ=(d.get('summary') or '').replace('|','/').replace('\n',' ')
    if len(summ)>200: summ=summ[:200]
    cb=(d.get('caught_by') or '').replace('|','/').replace('\n',' ')
    rows.append('| `%s` | %s | %s | %s |' % (name, d.get('property'), summ, cb))
s=open('/verif/DESIGN.md').read()
start=s.index('| seeded change | property | what it does | caught by |')
end=s.index('\n\n', start)
head='| seeded change | property | what it does | caught by |\n|---|---|---|---|\n'
s=s[:start]+head+'\n'.join(rows)+s[end:]
open('/verif/DESIGN.md','w').write(s)
print(len(rows),'rows')
