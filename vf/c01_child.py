"""Child interpreter for C01's "import mode": executes real stdlib/repo modules with every identifier read
wrapped in an observer (no other change), and reports which reads CPython executed successfully.

usage: python -B -m vf.c01_child <jobs.json> <out.json>     jobs: [{"name": dotted, "path": file}]
"""
import ast
import builtins
import importlib
import importlib.util
import io
import json
import os
import sys
import types

SEEN = None


def _r(rid, value):
    SEEN.add(rid)
    return value


class Wrap(ast.NodeTransformer):
    def __init__(self):
        self.reads = []

    def visit_Name(self, node):
        if not isinstance(node.ctx, ast.Load):
            return node
        rid = len(self.reads)
        self.reads.append((node.lineno, node.col_offset, node.id))
        new = ast.Call(func=ast.Name(id='__vf_r__', ctx=ast.Load()), args=[ast.Constant(value=rid), node], keywords=[])
        return ast.copy_location(new, node)

    def visit_JoinedStr(self, node):
        self.generic_visit(node)
        return node


def run_one(job):
    global SEEN
    name, path = job['name'], job['path']
    out = {'name': name, 'path': path}
    try:
        with open(path, 'rb') as f:
            raw = f.read()
        import tokenize
        enc = tokenize.detect_encoding(io.BytesIO(raw).readline)[0]
        text = raw.decode(enc)
        if text.startswith('﻿'):
            text = text[1:]
        tree = ast.parse(text, path)
    except Exception as e:
        out['skip'] = 'parse: %r' % e
        return out
    for n in ast.walk(tree):
        if isinstance(n, ast.ImportFrom) and n.module == '__future__' and any(a.name == 'annotations' for a in n.names):
            break
    try:
        importlib.import_module(name)          # the genuine module first: proves it is importable here
    except BaseException as e:
        out['skip'] = 'import: %s' % type(e).__name__
        return out
    w = Wrap()
    new = ast.fix_missing_locations(w.visit(tree))
    try:
        code = compile(new, path, 'exec')
    except Exception as e:
        out['skip'] = 'compile: %r' % e
        return out
    SEEN = set()
    mod = types.ModuleType(name)
    mod.__file__ = path
    is_pkg = os.path.basename(path) == '__init__.py'
    mod.__package__ = name if is_pkg else name.rpartition('.')[0]
    if is_pkg:
        mod.__path__ = [os.path.dirname(path)]
    try:
        mod.__spec__ = importlib.util.spec_from_file_location(name, path)
    except Exception:
        pass
    old_out, old_err = sys.stdout, sys.stderr
    sys.stdout = sys.stderr = io.StringIO()
    try:
        exec(code, mod.__dict__)
        out['completed'] = True
    except BaseException as e:
        out['completed'] = False
        out['exception'] = type(e).__name__
    finally:
        sys.stdout, sys.stderr = old_out, old_err
    out['text'] = text
    out['reads_total'] = len(w.reads)
    out['success'] = sorted(w.reads[r] for r in SEEN)
    return out


def main():
    builtins.__vf_r__ = _r
    jobs = json.load(open(sys.argv[1]))
    res = []
    for j in jobs:
        try:
            res.append(run_one(j))
        except BaseException as e:
            res.append({'name': j['name'], 'path': j['path'], 'skip': 'child error %r' % e})
        with open(sys.argv[2], 'w') as f:
            json.dump(res, f)


if __name__ == '__main__':
    main()
