"""Inputs and oracles for C08 (totality of lint / assist / location).

Everything here is independent of supp: the line model (the tokenizer's: only \\n, \\r\\n and \\r end
a line), the marker splice, the CPython parse outcome, cursor positions stratified by token class,
typing-state mutations of real files and the hand-written hostile list.
"""
import ast
import io
import keyword
import re
import token as token_mod
import tokenize
import warnings

MARK = '__supp_mark__'
_NL = re.compile(r'\r\n|\r|\n')

# characters str.splitlines() breaks on although the tokenizer does not
SPLITLINES_ONLY = {'\x0b': 'VT', '\x0c': 'FF', '\x1c': 'FS', '\x1d': 'GS', '\x1e': 'RS', '\x85': 'NEL',
                   '\u2028': 'LS', '\u2029': 'PS'}


# ---------------------------------------------------------------------------------------------
# line model and oracles

class Lines(object):
    """text split the way the tokenizer does; keeps the separators so that text can be rebuilt."""

    def __init__(self, text):
        self.text = text
        self.lines, self.starts, self.seps = [], [], []
        pos = 0
        for m in _NL.finditer(text):
            self.lines.append(text[pos:m.start()])
            self.starts.append(pos)
            self.seps.append(m.group())
            pos = m.end()
        self.lines.append(text[pos:])
        self.starts.append(pos)
        self.seps.append('')

    def __len__(self):
        return len(self.lines)

    def inside(self, pos):
        ln, col = pos
        return 1 <= ln <= len(self.lines) and 0 <= col <= len(self.lines[ln - 1])

    def offset(self, pos):
        ln, col = pos
        return self.starts[ln - 1] + col

    def pos_of(self, off):
        import bisect
        i = bisect.bisect_right(self.starts, off) - 1
        col = off - self.starts[i]
        if col > len(self.lines[i]):     # inside a separator (\r|\n): snap to the end of the line
            col = len(self.lines[i])
        return (i + 1, col)

    def all_positions(self):
        for i, line in enumerate(self.lines):
            for c in range(len(line) + 1):
                yield (i + 1, c)

    def rebuild(self, lines=None, seps=None):
        lines = self.lines if lines is None else lines
        seps = self.seps if seps is None else seps
        return ''.join(l + s for l, s in zip(lines, seps))


def marked_text(text, pos, lines=None):
    """the cursor-marked text, reconstructed independently of supp.util.Source"""
    L = lines or Lines(text)
    off = L.offset(pos)
    return text[:off] + MARK + text[off:]


def parse_outcome(text, filename=None):
    """('ok',) | ('syntax', msg, lineno, offset) | ('outside', exception type name)"""
    try:
        with warnings.catch_warnings():
            warnings.simplefilter('ignore')
            ast.parse(text, filename or '<string>')
    except SyntaxError as e:
        return ('syntax', e.msg, e.lineno, e.offset)
    except BaseException as e:      # ValueError (surrogates...), RecursionError, MemoryError: outside the domain
        if isinstance(e, (KeyboardInterrupt, SystemExit)):
            raise
        return ('outside', type(e).__name__)
    return ('ok',)


def ast_depth(text, filename=None):
    """nesting depth of the AST (iteratively); None when the text does not parse"""
    try:
        with warnings.catch_warnings():
            warnings.simplefilter('ignore')
            tree = ast.parse(text, filename or '<string>')
    except BaseException:
        return None
    depth = 0
    stack = [(tree, 1)]
    while stack:
        node, d = stack.pop()
        if d > depth:
            depth = d
        for ch in ast.iter_child_nodes(node):
            stack.append((ch, d + 1))
    return depth


def expr_depth(text, filename=None):
    """deepest nesting of expression nodes inside one statement (statements do not count: an elif chain or nested
    blocks are not expression nesting); None when the text does not parse"""
    try:
        with warnings.catch_warnings():
            warnings.simplefilter('ignore')
            tree = ast.parse(text, filename or '<string>')
    except BaseException:
        return None
    best = 0
    stack = [(tree, 0)]
    while stack:
        node, d = stack.pop()
        for ch in ast.iter_child_nodes(node):
            if isinstance(ch, ast.expr):
                nd = d + 1
                if nd > best:
                    best = nd
            elif isinstance(ch, (ast.stmt, ast.excepthandler, ast.match_case)):
                nd = 0
            else:
                nd = d          # comprehension, arguments, keyword, withitem, slices ...: part of the expression
            stack.append((ch, nd))
    return best


def splitlines_chars(text):
    return sorted(set(SPLITLINES_ONLY[c] for c in text if c in SPLITLINES_ONLY))


# ---------------------------------------------------------------------------------------------
# cursor positions by token class

POSITION_CLASSES = ('name-end', 'name-inside', 'after-dot', 'string-inside', 'comment-inside', 'import-line',
                    'blank-line', 'column-0', 'line-end', 'keyword-end', 'after-open-bracket', 'number-inside',
                    'random')


def _tokens(text):
    out = []
    try:
        for t in tokenize.generate_tokens(io.StringIO(text).readline):
            out.append(t)
    except (tokenize.TokenError, SyntaxError, IndentationError, ValueError, RecursionError):
        pass
    return out


def classify_positions(text, L=None):
    """-> {class: [(line, col), ...]} (only positions inside the text under the tokenizer line model)"""
    L = L or Lines(text)
    by = {c: [] for c in POSITION_CLASSES}
    toks = _tokens(text)
    import_rows = set()
    first_on_row = {}
    for t in toks:
        if t.type in (token_mod.NL, token_mod.NEWLINE, token_mod.INDENT, token_mod.DEDENT, token_mod.COMMENT,
                      token_mod.ENDMARKER):
            continue
        first_on_row.setdefault(t.start[0], t)
    # logical import statements: from the row of 'import'/'from' to the row of its NEWLINE
    cur = None
    for t in toks:
        if cur is None:
            ft = first_on_row.get(t.start[0])
            if ft is t and t.type == token_mod.NAME and t.string in ('import', 'from'):
                cur = t.start[0]
        if cur is not None:
            import_rows.add(t.start[0])
            if t.type == token_mod.NEWLINE:
                cur = None
    fstring_types = tuple(getattr(token_mod, n) for n in ('FSTRING_START', 'FSTRING_MIDDLE') if hasattr(token_mod, n))
    for t in toks:
        (sr, sc), (er, ec) = t.start, t.end
        if t.type == token_mod.NAME:
            if keyword.iskeyword(t.string):
                by['keyword-end'].append((er, ec))
            else:
                by['name-end'].append((er, ec))
                if len(t.string) >= 2:
                    by['name-inside'].append((sr, sc + len(t.string) // 2))
            if sr in import_rows:
                by['import-line'].append((er, ec))
                if len(t.string) >= 2:
                    by['import-line'].append((sr, sc + 1))
        elif t.type == token_mod.OP:
            if t.string == '.':
                by['after-dot'].append((er, ec))
            elif t.string in '([{':
                by['after-open-bracket'].append((er, ec))
            if sr in import_rows:
                by['import-line'].append((er, ec))
        elif t.type == token_mod.STRING or t.type in fstring_types:
            if sr == er:
                if ec - sc >= 2:
                    by['string-inside'].append((sr, (sc + ec) // 2))
            else:
                by['string-inside'].append((sr, sc + 1))
                if er - sr >= 2:
                    by['string-inside'].append((sr + 1, 0))
                    mid = (sr + er) // 2
                    if 1 <= mid <= len(L):
                        by['string-inside'].append((mid, len(L.lines[mid - 1]) // 2))
        elif t.type == token_mod.COMMENT:
            by['comment-inside'].append((sr, (sc + ec + 1) // 2))
            by['comment-inside'].append((er, ec))
        elif t.type == token_mod.NUMBER:
            by['number-inside'].append((sr, (sc + ec + 1) // 2))
    for i, line in enumerate(L.lines):
        if not line.strip():
            by['blank-line'].append((i + 1, 0))
            if line:
                by['blank-line'].append((i + 1, len(line)))
        else:
            by['column-0'].append((i + 1, 0))
            by['line-end'].append((i + 1, len(line)))
        if (i + 1) in import_rows:
            by['import-line'].append((i + 1, len(line)))
    for c in by:
        by[c] = [p for p in dict.fromkeys(by[c]) if L.inside(p)]
    return by


def pick_positions(text, rng, n, L=None):
    """n positions spread round-robin over the token classes -> [(class, (line, col))]"""
    L = L or Lines(text)
    by = classify_positions(text, L)
    pools = {}
    for c, ps in by.items():
        ps = list(ps)
        rng.shuffle(ps)
        pools[c] = ps
    out, seen = [], set()
    order = [c for c in POSITION_CLASSES if c != 'random']
    while len(out) < n:
        progressed = False
        for c in order:
            if len(out) >= n:
                break
            while pools[c]:
                p = pools[c].pop()
                if p not in seen:
                    seen.add(p)
                    out.append((c, p))
                    progressed = True
                    break
        # one uniformly random (line, col) per round
        if len(out) < n:
            ln = rng.randint(1, len(L))
            p = (ln, rng.randint(0, len(L.lines[ln - 1])))
            if p not in seen:
                seen.add(p)
                out.append(('random', p))
                progressed = True
        if not progressed and not any(pools.values()):
            total = sum(len(l) + 1 for l in L.lines)
            if len(seen) >= total:
                break
    return out


# ---------------------------------------------------------------------------------------------
# typing-state mutations

HALF_IMPORTS = ['import x.', 'import os.', 'import os.pa', 'import ', 'import os, ', 'import os as ',
                'from x import ', 'from os import ', 'from os import pa', 'from os import', 'from os', 'from os.',
                'from ', 'from . import', 'from . import ', 'from .', 'from ..', 'from .. import ', 'from .m',
                'from .m import ', 'from . import nosuchname', 'from nosuchmodule import ', 'from nosuchmodule.',
                'import nosuchmodule.', 'import nosuchmodule', 'from nosuchmodule import thing',
                'from os import (path, ', 'from os import path as ', 'from ...... import x']

MUTATION_KINDS = ('line-truncated', 'trailing-dot', 'trailing-dot-truncated', 'deleted-line', 'file-truncated',
                  'moved-to-module-level', 'unbalanced-open', 'unbalanced-close-deleted', 'half-import')


def _toplevel_insert_rows(text):
    """rows (1-based) before which a new top-level statement line can be inserted"""
    try:
        with warnings.catch_warnings():
            warnings.simplefilter('ignore')
            tree = ast.parse(text)
    except BaseException:
        return []
    rows = []
    for st in tree.body:
        row = st.lineno
        for d in getattr(st, 'decorator_list', []):
            row = min(row, d.lineno)
        rows.append(row)
    return rows


def _simple_jump_lines(text, L):
    """[(row, stripped statement text)] of single-physical-line return/yield/break/continue statements"""
    out = []
    toks = _tokens(text)
    first = {}
    for t in toks:
        if t.type in (token_mod.NL, token_mod.NEWLINE, token_mod.INDENT, token_mod.DEDENT, token_mod.COMMENT,
                      token_mod.ENDMARKER):
            continue
        first.setdefault(t.start[0], t)
    # rows that belong to a multi-row logical line
    multi = set()
    start = None
    for t in toks:
        if t.type in (token_mod.INDENT, token_mod.DEDENT, token_mod.NL, token_mod.COMMENT, token_mod.ENDMARKER):
            continue
        if start is None:
            start = t.start[0]
        if t.type == token_mod.NEWLINE:
            if t.start[0] != start:
                multi.update(range(start, t.start[0] + 1))
            start = None
    for row, t in first.items():
        if t.type == token_mod.NAME and t.string in ('return', 'yield', 'break', 'continue') and row not in multi \
                and 1 <= row <= len(L):
            s = L.lines[row - 1].strip()
            if s and '\\' not in s:
                out.append((row, s))
    return out


def mutations(text, rng, n, L=None):
    """-> list of dict(kind, text, pos, detail); every result has pos inside its text."""
    L = L or Lines(text)
    by = classify_positions(text, L)
    name_ends = by['name-end'] or by['line-end'] or [(1, 0)]
    any_pos = [p for c in ('name-end', 'name-inside', 'after-dot', 'after-open-bracket', 'line-end', 'keyword-end',
                           'string-inside', 'comment-inside', 'import-line') for p in by[c]] or [(1, 0)]
    top_rows = _toplevel_insert_rows(text)
    jumps = _simple_jump_lines(text, L)
    closers = [(t.start, t.string) for t in _tokens(text) if t.type == token_mod.OP and t.string in ')]}']
    out = []
    kinds = list(MUTATION_KINDS)
    tries = 0
    while len(out) < n and tries < n * 6:
        tries += 1
        kind = kinds[(tries - 1) % len(kinds)]
        lines = list(L.lines)
        seps = list(L.seps)
        m = None
        if kind == 'line-truncated':
            ln, col = rng.choice(any_pos)
            lines[ln - 1] = lines[ln - 1][:col]
            m = (L.rebuild(lines, seps), (ln, col), '')
        elif kind in ('trailing-dot', 'trailing-dot-truncated'):
            ln, col = rng.choice(name_ends)
            line = lines[ln - 1]
            lines[ln - 1] = line[:col] + '.' + ('' if kind.endswith('truncated') else line[col:])
            m = (L.rebuild(lines, seps), (ln, col + 1), '')
        elif kind == 'deleted-line':
            if len(lines) < 2:
                continue
            ln = rng.randint(1, len(lines) - 1)
            del lines[ln - 1]
            del seps[ln - 1]
            pos = (ln, 0) if rng.random() < 0.5 else (ln, len(lines[ln - 1]))
            if rng.random() < 0.3 and ln > 1:
                pos = (ln - 1, len(lines[ln - 2]))
            m = (L.rebuild(lines, seps), pos, 'row %d' % ln)
        elif kind == 'file-truncated':
            ln, col = rng.choice(any_pos)
            lines = lines[:ln]
            seps = seps[:ln]
            lines[-1] = lines[-1][:col]
            seps[-1] = ''
            m = (L.rebuild(lines, seps), (ln, col), '')
        elif kind == 'moved-to-module-level':
            if not jumps or not top_rows:
                continue
            _row, stmt = rng.choice(jumps)
            at = rng.choice(top_rows)
            sep = seps[0] or '\n'
            lines.insert(at - 1, stmt)
            seps.insert(at - 1, sep)
            where = rng.random()
            if where < 0.4:
                pos = (at, len(stmt))
            elif where < 0.6:
                pos = (at, rng.randint(0, len(stmt)))
            else:
                # cursor elsewhere in the file (shifted by the inserted row)
                ln, col = rng.choice(any_pos)
                pos = (ln + 1 if ln >= at else ln, col)
            m = (L.rebuild(lines, seps), pos, stmt.split()[0])
        elif kind == 'unbalanced-open':
            ln, col = rng.choice(any_pos)
            br = rng.choice('([{')
            lines[ln - 1] = lines[ln - 1][:col] + br + lines[ln - 1][col:]
            m = (L.rebuild(lines, seps), (ln, col + 1), br)
        elif kind == 'unbalanced-close-deleted':
            if not closers:
                continue
            (ln, col), br = rng.choice(closers)
            if not (1 <= ln <= len(lines)) or lines[ln - 1][col:col + 1] != br:
                continue
            lines[ln - 1] = lines[ln - 1][:col] + lines[ln - 1][col + 1:]
            m = (L.rebuild(lines, seps), (ln, col), br)
        elif kind == 'half-import':
            stmt = rng.choice(HALF_IMPORTS)
            sep = seps[0] or '\n'
            if top_rows and rng.random() < 0.7:
                at = rng.choice(top_rows)
                indent = ''
            else:
                at = rng.randint(1, len(lines))
                ref = lines[at - 1]
                indent = ref[:len(ref) - len(ref.lstrip())]
            lines.insert(at - 1, indent + stmt)
            seps.insert(at - 1, sep)
            col = len(indent) + (len(stmt) if rng.random() < 0.75 else rng.randint(1, len(stmt)))
            m = (L.rebuild(lines, seps), (at, col), stmt)
        if m is None:
            continue
        mtext, pos, detail = m
        if not Lines(mtext).inside(pos):
            continue
        out.append({'kind': kind, 'text': mtext, 'pos': list(pos), 'detail': detail})
    return out


# ---------------------------------------------------------------------------------------------
# the hostile list: (name, files of the project, path of the edited file relative to the project
# root or None for filename=None, text).  Every (line, col) of every text is tried.

def hostile_cases():
    """-> [{'name', 'files', 'fname', 'text', 'positions': None (= every (line, col)) | [(line, col), ...]}]

    A text is written with query lines ``E.`` (trailing dot).  Because a text with two unfinished lines never
    parses whatever the cursor, `add` turns it into a base text in which every query line reads ``E.zz`` (all
    positions tried) plus, per query line, a variant in which only that line is left unfinished (cursor after the
    dot).  split=True makes every line a text of its own (for texts that are broken on purpose)."""
    H = []

    def add(name, text, files=None, fname='main.py', expand=True, split=False):
        if split:
            for i, line in enumerate(text.split('\n')):
                if line:
                    add('%s-row%d' % (name, i + 1), line + '\n', files, fname, expand)
            return
        lines = text.split('\n')
        dotted = []
        if expand and '\r' not in text:
            for i, l in enumerate(lines):
                r = l.rstrip()
                if r.endswith('.') and not r.endswith('..') and not re.match(r'\s*(from|import)\b', l) and r == l:
                    dotted.append(i)
        base = [l + 'zz' if i in dotted else l for i, l in enumerate(lines)]
        H.append({'name': name, 'files': files or {}, 'fname': fname, 'text': '\n'.join(base), 'positions': None})
        for i in dotted:
            var = list(base)
            var[i] = lines[i]
            H.append({'name': '%s:unfinished-row%d' % (name, i + 1), 'files': files or {}, 'fname': fname,
                      'text': '\n'.join(var), 'positions': [(i + 1, len(lines[i]))]})

    # -- cycles --------------------------------------------------------------------------------
    add('cyclic-assign', 'a = b\nb = a\na.\nb.x\n')
    add('cyclic-assign-self', 'a = a\na.x\nx = x.y\nx.\n')
    add('cyclic-assign-3', 'a = b.q\nb = c()\nc = a\na.\nc().r\n')
    add('cyclic-tuple-assign', 'a, b = b, a\na.\n(c, d), e = e, (c, d)\nc.x\n')
    add('inherit-cycle', 'class A(B):\n    pass\nclass B(A):\n    pass\nA().x\nA.\nB.y\nb = B()\nb.\n')
    add('inherit-self', 'class A(A):\n    def m(self):\n        return self.m\nA.\nA().m().\n')
    add('inherit-cycle-3', 'class A(C): x = 1\nclass B(A): y = 2\nclass C(B): z = 3\nC().\nA.z\n')
    add('inherit-via-alias', 'class A: pass\nB = A\nclass A(B): pass\nA().\nA.x\n')
    add('inherit-cycle-in-loop', 'for i in x:\n    class A(B):\n        p = 1\n    class B(A):\n        q = 2\nA().\nB.\nA.p\n')
    add('inherit-cycle-in-while', 'while x:\n    class A(B): pass\n    class B(A): pass\n    A().\nB().q\n')
    add('inherit-cycle-conditional', 'if x:\n    class A: pass\nelse:\n    class A(B): pass\nclass B(A): pass\nclass A(B): pass\nA().\nB.\n')
    add('call-cycle-in-loop', 'for i in x:\n    a = b()\n    b = a\n    c = c.d()\na.\nc.\n')
    add('mutual-recursion', 'def f():\n    return g()\ndef g():\n    return f()\nf().\nx = f()\nx.a\ng\n')
    add('self-recursion', 'def f():\n    return f\nf()().\ndef h():\n    return h()\nh().x\n')
    add('lambda-recursion', 'f = lambda: f()\nf().\ng = lambda g=g: g\ng().x\n')
    add('method-recursion', 'class A:\n    def m(self):\n        return self.n()\n    def n(self):\n        return self.m()\n'
                            'A().m().\nA().n().x\n')
    add('property-recursion', 'class A:\n    @property\n    def p(self):\n        return self.p\n    @property\n'
                              '    def q(self):\n        return self.r\n    @property\n    def r(self):\n'
                              '        return self.q\nA().p.x\nA().q.\n')
    add('instance-attr-cycle', 'class A:\n    def __init__(self):\n        self.a = self.b\n        self.b = self.a\n'
                               '        self.c = self\n        self.d = self.c.d\nA().a.\nA().c.c.c.\nA().d.x\n')
    add('descriptor', 'class D:\n    def __get__(self, o, c):\n        return o\nclass A:\n    @D\n    def f(self):\n'
                      '        return self.f\nA().f.\nA.f\n')
    add('class-refers-itself', 'class A:\n    x = A\n    y = x.x\n    def f(self, other=A):\n        return other\n'
                               'A.x.x.\nA().f().\n')
    add('default-arg-cycle', 'def f(x=f):\n    return x\nf().\ndef g(a=h()):\n    return a\ndef h(b=g()):\n    return b\n'
                             'g().\n')
    add('import-cycle', 'from m1 import a\na.\nimport m1\nm1.a.x\nm1.\nimport m2\nm2.b\n',
        files={'m1.py': 'from m2 import b\na = b\n', 'm2.py': 'from m1 import a\nb = a\n'})
    add('import-cycle-star', 'from m3 import *\nthing\nthing.\nimport m3\nm3.\n',
        files={'m3.py': 'from m4 import *\nthing = other\n', 'm4.py': 'from m3 import *\nother = thing\n'})
    add('import-cycle-package', 'from pkg import thing\nthing.\nimport pkg.sub\npkg.sub.\npkg.\nfrom pkg.sub import *\nz\n',
        files={'pkg/__init__.py': 'from .sub import *\nfrom . import sub\nthing = sub.z\n',
               'pkg/sub.py': 'from . import *\nfrom pkg import thing\nz = thing\n'})
    add('import-self', 'from app.main import x\nx.\nimport app.main\napp.main.x\nx = x\n',
        files={'app/__init__.py': '', 'app/main.py': 'from app.main import x\nx = x\n'}, fname='app/main.py')
    add('import-cycle-name-through-star', 'from a import X\nX\nX.\nimport b\nb.X\n',
        files={'a.py': 'from b import X\n', 'b.py': 'from a import *\n'})
    add('import-cycle-name-through-star-conditional', 'from a import X, Y\nX\nX.\nY().\n',
        files={'a.py': 'from b import X, Y\n', 'b.py': 'from a import *\nif c:\n    Y = Z\n    class X(Z): pass\nelse:\n    X = Z\n    class Y(Z): pass\n'})
    add('import-cycle-class-bases', 'from k1 import A\nA().\nA.x\nclass C(A): pass\nC().\n',
        files={'k1.py': 'from k2 import B\nclass A(B):\n    x = 1\n', 'k2.py': 'from k1 import A\nclass B(A):\n    y = 2\n'})
    add('import-cycle-functions', 'from r1 import f\nf().\nv = f()\nv.x\n',
        files={'r1.py': 'from r2 import g\ndef f():\n    return g()\n', 'r2.py': 'from r1 import f\ndef g():\n    return f()\n'})

    # -- builtins and compiled modules ---------------------------------------------------------------
    add('builtin-names', 'len\nlen.\nx = len\nx\nprint(len)\nNone.\nTrue\n__name__\n__file__.\nobject.\nint.real.\n')
    add('builtin-shadowed', 'def len(x):\n    return x\nlen\nif c:\n    int = 1\nint\nint.\n')
    add('compiled-zlib', 'import zlib\nzlib.\nzlib.crc32\nzlib\nfrom zlib import crc32 as c\nc\nc.\n'
                         'd = zlib.decompressobj()\nd.\ne = zlib.error()\ne.args\n')
    add('compiled-sys', 'import sys\nsys\nsys.path.append\nsys.\nfrom sys import path\npath\npath.\n'
                        'import sys as s\ns.modules\n')
    add('compiled-os-path', 'import os.path\nos.path.join\nos.path\nos\nimport os.path as p\np.join\n'
                            'from os import path\npath.join\n')
    add('compiled-misc', 'import math as m\nm.pi.real\nfrom time import *\nsleep\nsleep.\nimport itertools, _thread\n'
                         'itertools.count().\n_thread.RLock().\nimport builtins\nbuiltins.len\n')
    add('compiled-submodule-wrapper', 'import xml\nimport xml.dom\nxml\nxml.dom\nxml.\nimport os\nimport os.path\nos\n'
                                      'import sys\nimport sys.nothing\nsys\nsys.nothing\n')
    add('literals', '"".\n[].\n{}.\n().\n1 .real\nb"".\n(1).\n1.5.\nNone.x\n....real\n"a".upper().\nf"{x}".\n')

    # -- runtime classes instantiated by RuntimeName.call -------------------------------------------------
    add('super-in-runtime-subclass', 'class A(str):\n    def f(self):\n        super().x\n        return super()\n'
                                     'A().f().\nx = super()\nx.\n')
    add('runtime-instantiation', 'x = memoryview()\nx.\ny = int()\ny.real\nz = type()\nz.\ne = SystemExit()\ne.code\n'
                                 'k = KeyboardInterrupt()\nk.\no = object()\no.\nr = range()\nr.\np = property()\np.\n'
                                 'c = classmethod()\nc.\nb = BaseExceptionGroup()\nb.\n')
    add('runtime-base-instance', 'class E(Exception):\n    pass\nE().\nclass D(dict, super):\n    pass\nD().\n'
                                 'class M(memoryview): pass\nM().x\nimport zlib\nclass Z(zlib.error, type): pass\nZ().\n')
    add('string-template-like', 'import string\nclass T(string.Template):\n    def f(self):\n        return super().x\n'
                                'T().f().\nstring.Template.\nstring.Formatter().\n')

    # -- import lines ------------------------------------------------------------------------------
    add('unknown-modules', 'import nosuch\nimport nosuch.sub\nfrom nosuch import x\nfrom nosuch.sub import y\nx.\ny\n'
                           'nosuch.x\nnosuch\nfrom nosuch import *\nfoo\nimport nosuch as n\nn.\n')
    add('unknown-relative', 'from . import nosuch\nfrom .nosuch import y\ny.\nnosuch.\nfrom .. import x\n'
                            'from ... import z\nfrom .... import w\nx\nz.\nfrom . import *\n',
        files={'pk/__init__.py': '', 'pk/mod.py': ''}, fname='pk/mod.py')
    add('relative-not-a-package', 'from . import x\nfrom .m import y\nx.\ny\nfrom .. import *\nfrom . import (a,\n  b)\n')
    add('relative-filename-none', 'from . import x\nx.\nfrom .m import y\ny\nfrom .. import z\n', fname=None)
    add('relative-star-filename-none', 'from .. import *\nx = 1\nx\n', fname=None)
    add('relative-in-package', 'from . import sib\nsib.\nfrom .sib import v\nv.\nfrom .. import top\nfrom ..other import o\n'
                               'o\n',
        files={'top/__init__.py': '', 'top/other.py': 'o = 1\n', 'top/in/__init__.py': '', 'top/in/sib.py': 'v = ""\n',
               'top/in/cur.py': ''}, fname='top/in/cur.py')
    for i, stmt in enumerate(HALF_IMPORTS):
        add('half-import-%02d' % i, 'import os\n' + stmt + '\nx = 1\n')
        add('half-import-last-%02d' % i, stmt)
    for i, stmt in enumerate(('from os import ', 'import os.', 'from . import ', 'from .', 'from nosuch import ')):
        add('half-import-in-function-%d' % i, 'def f():\n    ' + stmt + '\n    return 1\n')
        add('half-import-in-package-%d' % i, 'import os\n' + stmt + '\n', files={'top/__init__.py': '', 'top/in/__init__.py': '', 'top/in/sib.py': 'v = 1\n'}, fname='top/in/cur.py')
    add('half-import-none-filename', 'from . import \nfrom .\nfrom .. import x\nimport os.\nfrom .m import \nfrom . import x\n', fname=None, split=True)
    add('from-in-docstring', '"""\nfrom . import something\nfrom the list\n    from ..\n"""\n# from . import\nx = "from . "\n')
    add('import-forms', 'import a.b.c as d\nd.\nimport a.b.c\na.b.c\nfrom a import (b as c, d as e)\nc\ne.\n'
                        'from os import path as p, sep\np.\nsep.\nimport os, sys, nosuch\nfrom __future__ import annotations\n'
                        'annotations\n')
    add('import-as-locals', 'import os as locals\nlocals\nlocals.\nfrom os import path as locals\nlocals\n')

    # -- the name `locals` --------------------------------------------------------------------------
    add('locals-multiply-bound', 'if a:\n    locals = 1\nelse:\n    locals = 2\nlocals\nlocals.\nlocals()\n')
    add('locals-bound-once', 'locals = 1\nlocals\nlocals.real\n')
    add('locals-in-function', 'def f(x):\n    if x:\n        locals = 1\n    else:\n        locals = 2\n    y = 3\n'
                              '    return locals()\nf(1).\n')
    add('locals-loop', 'for locals in x:\n    pass\nlocals\nwhile c:\n    locals = c\nlocals()\n')
    add('locals-maybe-unbound', 'if a:\n    locals = 1\nlocals()\ndef locals():\n    pass\nlocals()\n'
                                'try:\n    import locals\nexcept ImportError:\n    locals = None\nlocals\n')
    add('locals-builtin', 'def f(a, b):\n    c = 1\n    return locals()\nlocals().\n')

    # -- targets that are not plain names ------------------------------------------------------------------
    add('for-self-x', 'class A:\n    def f(self, y):\n        for self.x in y:\n            pass\n        return self.x\nA().f([]).\n')
    add('for-attr-target', 'for a.b in c:\n    pass\na.b\n')
    add('for-subscript-target', 'for a[0] in c:\n    pass\nfor d[i][j] in e: pass\na\n')
    add('for-mixed-targets', 'for a, b.c in d:\n    a\nfor (e, [f, g[0]]), *h in i:\n    e, f, h\nfor *j.k, l in m: pass\n')
    add('with-attr-target', 'with open(f) as self.f:\n    pass\nwith a as b[0]:\n    pass\nwith a as (b, c.d), e as f.g:\n    b\n'
                            'with a as (*b, c): c\n')
    add('comp-attr-target', '[0 for a.b in c]\n{k: v for k, v[0] in c}\n(x for x.y in z)\n{1 for a[i] in b}\n'
                            '[x for *x, in y]\n[q for (q, r.s) in t if q]\n')
    add('async-attr-target', 'async def f():\n    async for a.b in c:\n        pass\n    async with a as b.c:\n        pass\n'
                             '    return [x async for x.y in z]\n')
    add('assign-odd-targets', 'a.b: int = 1\na[0]: int\n(a.b) = 1\na.b += 1\na[0] += 1\ndel a.b, c[0], d\nd\n'
                              'a, *b.c = d\n*a, = b\n[a, (b, *c)] = d\nx: int\nx\n(y): int = 1\ny\n')
    add('walrus', '(y := 1)\n[y := 1, y]\nif (n := f()) and n.x:\n    n.\n[z for q in r if (z := q)]\nz\n'
                  'def f(a=(w := 1)): return w\n')
    add('except-targets', 'try:\n    pass\nexcept E as e:\n    e.\nexcept (A, B) as e:\n    e\nexcept:\n    pass\nelse:\n    e\n'
                          'finally:\n    e\ne.args\ntry:\n    pass\nexcept* E as g:\n    g.\n')

    # -- statements outside their construct --------------------------------------------------------------
    add('module-level-return', 'x = 1\nreturn x\nx.\n')
    add('module-level-return-bare', 'return\n')
    add('module-level-jumps', 'yield 1\nx = yield\nbreak\ncontinue\nawait y\nyield from z\nx.\n')
    add('class-level-return', 'class A:\n    return 1\n    yield\n    x = 2\nA.x\nA().\n')
    add('nested-class-return', 'def f():\n    class B:\n        return 2\n    return B\nf().\n')
    add('lambda-yield', 'f = lambda: (yield)\nf().\ng = lambda: (yield from g())\ng().\n')
    add('return-in-loops', 'for a in b:\n    return a\nwhile c:\n    return\nif d:\n    return d\nelse:\n    return\n'
                           'with e:\n    return e\ntry:\n    return\nfinally:\n    return\n')
    add('scope-decls-misplaced', 'nonlocal x\nx = 1\nglobal y\ny = 2\ny\nclass A:\n    nonlocal z\n    z = 1\n    global w\n'
                                 '    w = 2\ndef f():\n    nonlocal q\n    q = 1\n    return q\nw\nf().\n')
    add('del-then-use', 'x = 1\ndel x\nx\nx.\ndef f():\n    del y\n    return y\n')

    # -- layout: form feeds, odd separators, line ends ----------------------------------------------------
    add('formfeed-own-line', 'x = 1\n\x0c\ndef f():\n    return x\nf()\nx.real\n')
    add('formfeed-in-string', 'x = "a\x0cb"\nx.upper\ny = x\ny\n')
    add('formfeed-in-comment', '# c\x0comment\nx = 1\nx\nx.real\n')
    add('formfeed-indent', 'if x:\n\x0c    y = 1\n    y\ny\n')
    add('formfeed-mid-line', 'x = 1\x0cy = 2\n')
    add('fs-gs-rs-in-string', 'x = "a\x1cb"\ny = x\ny\nz = "p\x1dq\x1er"\nz.\n')
    add('unicode-separators-in-string', "s = '''a\x85d\u2028e\u2029f\x0bg'''\ns.\nt = s\nt\n")
    add('unicode-separators-in-comment', 'a = 1 # x\u2028y = 2\na\nb = a # \x85\nb.\n')
    add('vt-in-comment', 'a = 1 #\x0b b\na\n')
    add('crlf', 'import os\r\nos.path\r\nx = 1\r\nx.real\r\ndef f():\r\n    return x\r\n')
    add('crlf-unfinished', 'x = 1\r\nx.\r\ny = 2\r\n')
    add('lone-cr', 'a = 1\rb = a\rb\rb.real\r')
    add('lone-cr-unfinished', 'a = 1\rb = a\rb.\rc = 2')
    add('mixed-line-ends', 'a = 1\r\nb = a\nc = b\rc.real\n\r\n\rd = c\n')
    add('no-trailing-newline', 'x = 1\nx')
    add('no-trailing-newline-dot', 'x = 1\nx.')
    add('backslash-continuation', 'x = 1 + \\\n    2\ny = x. \\\n    real\n')
    add('backslash-at-eof', 'z = \\\n')
    add('tabs', 'if x:\n\ty = 1\n\tif y:\n\t\tz = y\n\tz.\n')
    add('bom', '\ufeffx = 1\nx\nx.\n')
    add('non-ascii-identifiers', 'é = 1\né.real\nимя = "s"\nимя.up\nx = "日本語"; x.\nclass Ä:\n    ö = 1\nÄ.ö\nÄ().\n')
    add('nfkc-identifiers', 'ﬁ = 1\nfi\nfi.\nℌ = 2\nH\n')
    add('wide-chars', 'x = "\U0001f600"; x.\n\U0001d4b3 = 1\n')
    add('empty', '')
    add('only-newline', '\n')
    add('only-newlines', '\n\n\n')
    add('only-spaces', '   ')
    add('only-comment', '#')
    add('only-backslash', '\\\n')
    add('only-dot', '.')
    add('mark-in-text', 'x = __supp_mark__\nx\n__supp_mark__ = 1\n__supp_mark__.\n')
    add('nul-byte', 'a = 1\x00\nb = a\n', expand=False)
    add('lone-surrogate', 'x = "\ud800"\nx\n', expand=False)
    add('deep-attribute-chain-150', 'a' + '.b' * 150 + '\n', expand=False)
    add('deep-attribute-chain-400', 'a' + '.b' * 400 + '\n', expand=False)
    add('deep-binop-150', 'x = ' + ' + '.join(['y'] * 150) + '\n', expand=False)
    add('deep-brackets-60', 'x = ' + '[' * 60 + 'y' + ']' * 60 + '\nx\n', expand=False)
    add('deep-blocks-60', ''.join(' ' * i + 'if x%d:\n' % i for i in range(60)) + ' ' * 60 + 'y = 1\ny\n', expand=False)
    flat = ''.join('if c%d:\n    v = %d\nelse:\n    w = v\n' % (i, i) for i in range(120)) + 'v\nw\n'
    H.append({'name': 'long-flat-file', 'files': {}, 'fname': 'main.py', 'text': flat,
              'positions': [(481, 0), (481, 1), (482, 1), (480, 9), (478, 9), (1, 5), (2, 5), (240, 9), (240, 5), (241, 0)]})
    add('long-line', 'x = [' + ', '.join('a%d' % i for i in range(40)) + ']\n')
    add('semicolons', 'a = 1; b = a; b.real; c = b\n')
    add('semicolons-unfinished', 'a = 1; b = a; b.; c = b\n')

    # -- other constructs the visitors may not know -----------------------------------------------------
    add('match-statement', 'match x:\n    case [a, b]:\n        a\n    case {"k": v, **rest}:\n        v.\n'
                           '    case C(z=1) as w:\n        w\n    case str() | bytes():\n        pass\n    case _:\n        x.\n')
    add('type-params', 'type X = int\nX\ndef f[T](x: T) -> T:\n    return x\nclass A[T]:\n    y: T\nf(1).\nA().\ntype L[T] = list[T]\n')
    add('type-param-bounds', 'def f[T: int, *Ts, **P](x: T) -> T:\n    return x\nclass A[T: (int, str)]:\n    pass\nf(1).\n')
    add('fstrings', 'x = 1\nw = 2\nf"{x.real!r:>{w}} {x=}"\nf"""{\n    x.\n}"""\nf"{x!r}".\n')
    add('decorators', '@a.b\n@c(d)\ndef f():\n    pass\n@e\nclass G:\n    @property\n    def p(self):\n        return 1\n'
                      '    @p.setter\n    def p(self, v):\n        pass\n    @staticmethod\n    def s():\n        return G\n'
                      'G().p.\nG.s().\n')
    add('one-line-bodies', 'class A: pass\ndef f(): pass\nclass B: x = 1; y = x\ndef g(): return A\ng().\nB.y\n'
                           'if x: y = 1\nelse: y = 2\ny\nfor i in j: k = i\nk\n')
    add('docstring-only', 'def f():\n    """doc"""\nclass A:\n    """doc"""\nf().\nA().\n')
    add('nested-scopes', 'def a():\n    def b():\n        def c():\n            return x\n        x = 1\n        return c\n'
                         '    return b\na()()().\nclass O:\n    class I:\n        class J:\n            v = 1\nO.I.J.v.\n')
    add('lambda-args', 'f = lambda a, /, b=1, *c, d, e=2, **g: (a, b, c, d, e, g)\nf(1).\n(lambda: 1)().\n'
                       'g = lambda *, k=f: k\ng().\n')
    add('def-args', 'def f(a, /, b: int = 1, *c: str, d, e: "x" = 2, **g: dict) -> None:\n    return a, b, c, d, e, g\n'
                    'f(1).\ndef h(self=1): return self\nh().\n')
    add('method-first-arg-odd', 'class A:\n    def m():\n        pass\n    def n(*args):\n        args[0].\n'
                                '    def o(*, k):\n        k.\n    @staticmethod\n    def s(x):\n        x.\n'
                                '    f = lambda self: self.\nA().m\n')
    add('call-forms', 'f(*a, **k).\na[0].\n(a if b else c).\n(a or b).\n(not a).\n(a, b).\n[a][0].\n(yield).\n'
                      '(await x).\n{**a}.\nprint(end="").\na[b:c].\n-a.\n')
    add('self-at-module-level', 'self.x = 1\nself.\nself.x.\ncls.y = 2\n')
    add('attr-assign-chains', 'class A:\n    pass\na = A()\na.x = a\na.x.x.x.\na.y.z = 1\na.y.\nA.k = A\nA.k.k.\n'
                              'b = a\nb.x = b.x.x\nb.x.\n')
    add('global-decl', 'def f():\n    global g\n    g = 1\n    g.\ndef h():\n    global g\n    g = ""\ng.\ng\n')
    add('star-import-in-function', 'def f():\n    from os import *\n    return path\nf().\nclass A:\n    from os.path import *\n'
                                   'A.join\n')
    add('dunder-all', '__all__ = ["a", b]\n__all__ += c\n__all__.\na = 1\n')
    add('class-keywords', 'class M(type): pass\nclass A(B, metaclass=M, flag=x.y): pass\nA().\nA.\n')
    add('while-forms', 'while x:\n    x = x.next\n    x.\nelse:\n    x\nwhile (y := f()):\n    y.\nwhile 1: z = z.a\nz.\n')
    add('loop-carried', 'a = None\nfor i in r:\n    if a:\n        a.\n    a = i\n    b = a\nb.\nwhile a:\n    for j in a:\n'
                        '        a = j\n        if j: break\n    else:\n        continue\na.\n')
    add('try-forms', 'try:\n    a = 1\nexcept E:\n    a = ""\nelse:\n    a = []\nfinally:\n    a.\na.\ntry:\n    b = 1\n'
                     'finally:\n    pass\nb\n')
    add('conditional-defs', 'if x:\n    def f(): return 1\n    class A: p = 1\nelse:\n    def f(): return ""\n'
                            '    class A: q = 2\nf().\nA().\nA.\nf\nA\n')
    add('augassign', 'x = 1\nx += x\nx.\ny += 1\ny\na.b += c\nd[e] += f\n')
    add('annotations', 'x: "A" = None\ndef f(a: x, b: "x.y") -> "z":\n    c: int\n    c\n    return a\nf().\nclass A:\n'
                       '    k: int\n    j: str = ""\nA.k\nA().j.\n')
    add('string-prefixes', 'a = r"x"\nb = b"y"\nc = rb"z"\nd = u"w"\ne = f"v"\na.\nb.\nc.\nd.\ne.\n')
    add('numbers', '1.\n1.e3\n0x1f.real\n1j.imag\n1_000.bit_length\n1 .real\n', split=True, expand=False)
    add('indent-errors', 'def f():\nreturn 1\n  x = 2\n    y = 3\n')
    add('indent-errors-2', 'if x:\n        y = 1\n    z = y\n')
    add('unclosed', 'x = (1,\ny = [\nz = {"a":\ns = "abc\nt = """abc\n', split=True)
    add('keywords-as-names', 'def = 1\nclass.\nimport import\nfrom from import from\nlambda.\nmatch = 1\nmatch.\ncase = 2\n'
                             'type = 3\ntype.\n_ = 4\n', split=True)
    return H


# module lists for the systematic "cursor on a compiled module" sweep: modules an editor user plausibly imports
COMPILED_MODULES = ['builtins', 'sys', 'zlib', 'math', 'cmath', 'time', 'itertools', '_thread', '_io', '_collections',
                    '_functools', 'array', 'select', '_struct', 'binascii', '_random', '_datetime', '_decimal', '_json',
                    '_pickle', '_csv', 'unicodedata', '_bisect', '_heapq', '_operator', 'errno', 'posix', 'pwd', 'grp',
                    'atexit', 'gc', '_weakref', '_sre', '_codecs', 'marshal', '_signal', '_locale', '_string', '_abc',
                    '_stat', '_tracemalloc', '_warnings', '_symtable', '_imp', '_contextvars', '_queue', '_opcode',
                    '_lsprof', '_bz2', '_lzma', 'mmap', 'fcntl', 'resource', '_hashlib', '_blake2', '_md5', '_sha1',
                    '_sha2', '_sha3', 'pyexpat', '_elementtree', '_statistics', '_zoneinfo', '_posixsubprocess',
                    '_multibytecodec', '_uuid', '_ast', '_tokenize', '_typing', '_socket']


# ---------------------------------------------------------------------------------------------
# systematic families (same case format as hostile_cases)

def _case(name, text, positions=None, files=None, fname='main.py'):
    return {'name': name, 'files': files or {}, 'fname': fname, 'text': text, 'positions': positions}


def target_shapes(depth=3):
    """[(label, source text of a target, names it binds)]: every shape of assignment target up to `depth`:
    name / attribute / subscript leaves, bare and parenthesised tuples, lists, one starred element per level whose
    value is a leaf, a tuple or a list."""
    leaves = [('name', 'n{i}', True), ('attr', 'o.a{i}', False), ('sub', 's[{i}]', False), ('attr-call', 'f().a{i}', False),
              ('sub-slice', 's[{i}:]', False)]
    counter = [0]

    def fresh():
        counter[0] += 1
        return counter[0]

    def leaf(kind):
        for k, tpl, binds in leaves:
            if k == kind:
                i = fresh()
                return tpl.format(i=i), (['n%d' % i] if binds else [])
        raise KeyError(kind)

    shapes = []

    def add(label, text, names):
        shapes.append((label, text, names))

    # depth 1: leaves
    for k, _, _ in leaves:
        t, n = leaf(k)
        add(k, t, n)
    seqs = [('tuple', '%s', ', '), ('ptuple', '(%s)', ', '), ('list', '[%s]', ', ')]

    def seq(kind, elems):
        fmt = dict((k, f) for k, f, _ in seqs)[kind]
        body = ', '.join(elems)
        if kind in ('tuple', 'ptuple') and len(elems) == 1:
            body += ','
        return fmt % body

    def build(d, allow_bare):
        """all (label, text, names) of composite shapes of nesting depth d (d >= 2)"""
        out = []
        inner_kinds = ['name', 'attr', 'sub']
        for kind in ('tuple', 'ptuple', 'list'):
            if kind == 'tuple' and not allow_bare:
                continue
            # plain sequences of leaves / with one nested element / with a starred element
            variants = []
            a, an = leaf('name')
            b, bn = leaf('attr')
            c, cn = leaf('sub')
            variants.append(('leaves', [a, b, c], an + bn + cn))
            a, an = leaf('name')
            variants.append(('single', [a], an))
            for sk in inner_kinds:
                a, an = leaf('name')
                s, sn = leaf(sk)
                variants.append(('star-' + sk, [a, '*' + s], an + sn))
                s, sn = leaf(sk)
                variants.append(('only-star-' + sk, ['*' + s], sn))
            if d >= 2:
                for ik in ('ptuple', 'list'):
                    for lab, t, n in (build(d - 1, False) if d > 2 else
                                      [('leaves', seq(ik, [leaf('name')[0], leaf('attr')[0]]), None)]):
                        names_in = re.findall(r'\bn\d+\b', t)
                        a, an = leaf('name')
                        inner = t if d > 2 else t
                        variants.append(('nested-%s(%s)' % (ik, lab), [a, inner], an + names_in))
                        a, an = leaf('name')
                        variants.append(('star-nested-%s(%s)' % (ik, lab), [a, '*' + inner], an + names_in))
                        variants.append(('mid-star-nested-%s(%s)' % (ik, lab), [leaf('sub')[0], '*' + inner, leaf('name')[0]],
                                         names_in))
                        if d > 2:
                            break
            for lab, elems, names in variants:
                text = seq(kind, elems)
                out.append(('%s:%s' % (kind, lab), text, re.findall(r'\bn\d+\b', text)))
        return out

    for d in range(2, depth + 1):
        for lab, t, n in build(d, True):
            add('d%d:%s' % (d, lab), t, n)
    # dedupe by shape text with the numbers blanked
    seen, out = set(), []
    for lab, t, n in shapes:
        key = re.sub(r'\d+', '#', t)
        if key in seen:
            continue
        seen.add(key)
        out.append((lab, t, n))
    return out


TARGET_CONTEXTS = ('assign', 'chained-assign', 'for', 'async-for', 'with', 'with-2-items', 'async-with', 'listcomp', 'dictcomp',
                   'genexp-nested', 'del', 'for-in-function', 'assign-in-class')


def target_cases():
    """every target shape in every binding context; the bound names are read and completed afterwards"""
    out = []
    for lab, t, names in target_shapes():
        use = ''.join('%s\n%s.zz\n' % (n, n) for n in names[:2]) or 'o.zz\n'
        bare = not t.startswith(('(', '['))
        pt = '(%s)' % t if bare and ',' in t else t        # where a bare tuple is not allowed
        for ctx in TARGET_CONTEXTS:
            if ctx == 'assign':
                text = '%s = v\n%s' % (t, use)
            elif ctx == 'chained-assign':
                text = 'first = %s = v\n%s' % (t, use)
            elif ctx == 'for':
                text = 'for %s in v:\n    pass\n%s' % (t, use)
            elif ctx == 'async-for':
                text = 'async def g():\n    async for %s in v:\n        pass\n    return %s\n' % (t, (names or ['o'])[0])
            elif ctx == 'with':
                text = 'with v as %s:\n    pass\n%s' % (pt, use)
            elif ctx == 'with-2-items':
                text = 'with v as %s, w as other:\n    other\n%s' % (pt, use)
            elif ctx == 'async-with':
                text = 'async def g():\n    async with v as %s:\n        pass\n' % pt
            elif ctx == 'listcomp':
                text = 'r = [%s for %s in v]\nr.zz\n' % ((names or ['o'])[0], t)
            elif ctx == 'dictcomp':
                text = 'r = {k: %s for k, %s in v if k}\n' % ((names or ['o'])[0], pt)
            elif ctx == 'genexp-nested':
                text = 'r = (%s for row in v for %s in row)\n' % ((names or ['o'])[0], t)
            elif ctx == 'del':
                if '*' in t:
                    continue
                text = 'del %s\n%s' % (t, use)
            elif ctx == 'for-in-function':
                text = 'def g(o, s, v):\n    for %s in v:\n        %s = v\n    return %s\ng().zz\n' % (t, t, (names or ['o'])[0])
            elif ctx == 'assign-in-class':
                text = 'class K:\n    %s = v\nK.zz\nK().zz\n' % t
            out.append(_case('target:%s:%s' % (ctx, lab), text))
    return out


def del_cases():
    """del of names / attributes / subscripts in module, class and function bodies, followed by every kind of
    request on the class, the instance, the module (imported from a second file) and the name itself"""
    out = []
    dels = [('name', 'del x'), ('name-pair', 'del x, y'), ('paren', 'del (x)'), ('tuple', 'del (x, y)'), ('list', 'del [x, y]'),
            ('attr', 'del x.a'), ('sub', 'del x[0]'), ('slice', 'del x[1:2]'), ('mixed', 'del x, y.a, z[0]'),
            ('nested', 'del (x, [y, (z,)])')]
    pres = [('unbound', ''), ('bound-before', 'x = 1\ny = ""\nz = []\n'), ('bound-after', None), ('bound-in-branch', 'if c:\n    x = 1\n')]
    for dl, d in dels:
        for pl, pre in pres:
            after = 'x = 2\ny = 3\n' if pre is None else ''
            pre_ = pre or ''
            body = pre_ + d + '\n' + after
            ind = lambda s, n=4: ''.join(' ' * n + l + '\n' for l in s.splitlines())
            name = '%s:%s' % (dl, pl)
            # module body
            out.append(_case('del:module:' + name, body + 'x\nx.zz\ny\n'))
            out.append(_case('del:module-imported:' + name, 'import m\nm.zz\nm.x\nfrom m import x\nx.zz\nfrom m import *\ny\n',
                             files={'m.py': body}))
            # class body
            out.append(_case('del:class:' + name, 'class A:\n' + ind(body) + '    def f(self):\n        return self.x\n'
                             'A.zz\nA.x\nA().zz\nA().x\nA().f().zz\nclass B(A):\n    pass\nB.zz\nB().x\n'))
            out.append(_case('del:class-imported:' + name, 'from m import A\nA.zz\nA().x\nimport m\nm.A.x\nclass B(m.A): pass\nB().zz\n',
                             files={'m.py': 'class A:\n' + ind(body)}))
            # function body
            out.append(_case('del:function:' + name, 'def f(z=None):\n' + ind(body) + '    return x\nf().zz\nf\n'))
            # method body: del self.x
            out.append(_case('del:method:' + name, 'class A:\n    def __init__(self):\n        self.x = 1\n' + ind(body, 8) +
                             '        del self.x\n    def g(self):\n        del self.x, self.q\n        return self.x\nA().zz\nA().x\nA().g().zz\n'))
            # nested class in a function
            out.append(_case('del:class-in-function:' + name, 'def f():\n    class A:\n' + ind(body, 8) + '    return A\nf().zz\nf()().x\n'))
    out.append(_case('del:global-nonlocal', 'def f():\n    global g\n    del g\n    def h():\n        nonlocal v\n        del v\n'
                                           '    v = 1\n    return v\ng = 1\ng.zz\nf().zz\nclass A:\n    global g\n    del g\nA.zz\n'))
    out.append(_case('del:in-loop', 'for i in r:\n    x = i\n    del x\nx\nclass A:\n    for j in r:\n        del j\nA.zz\nA.j\n'))
    out.append(_case('del:comprehension-var', 'class A:\n    y = [q for q in r]\n    del q\nA.zz\n'))
    return out


FLAT_KINDS = ('assign', 'expr', 'if', 'if-distinct', 'for-distinct', 'try-distinct', 'if-else', 'elif-chain', 'for', 'try', 'try-finally', 'with', 'def', 'class',
              'import', 'augassign', 'lambda', 'comprehension', 'mixed')


def flat_text(kind, n, indent=''):
    """n sequential statements of one kind; every one (re)binds v (and most read it)"""
    L = []
    if kind == 'elif-chain':
        L.append('if c0:\n    v = 0\n')
        for i in range(1, n):
            L.append('elif c%d:\n    v = %d\n' % (i, i))
    else:
        for i in range(n):
            if kind == 'assign':
                L.append('v = %d\n' % i)
            elif kind == 'expr':
                L.append('v(%d)\n' % i)
            elif kind == 'if':
                L.append('if c:\n    v = %d\n' % i)
            elif kind == 'if-distinct':
                L.append('if c:\n    v%d = v\n' % i)
            elif kind == 'for-distinct':
                L.append('for v%d in r:\n    pass\n' % i)
            elif kind == 'try-distinct':
                L.append('try:\n    v%d = v\nexcept E:\n    pass\n' % i)
            elif kind == 'if-else':
                L.append('if c:\n    v = %d\nelse:\n    w = v\n' % i)
            elif kind == 'for':
                L.append('for v in r:\n    w = v\n')
            elif kind == 'while':
                L.append('while v:\n    v = v.n\n')
            elif kind == 'try':
                L.append('try:\n    v = %d\nexcept E as e:\n    w = e\n' % i)
            elif kind == 'try-finally':
                L.append('try:\n    v = %d\nfinally:\n    w = v\n' % i)
            elif kind == 'with':
                L.append('with c as v:\n    w = v\n')
            elif kind == 'def':
                L.append('def v(a=v):\n    return a\n')
            elif kind == 'class':
                L.append('class v(v):\n    a = v\n')
            elif kind == 'import':
                L.append('import os as v\n')
            elif kind == 'augassign':
                L.append('v += %d\n' % i)
            elif kind == 'lambda':
                L.append('v = lambda a=v: a\n')
            elif kind == 'comprehension':
                L.append('v = [a for a in v]\n')
            elif kind == 'mixed':
                L.append(['v = %d\n' % i, 'if v:\n    v = v.a\n', 'for w in v:\n    v = w\n', 'try:\n    v = w\nexcept E:\n    pass\n',
                          'def f%d(a=v):\n    return v\n' % i, 'with v as w:\n    pass\n'][i % 6])
    text = 'v = None\nw = None\n' + ''.join(L)
    if indent:
        text = ''.join(indent + l + '\n' for l in text.splitlines())
    return text


def flat_cases(sizes, kinds=FLAT_KINDS, placements=('module', 'function', 'loop', 'class', 'imported'), elif_n=150):
    """long FLAT programs: lint + cursor requests at the end, in the middle and at the start; at module level, inside
    a function body, inside a loop body, inside a class body, and as a module imported by the edited file"""
    out = []
    for n0 in sizes:
        for kind in kinds:
            n = n0
            if kind == 'elif-chain':
                # an elif chain NESTS (each elif is the orelse of the previous if): keep it below the depth at which
                # a RecursionError counts as nesting beyond the recursion limit
                if n0 > 500:
                    continue
                n = elif_n if n0 <= 200 else 60
            body = flat_text(kind, n)
            # module level
            text = body + 'v\nv.zz\n'
            L = Lines(text)
            last = len(L) - 1                   # the 'v.zz' row
            mid = max(3, last // 2)
            while mid > 3 and (not L.lines[mid - 1].strip() or L.lines[mid - 1].startswith((' ', 'el', 'ex', 'fi'))):
                mid -= 1
            pos = [(last - 1, 1), (last, 2), (last, 4), (mid, 0), (mid, len(L.lines[mid - 1])), (3, len(L.lines[2])), (1, 1)]
            if 'module' in placements:
                out.append(_case('flat:module:%s:%d' % (kind, n), text, positions=pos))
            if True:
                for where, head, tail in (('function', 'def g(c, r, E):\n', '    return v\ng().zz\n'),
                                          ('loop', 'for k in r:\n', 'v.zz\n'),
                                          ('class', 'class K:\n', 'K.v.zz\nK().w\n')):
                    if where not in placements:
                        continue
                    if where == 'loop' and kind in ('for', 'for-distinct', 'while', 'mixed', 'comprehension'):
                        continue        # loops in a loop body double the analysis time per statement: see growth_cases
                    t2 = head + flat_text(kind, n, '    ') + tail
                    L2 = Lines(t2)
                    rows = len(L2) - 1
                    pos2 = [(rows, len(L2.lines[rows - 1]) - 2), (rows, len(L2.lines[rows - 1])), (rows - 1, len(L2.lines[rows - 2])),
                            (rows // 2, len(L2.lines[rows // 2 - 1]))]
                    out.append(_case('flat:%s:%s:%d' % (where, kind, n), t2, positions=pos2))
                if 'imported' in placements:
                    out.append(_case('flat:imported:%s:%d' % (kind, n), 'import big\nbig.v\nbig.v.zz\nfrom big import v, w\nv.zz\nfrom big import *\nw\n',
                                     files={'big.py': body}))
    return out


def char_cases(big=False):
    """lone surrogates, control characters, very long lines and identifiers, brackets nested up to below the parser's limit"""
    out = []
    for cp in (0xd800, 0xdc80, 0xdfff):
        ch = chr(cp)
        out.append(_case('chars:surrogate-in-string:%04x' % cp, 'x = "%s"\nx\nx.zz\n' % ch))
        out.append(_case('chars:surrogate-in-comment:%04x' % cp, 'x = 1 # %s\nx\n' % ch))
        out.append(_case('chars:surrogate-in-identifier:%04x' % cp, 'x%s = 1\nx\n' % ch))
        out.append(_case('chars:surrogate-escape-in-string:%04x' % cp, 'x = "\\u%04x"\nx\nx.zz\ny = x.encode()\n' % cp))
    out.append(_case('chars:surrogate-pair-escape', 'x = "\\ud83d\\ude00"\nx.zz\n'))
    for cp in list(range(1, 9)) + [0x0b, 0x0c] + list(range(0x0e, 0x20)) + [0x7f, 0x80, 0x85, 0x9f, 0xa0, 0xad, 0x200b, 0x2028, 0xfeff,
                                                                           0xfffe, 0xffff, 0x10ffff]:
        ch = chr(cp)
        out.append(_case('chars:control-in-string:%04x' % cp, 'x = "a%sb"\nx\nx.zz\n' % ch))
        out.append(_case('chars:control-in-comment:%04x' % cp, 'x = 1 # a%sb\nx\nx.zz\n' % ch))
        out.append(_case('chars:control-in-code:%04x' % cp, 'x = 1\nx%s\ny = x\n' % ch, positions=[(2, 1), (2, 2), (3, 5)]))
        out.append(_case('chars:control-in-triple-string:%04x' % cp, 'x = """a\n%s\nb"""\nx.zz\n' % ch))
    out.append(_case('chars:nul-in-string', 'x = "a\x00b"\nx\n'))
    out.append(_case('chars:nul-in-comment', 'x = 1 # \x00\nx\n'))
    for n in (1000, 20000, 200000) if big else (1000, 20000):
        ends = lambda t: [(len(Lines(t)) - 1, 0), (len(Lines(t)) - 1, 1), (len(Lines(t)) - 1, 2), (1, 3),
                          (1, min(n // 2, len(Lines(t).lines[0]) - 1)), (1, 1)]
        t = 'x = [' + ', '.join('a%d' % i for i in range(n // 6)) + ']\nx.zz\n'
        out.append(_case('chars:long-line-list:%d' % n, t, positions=ends(t)))
        t = 'x = "' + 'a' * n + '"\nx.zz\n'
        out.append(_case('chars:long-line-string:%d' % n, t, positions=ends(t)))
        t = 'x = 1 # ' + 'c' * n + '\nx.zz\n'
        out.append(_case('chars:long-line-comment:%d' % n, t, positions=ends(t)))
        t = 'x = ' + ' + '.join(['y'] * min(n // 4, 180)) + '\nx.zz\n'
        out.append(_case('chars:long-line-binop:%d' % n, t, positions=ends(t)))
        t = 'x = f(' + ', '.join('k%d=%d' % (i, i) for i in range(n // 8)) + ')\nx.zz\n'
        out.append(_case('chars:long-line-call:%d' % n, t, positions=ends(t)))
        t = 'x = "' + 'é' * (n // 2) + '"; y = x\ny.zz\n'
        out.append(_case('chars:long-line-non-ascii:%d' % n, t, positions=ends(t) + [(1, n // 2 + 12), (1, n // 2 + 13)]))
    for n in (100, 1000, 5000, 50000) if big else (100, 1000, 5000):
        ident = 'i' * n
        t = '%s = 1\n%s\n%s.zz\nclass %sC:\n    %s = 2\n%sC.%s\n' % (ident, ident, ident, ident, ident, ident, ident)
        out.append(_case('chars:long-identifier:%d' % n, t,
                         positions=[(2, n), (2, n // 2), (3, n + 1), (3, n + 3), (6, 2 * n + 2), (6, n + 1), (1, 0)]))
        t = 'import %s\nfrom %s import %s\n%s\n' % (ident, ident, ident, ident)
        out.append(_case('chars:long-identifier-import:%d' % n, t, positions=[(1, 7 + n), (1, 8), (2, 5 + n), (2, 13 + 2 * n), (3, n)]))
    for n in (50, 100, 150, 190, 199, 200):
        for o, c in ('()', '[]', '{}'):
            inner = 'y' if o != '{' else 'y'
            t = 'x = ' + o * n + inner + (',' if o == '(' else '') + c * n + '\nx.zz\n'
            out.append(_case('chars:nested-brackets:%s:%d' % (o + c, n), t,
                             positions=[(2, 2), (2, 4), (1, 4 + n), (1, 5 + n), (1, 4 + n // 2), (1, 3)]))
        t = 'x = ' + 'f(' * n + 'y' + ')' * n + '\nx.zz\n'
        out.append(_case('chars:nested-calls:%d' % n, t, positions=[(2, 2), (2, 4), (1, 4 + 2 * n), (1, 5 + 2 * n), (1, 5)]))
        t = 'x = ' + '(lambda: ' * min(n, 90) + 'y' + ')' * min(n, 90) + '\nx.zz\n'
        out.append(_case('chars:nested-lambdas:%d' % min(n, 90), t, positions=[(2, 2), (2, 4), (1, 10)]))
        t = 'x = y' + '[0]' * n + '.a' * n + '\nx.zz\n'
        out.append(_case('chars:subscript-attribute-chain:%d' % n, t, positions=[(2, 2), (2, 4), (1, 5 + 3 * n + 2), (1, 5 + 5 * n)]))
    # dedupe by name (nested-lambdas repeats)
    seen, res = set(), []
    for c in out:
        if c['name'] not in seen:
            seen.add(c['name'])
            res.append(c)
    return res


def growth_cases(sizes, budget_probes):
    """short runs of sequential compound statements (sizes 4..16) in every placement: cheap when the analysis is
    polynomial, over the step budget when it doubles with every statement; budget_probes = [(placement, kind, n)] are
    the sizes at which a doubling analysis needs more than 8*B line events"""
    out = []
    kinds = ('if', 'if-else', 'for', 'for-distinct', 'while', 'try', 'try-finally', 'with', 'def', 'class', 'comprehension', 'mixed',
             'lambda', 'augassign')

    def build(where, kind, n):
        body = flat_text(kind, n, '' if where == 'module' else '    ')
        text = {'module': body + 'v\nv.zz\n',
                'function': 'def g(c, r, E):\n' + body + '    return v\ng().zz\n',
                'loop': 'for k in r:\n' + body + 'v\nv.zz\n',
                'while-loop': 'while c:\n' + body + 'v\nv.zz\n',
                'class': 'class K:\n' + body + 'K.v.zz\n',
                'method': 'class K:\n    def m(self, c, r, E):\n' + flat_text(kind, n, '        ') + '        self.a = v\n'
                          '        return v\nK().m().zz\nK().a.zz\n'}[where]
        L = Lines(text)
        rows = len(L) - 1
        pos = [(rows, len(L.lines[rows - 1]) - 2), (rows, len(L.lines[rows - 1])), (rows - 1, len(L.lines[rows - 2])),
               (max(1, rows // 2), len(L.lines[max(1, rows // 2) - 1]))]
        return _case('growth:%s:%s:%d' % (where, kind, n), text, positions=pos)
    for n in sizes:
        for where in ('module', 'function', 'loop', 'while-loop', 'class', 'method'):
            for kind in kinds:
                out.append(build(where, kind, n))
    for where, kind, n in budget_probes:
        out.append(build(where, kind, n))
    return out


DUNDER_USES = {
    '__call__': ['k = K()\nr = k(1)\nr.zz\n', 'K()(1).zz\n', 'K()(1)(2).zz\n', 'K().__call__(1).zz\n', 'K.__call__.zz\n', 'K().__call__.zz\n'],
    '__init__': ['K(1).zz\n', 'k = K(1)\nk.zz\nk.made.zz\n', 'K.__init__.zz\n', 'K(1).__init__(2).zz\n'],
    '__enter__': ['with K() as e:\n    e.zz\n', 'with K() as e, e as f:\n    f.zz\n', 'K().__enter__().zz\n'],
    '__getitem__': ['K()[0].zz\n', 'K()[0][1].zz\n', 'for i in K():\n    i.zz\n', 'a, b = K()\na.zz\n', 'K().__getitem__(0).zz\n'],
    '__iter__': ['for i in K():\n    i.zz\n', 'r = [j for j in K()]\nr.zz\n', 'a, *b = K()\nb.zz\n', 'K().__iter__().zz\n',
                 'next(iter(K())).zz\n'],
    '__get__': ['class H:\n    d = K()\nH.d.zz\nH().d.zz\n'],
    '__getattr__': ['K().anything.zz\n', 'K().anything(1).zz\n'],
}

DUNDER_SIG = {'__call__': 'self, *a', '__init__': 'self, *a', '__enter__': 'self', '__getitem__': 'self, i', '__iter__': 'self',
              '__get__': 'self, o, t=None', '__getattr__': 'self, n'}


def _dunder_forms(d):
    """[(label, prelude, class body lines)]: the ways a class can come by the special method d"""
    sig = DUNDER_SIG[d]
    body1 = 'self.made = R()\n        return self' if d == '__init__' else 'return R()'
    body2 = 'self.made = ""\n        return None' if d == '__init__' else 'return ""'
    df = lambda ind, body: '%sdef %s(%s):\n%s    %s\n' % (ind, d, sig, ind, body.replace('\n        ', '\n' + ind + '    '))
    F = []
    F.append(('def', '', df('    ', body1)))
    F.append(('two-branches', '', '    if c:\n' + df('        ', body1) + '    else:\n' + df('        ', body2)))
    F.append(('three-branches', '', '    if c:\n' + df('        ', body1) + '    elif d:\n' + df('        ', body2) +
              '    else:\n        %s = None\n' % d))
    F.append(('try-except', '', '    try:\n' + df('        ', body1) + '    except NameError:\n' + df('        ', body2)))
    F.append(('maybe-bound', '', '    if c:\n' + df('        ', body1)))
    F.append(('loop-bound', '', '    for q in r:\n' + df('        ', body1)))
    F.append(('rebound-by-assignment', 'def other(%s):\n    return R()\n' % sig, df('    ', body2) + '    %s = other\n' % d))
    F.append(('assigned-function', 'def other(%s):\n    return R()\n' % sig, '    %s = other\n' % d))
    F.append(('inherited', 'class Base:\n' + df('    ', body1), '    pass\n'))
    F.append(('inherited-two-branches', 'class Base:\n    if c:\n' + df('        ', body1) + '    else:\n' + df('        ', body2), '    pass\n'))
    F.append(('inherited-from-composite-base', 'if c:\n    class Base:\n' + df('        ', body1) + 'else:\n    class Base:\n' +
              df('        ', body2), '    pass\n'))
    F.append(('property', '', '    @property\n    def %s(self):\n        return R\n' % d))
    F.append(('property-two-branches', '', '    if c:\n        @property\n        def %s(self):\n            return R\n    else:\n'
              '        %s = property(lambda self: R)\n' % (d, d)))
    F.append(('lambda', '', '    %s = lambda %s: R()\n' % (d, sig)))
    F.append(('class', '', '    %s = R\n' % d))
    F.append(('nested-class', '', '    class %s:\n        x = 1\n' % d))
    F.append(('none', '', '    %s = None\n' % d))
    F.append(('constant', '', '    %s = "text"\n' % d))
    F.append(('instance', '', '    %s = R()\n' % d))
    F.append(('builtin', '', '    %s = len\n' % d))
    F.append(('builtin-type', '', '    %s = str\n' % d))
    F.append(('staticmethod', '', '    @staticmethod\n    def %s(*a):\n        return R()\n' % d))
    F.append(('classmethod', '', '    @classmethod\n    def %s(cls, *a):\n        return cls\n' % d))
    F.append(('self-attribute', '', '    def setup(self):\n        self.%s = lambda *a: R()\n' % d))
    F.append(('self-attribute-two-values', '', '    def setup(self):\n        self.%s = R\n        self.%s = None\n' % (d, d)))
    F.append(('returns-self', '', '    def %s(%s):\n        return self\n' % (d, sig)))
    F.append(('calls-itself', '', '    def %s(%s):\n        return self.%s()\n' % (d, sig, d)))
    F.append(('imported', 'from m import helper\n', '    %s = helper\n' % d))
    F.append(('imported-as', 'from m import helper as %s_\n' % d.strip('_'), '    %s = %s_\n' % (d, d.strip('_'))))
    F.append(('unknown-name', '', '    %s = nowhere\n' % d))
    F.append(('deleted', '', df('    ', body1) + '    del %s\n' % d))
    return F


CALLABLES = [('function', 'def f():\n    return R()\n', 'f'), ('function-no-return', 'def f():\n    pass\n', 'f'),
             ('function-two-returns', 'def f():\n    if c:\n        return R()\n    return ""\n', 'f'),
             ('lambda', 'f = lambda: R()\n', 'f'), ('class', '', 'R'), ('instance', 'f = R()\n', 'f'),
             ('callable-instance', 'class Q:\n    def __call__(self):\n        return R()\nf = Q()\n', 'f'),
             ('none', 'f = None\n', 'f'), ('string', 'f = "s"\n', 'f'), ('number', 'f = 1\n', 'f'), ('list', 'f = [R]\n', 'f'),
             ('builtin', '', 'len'), ('builtin-type', '', 'dict'), ('module', 'import os\n', 'os'),
             ('module-function', 'import os\n', 'os.getcwd'), ('project-module', 'import m\n', 'm'),
             ('project-module-function', 'import m\n', 'm.helper'), ('project-module-class', 'import m\n', 'm.Helper'),
             ('project-module-instance', 'import m\n', 'm.inst'), ('project-module-composite', 'import m\n', 'm.either'),
             ('bound-method', 'f = R().meth\n', 'f'), ('unbound-method', '', 'R.meth'), ('property-object', '', 'R.prop'),
             ('call-result', 'def g():\n    return R\n', 'g()'), ('unknown', '', 'nowhere'), ('runtime-instance', 'import sys\n', 'sys.stdout'),
             ('runtime-method', '', '"".join'), ('partial', 'import functools\nf = functools.partial(R)\n', 'f'),
             ('type-call', '', 'type(R())'), ('super', '', 'super')]

CALL_HELPER_MODULE = ('class Helper:\n    def __call__(self):\n        return self\n    attr = 1\n'
                      'def helper(*a):\n    return Helper()\ninst = Helper()\nif c:\n    either = helper\nelse:\n    either = Helper\n')
CALL_PRELUDE = 'class R:\n    ra = 1\n    def meth(self):\n        return self\n    @property\n    def prop(self):\n        return self\n'


def call_cases(all_pairs=False):
    """"call of everything": instances whose special methods are bound in every odd way, calls of names bound to
    different kinds of values on different branches, of module attributes, of runtime objects, of call results -
    each followed by attribute completion / go-to-definition on the result (every (line, col) is tried)"""
    out = []
    files = {'m.py': CALL_HELPER_MODULE}
    for d in sorted(DUNDER_USES):
        for label, prelude, body in _dunder_forms(d):
            uses = ''.join(DUNDER_USES[d])
            inner = ''
            if d == '__call__':
                inner = '    def twice(self):\n        return self("x").zz\n'
            text = CALL_PRELUDE + prelude + 'class K(%s):\n' % ('Base' if 'Base' in prelude else 'object') + body + inner + uses
            out.append(_case('calls:%s:%s' % (d, label), text, files=files, positions='tokens:%d' % (len(Lines(CALL_PRELUDE)) - 1)))
    # names bound to two different kinds of values
    for i, (la, pa, ea) in enumerate(CALLABLES):
        # alone
        text = CALL_PRELUDE + pa + 'r = %s()\nr.zz\n%s().zz\n%s()().zz\n%s().ra.zz\n' % (ea, ea, ea, ea)
        out.append(_case('calls:single:%s' % la, text, files=files))
        rest = CALLABLES[i + 1:] + CALLABLES[:i]
        for lb, pb, eb in (CALLABLES[i + 1:] if all_pairs else rest[:3] + rest[7::9]):
            text = (CALL_PRELUDE + pa + pb + 'if c:\n    h = %s\nelse:\n    h = %s\nr = h()\nr.zz\nh().zz\nh()().zz\n' % (ea, eb))
            out.append(_case('calls:either:%s|%s' % (la, lb), text, files=files,
                             positions='tail:5'))
    # three-way and loop-carried
    out.append(_case('calls:three-way', CALL_PRELUDE + 'def f():\n    return R()\ntry:\n    h = f\nexcept E:\n    h = R\nelse:\n    h = None\n'
                                        'h().zz\nfor h in [f, R]:\n    h().zz\nwhile c:\n    h = h()\nh().zz\n', files=files))
    out.append(_case('calls:decorated', CALL_PRELUDE + 'def deco(fn):\n    return R()\n@deco\ndef f():\n    pass\nf().zz\nf.zz\n'
                                        '@R\nclass D:\n    pass\nD().zz\n@deco\nclass E:\n    def __call__(self):\n        return 1\nE()().zz\n', files=files))
    out.append(_case('calls:star-imported', 'from m import *\nhelper().zz\nhelper()().zz\ninst().zz\neither().zz\neither()().zz\nHelper()().attr.zz\n',
                     files=files))
    return out


def chain_cases(alias=(50, 150, 300, 600), elif_n=(100, 400, 1500), nest=(4, 8, 10)):
    """growth shapes that are chains rather than sequences: alias chains (a1 = a0; a2 = a1; ...), elif chains, attribute-assignment
    chains through instances, call chains, nested loops"""
    out = []
    for n in alias:
        t = 'a0 = "s"\n' + ''.join('a%d = a%d\n' % (i, i - 1) for i in range(1, n + 1)) + 'a%d.zz\n' % n
        w = len('a%d' % n)
        out.append(_case('chain:alias:%d' % n, t, positions=[(n + 2, w + 1), (n + 2, w + 3), (n + 2, w), (n // 2, 1)]))
        t = 'def f0():\n    return ""\n' + ''.join('def f%d():\n    return f%d()\n' % (i, i - 1) for i in range(1, n + 1)) + 'f%d().zz\n' % n
        w = len('f%d()' % n)
        out.append(_case('chain:call:%d' % n, t, positions=[(2 * n + 3, w + 1), (2 * n + 3, w + 3), (2 * n + 3, w - 2)]))
        t = ('class C:\n    pass\nc0 = C()\n' + ''.join('c%d = C()\nc%d.p = c%d\n' % (i, i, i - 1) for i in range(1, min(n, 150) + 1)) +
             'c%d%s.zz\n' % (min(n, 150), '.p' * 3))
        if n <= 150:
            out.append(_case('chain:attribute:%d' % n, t, positions=[(2 * n + 4, len('c%d' % n) + 1), (2 * n + 4, len('c%d.p.p.p' % n) + 1)]))
        t = 'import os\nm0 = os\n' + ''.join('m%d = m%d.path\n' % (i, i - 1) if i == 1 else 'm%d = m%d\n' % (i, i - 1) for i in range(1, n + 1)) + 'm%d.zz\n' % n
        out.append(_case('chain:alias-of-module:%d' % n, t, positions=[(n + 3, len('m%d' % n) + 1), (n + 3, len('m%d' % n))]))
    for n in elif_n:
        t = 'if c0:\n    v = 0\n' + ''.join('elif c%d:\n    v = %d\n' % (i, i) for i in range(1, n)) + 'else:\n    v = None\nv\nv.zz\n'
        rows = 2 * n + 4
        out.append(_case('chain:elif:%d' % n, t, positions=[(rows - 1, 1), (rows, 2), (rows, 4), (n, 6), (1, 4)]))
    for n in nest:
        for kind, head in (('for', 'for v%d in r:'), ('while', 'while v%d:'), ('mixed', None)):
            L = ['v0 = r\n']
            for i in range(n):
                h = head if head else ('for v%d in r:', 'while v%d:', 'if v%d:', 'with v%d:')[i % 4]
                L.append('    ' * i + h % i + '\n')
                L.append('    ' * (i + 1) + 'v%d = v%d\n' % (i + 1, i))
            t = ''.join(L) + 'v%d\nv%d.zz\n' % (n, n)
            rows = 2 * n + 3
            w = len('v%d' % n)
            out.append(_case('chain:nested-loops:%s:%d' % (kind, n), t,
                             positions=[(rows - 1, w), (rows, w + 1), (rows, w + 3), (2 * n + 1, 4 * n + 2), (2, 3)]))
    return out


def _cursors(text):
    """text with cursor marks (the character \u00a6) -> (text without them, [(line, col), ...])"""
    pos = []
    lines = text.split('\n')
    for i, line in enumerate(lines):
        while '\u00a6' in line:
            c = line.index('\u00a6')
            pos.append((i + 1, c))
            line = line[:c] + line[c + 1:]
        lines[i] = line
    return '\n'.join(lines), pos


# nested scopes whose requests come from regions that are NOT the entry region of the scope (after an if / loop);
# X stands for a name the flat run binds (or would bind)
SCOPE_SHAPES = {
    'function-if-else': 'def pick(a):\n    if a:\n        b = 1\n    else:\n        b = 2\n    c = X¦\n    return X.¦zz¦\n',
    'function-loop': 'def pick(a):\n    for k in a:\n        pass\n    return X¦\n',
    'class-body-if': 'class Options:\n    if 1: pass\n    first = X¦\n    second = first.¦zz\n',
    'class-method-if': 'class Options:\n    def pick(self):\n        for k in ():\n            pass\n        return X¦\n'
                       '    def other(self):\n        if self:\n            return 1\n        return self.pick().¦zz\n',
    'function-nested-two-deep': 'def outer(a):\n    if a: pass\n    def inner(b):\n        if b: pass\n        def innermost(c):\n'
                                '            if c: pass\n            return X¦, a, b\n        return innermost().¦zz\n    return inner¦\n',
    'class-in-function': 'def make():\n    while 0: pass\n    class Inner:\n        if 1: pass\n        v = X¦\n        def m(self):\n'
                         '            try: pass\n            except E: pass\n            return X.¦zz\n    return Inner¦\n',
    'lambda-and-comprehension': 'def pick(a):\n    if a: pass\n    f = lambda q: (X¦, q)\n    g = [X¦ for q in a if q]\n    return f, g\n',
}

FLATRUN_KINDS = {
    'if-reads': 'if have{0}: opt{0} = {0}\n',
    'if-constant': 'if 1: opt{0} = {0}\n',
    'try': 'try: opt{0} = {0}\nexcept E: pass\n',
    'for': 'for opt{0} in (): pass\n',
    'with': 'with ctx as opt{0}: pass\n',
    'while': 'while 0: opt{0} = {0}\n',
    'if-else-same-name': 'if have{0}: opt1 = {0}\nelse: other = {0}\n',
}


def flatscope_cases(sizes, kinds=None, shapes=None, placements=('after', 'before', 'both')):
    """a long flat run of module-level compound statements PRECEDED and/or FOLLOWED by a nested scope that is being
    edited; the flat run inside a function followed by a nested function; requests from non-entry regions"""
    out = []
    for n in sizes:
        for kind, tpl in sorted(FLATRUN_KINDS.items()):
            if kinds and kind not in kinds:
                continue
            run = ''.join(tpl.format(i) for i in range(n))
            for shape, src in sorted(SCOPE_SHAPES.items()):
                if shapes and shape not in shapes:
                    continue
                scope = src.replace('X', 'opt1')
                for where in placements:
                    if where == 'after':
                        marked = run + scope + 'opt1¦\n'
                    elif where == 'before':
                        marked = scope + run + 'opt1¦\n'
                    else:
                        marked = scope + run + scope.replace('pick', 'pick2').replace('Options', 'Options2').replace('outer', 'outer2').replace('make', 'make2')
                    text, pos = _cursors(marked)
                    out.append(_case('flatscope:%s:%s:%s:%d' % (where, kind, shape, n), text, positions=pos))
            # the flat run inside a function, followed by a nested function / class / lambda
            body = ''.join('    ' + l + '\n' for l in run.splitlines())
            for shape, tail in (('nested-function', '    def inner(z):\n        if z: pass\n        return opt1¦, z\n    return inner().¦zz\n'),
                                ('nested-class', '    class Inner:\n        if 1: pass\n        v = opt1¦\n    return Inner.v.¦zz\n'),
                                ('nested-lambda', '    f = lambda z: opt1¦\n    return f¦\n')):
                marked = 'def host(ctx, E):\n' + body + tail + 'host().¦zz\n'
                text, pos = _cursors(marked)
                out.append(_case('flatscope:inside-function:%s:%s:%d' % (kind, shape, n), text, positions=pos))
    return out


NAMESPACE_READERS = ['locals()', 'vars()', 'globals()', 'dir()', 'tpl % locals()', 'dict(locals(), **globals())', 'locals']


def _rebind_forms(b):
    """[(label, statements)] rebinding the builtin name b (or not binding it at all) in the current body"""
    return [
        ('if', 'if DEBUG:\n    %s = ascii\n' % b),
        ('if-else', 'if DEBUG:\n    %s = ascii\nelse:\n    other = 1\n' % b),
        ('try-except', 'try:\n    %s = raw_%s\nexcept NameError:\n    pass\n' % (b, b)),
        ('try-except-both', 'try:\n    %s = raw_%s\nexcept NameError:\n    %s = None\n' % (b, b, b)),
        ('for-loop', 'for %s in ():\n    pass\n' % b),
        ('while-loop', 'while DEBUG:\n    %s = 1\n' % b),
        ('with', 'with ctx as %s:\n    pass\n' % b),
        ('with-in-if', 'if DEBUG:\n    with ctx as %s:\n        pass\n' % b),
        ('unconditional', '%s = ascii\n' % b),
        ('def', 'def %s(*a):\n    pass\n' % b),
        ('def-in-if', 'if DEBUG:\n    def %s(*a):\n        pass\n' % b),
        ('class-in-try', 'try:\n    class %s: pass\nexcept E:\n    pass\n' % b),
        ('import-in-try', 'try:\n    from m import %s\nexcept ImportError:\n    pass\n' % b),
        ('import-as-in-if', 'if DEBUG:\n    import os as %s\n' % b),
        ('star-import', 'from m import *\n'),
        ('star-import-in-if', 'if DEBUG:\n    from m import *\n'),
        ('deleted', '%s = 1\ndel %s\n' % (b, b)),
        ('deleted-in-if', '%s = 1\nif DEBUG:\n    del %s\n' % (b, b)),
        ('augassign-in-if', 'if DEBUG:\n    %s += 1\n' % b),
        ('walrus-in-if', 'if (%s := DEBUG):\n    pass\n' % b),
        ('except-as', 'try:\n    pass\nexcept E as %s:\n    pass\n' % b),
        ('comprehension-var', 'q = [%s for %s in ()]\n' % (b, b)),
        ('global-in-function', 'def setter():\n    global %s\n    if DEBUG:\n        %s = 1\n' % (b, b)),
        ('not-rebound', 'unrelated = 1\n'),
    ]


def namespace_cases(builtins_=('input', 'repr')):
    """reads of the whole namespace (locals() / vars() / globals() / dir()) at module, class and function level combined
    with builtin names rebound on some paths only, always, deleted or star-imported at module and class level"""
    out = []
    ind = lambda s, k=4: ''.join(' ' * k + l + '\n' for l in s.splitlines())
    files = {'m.py': 'input = 1\nrepr = 2\nlocals = 3\n'}
    for b in builtins_:
        for fl, form in _rebind_forms(b):
            for ri, reader in enumerate(NAMESPACE_READERS):
                if b != builtins_[0] and ri >= 4:
                    continue
                use = 'ns = %s\u00a6\nns.\u00a6zz\n%s\u00a6\n' % (reader, b)
                shapes = {
                    # rebinding at module level, reader at every level
                    'module/module': form + use,
                    'module/class': form + 'class A:\n    x = 1\n' + ind(use),
                    'module/function': form + 'def render(tpl, name):\n' + ind(use) + '    return ns\n',
                    'module/method': form + 'class A:\n    def render(self, tpl):\n' + ind(use, 8),
                    'module/nested-function': form + 'def outer(tpl):\n    def inner(tpl):\n' + ind(use, 8) + '    return inner\n',
                    'module/lambda': form + 'f = lambda tpl: %s\nf\u00a6\n' % reader,
                    # rebinding in a class body
                    'class/class': 'class A:\n' + ind(form) + ind(use),
                    'class/method': 'class A:\n' + ind(form) + '    def render(self, tpl):\n' + ind(use, 8),
                    'class/module': 'class A:\n' + ind(form) + use,
                    # rebinding in a function
                    'function/function': 'def render(tpl, ctx):\n' + ind(form) + ind(use),
                    'function/nested-function': 'def render(tpl, ctx):\n' + ind(form) + '    def inner(tpl):\n' + ind(use, 8) + '    return inner\n',
                }
                for sl, marked in sorted(shapes.items()):
                    if 'import *' in form and not sl.startswith('module/'):
                        continue                      # import * only at module level
                    if 'global ' in form and not sl.startswith('module/'):
                        continue
                    text, pos = _cursors(marked.replace('\\u00a6', '\u00a6'))
                    out.append(_case('namespace:%s:%s:%s:%s' % (b, fl, reader.split('(')[0].replace(' ', ''), sl), text, positions=pos, files=files))
    seen, res = set(), []
    for c in out:
        if c['name'] not in seen:
            seen.add(c['name'])
            res.append(c)
    return res


def blank_cases():
    """texts made ONLY of characters str.isspace() / str.strip() call blank (the tokenizer accepts just space, tab, form
    feed and the line ends): every such code point alone, doubled, in pairs, mixed with real blanks, with and without
    a trailing newline, and as the only content of an indented block / after a colon; the E01 oracle decides"""
    import sys
    blanks = [chr(c) for c in range(sys.maxunicode + 1) if chr(c).isspace()]
    real = [' ', '\t', '\x0c', '\n', '\r', '\r\n']
    out = []
    seen = set()

    def add(label, text, files=None):
        if text in seen:
            return
        seen.add(text)
        out.append(_case('blank:%s:%s' % (label, '+'.join('%04x' % ord(c) for c in text[:6]) + ('...' if len(text) > 6 else '')), text))
    for ch in blanks:
        for label, t in (('alone', ch), ('newline-after', ch + '\n'), ('doubled', ch + ch), ('space-before', ' ' + ch), ('space-after', ch + ' '),
                         ('tab-before-newline-after', '\t' + ch + '\n'), ('newline-before', '\n' + ch), ('between-newlines', '\n' + ch + '\n'),
                         ('formfeed-before', '\x0c' + ch), ('crlf-after', ch + '\r\n'), ('lines-of-spaces-around', '\n\n   ' + ch + '\n'),
                         ('after-spaces-then-code', '  ' + ch + '\nx = 1\n'), ('after-code', 'x = 1\n' + ch), ('after-code-newline', 'x = 1\n' + ch + '\n'),
                         ('code-line-end', 'x = 1' + ch + '\n'), ('comment-only-after', ch + '# c\n')):
            add(label, t)
        # as the only content of a block / after a colon
        for label, t in (('block-body', 'if x:\n    ' + ch + '\n'), ('block-body-no-newline', 'if x:\n    ' + ch), ('block-body-then-code', 'def f():\n    ' + ch + '\n    return 1\n'),
                         ('after-colon', 'if x:' + ch), ('after-colon-newline', 'if x:' + ch + '\n    pass\n'), ('after-colon-same-line', 'if x:' + ch + 'pass\n'),
                         ('class-body', 'class A:\n' + ch + '\n'), ('indent-is-the-char', 'if x:\n' + ch + 'pass\n'),
                         ('between-blocks', 'if x:\n    pass\n' + ch + '\nelse:\n    pass\n'), ('in-brackets', 'x = (' + ch + '1,\n' + ch + ')\n')):
            add(label, t)
    odd = [c for c in blanks if c not in real]
    for i, a in enumerate(odd):
        for b_ in odd[i + 1:i + 4] + odd[:1]:
            add('pair', a + b_)
            add('pair-lines', a + '\n' + b_ + '\n')
    add('all-odd', ''.join(odd))
    add('all-odd-lines', '\n'.join(odd) + '\n')
    add('all-blanks', ''.join(blanks))
    # genuinely blank controls
    for t in ('', ' ', '\t', '\x0c', '\n', '\r', '\r\n', '   \n\t\n\x0c\n', ' \x0c ', '\n\n\n', '  \n  ', '\x0c\n\x0c', ' \t \r\n \r', '\\\n', ' \\\n '):
        add('control', t)
    return out


_FAMILY_CACHE = {}


def family(name, tier='quick'):
    key = (name, tier if name in ('flat', 'chars', 'growth', 'chains', 'calls', 'flatscopes') else '')
    if key not in _FAMILY_CACHE:
        _FAMILY_CACHE[key] = _family(name, tier)
    return _FAMILY_CACHE[key]


def _family(name, tier='quick'):
    if name == 'hostile':
        return hostile_cases()
    if name == 'targets':
        return target_cases()
    if name == 'del':
        return del_cases()
    if name == 'chars':
        return char_cases(big=tier != 'quick')
    if name == 'calls':
        out = call_cases(all_pairs=tier != 'quick')
        for c in out:
            if isinstance(c['positions'], str) and c['positions'].startswith('tail:'):
                # only the last rows (the prelude is the same in every text and is tried in full by the 'single' cases)
                k = int(c['positions'].split(':')[1])
                L = Lines(c['text'])
                c['positions'] = [(r, col) for r in range(len(L) - k, len(L) + 1) for col in range(len(L.lines[r - 1]) + 1)]
            elif isinstance(c['positions'], str) and c['positions'].startswith('tokens:'):
                # token boundaries (ends and middles of names, after dots and brackets, line ends) below the common prelude
                k = int(c['positions'].split(':')[1])
                by = classify_positions(c['text'])
                ps = [p for cl in ('name-end', 'name-inside', 'after-dot', 'after-open-bracket', 'line-end', 'keyword-end')
                      for p in by[cl] if p[0] > k]
                c['positions'] = sorted(set(ps))
        return out
    if name == 'flatscopes':
        if tier == 'quick':
            few = ('function-if-else', 'class-body-if', 'class-method-if', 'function-nested-two-deep', 'class-in-function')
            return (flatscope_cases((100, 200), ('if-reads', 'if-constant', 'try'), few, ('after', 'before')) +
                    flatscope_cases((400,), ('if-reads', 'if-constant'), few, ('after', 'before')))
        return flatscope_cases((100, 200, 400)) + flatscope_cases((1000,), ('if-reads', 'if-constant', 'try', 'for'))
    if name == 'namespace':
        return namespace_cases()
    if name == 'blank':
        return blank_cases()
    if name == 'chains':
        if tier == 'quick':
            return chain_cases()
        return chain_cases(alias=(50, 150, 300, 600, 1200), elif_n=(100, 400, 1500), nest=(4, 8, 10, 12))
    if name == 'growth':
        if tier == 'quick':
            # the probes that need the whole 9*B line events (minutes of CPU each) run in the thorough tier only
            return growth_cases((4, 8), [])
        return growth_cases((4, 8, 10), [(w, k, n) for w in ('module', 'function', 'loop', 'class') for k, n in
                                         (('for', 19), ('while', 26), ('if', 26), ('try', 26), ('mixed', 26), ('comprehension', 26))])
    if name == 'flat':
        # lint is super-linear in the number of sequential regions that rebind one name (1000 if-blocks: ~10 s,
        # 3000: minutes), so the big sizes are run for the kinds that stay cheap
        linear = ('assign', 'expr', 'def', 'class', 'import', 'augassign', 'lambda', 'with', 'try-finally', 'mixed', 'elif-chain')
        mid = ('if', 'if-distinct', 'for-distinct', 'try-distinct', 'if-else', 'for', 'try', 'comprehension')
        out = flat_cases((200,), elif_n=60 if tier == 'quick' else 150)
        if tier == 'quick':
            out += flat_cases((500,), linear + ('if-distinct',), placements=('module', 'imported'))
            out += flat_cases((1000, 3000), tuple(k for k in linear if k != 'mixed'), placements=('module',))
        else:
            out += flat_cases((500,))
            out += flat_cases((1000,), linear + mid[:4], placements=('module', 'function', 'imported'))
            out += flat_cases((3000,), linear, placements=('module', 'imported'))
        return out
    raise KeyError(name)


def longest_body(text):
    """number of statements in the longest statement list of the text (0 if it does not parse)"""
    try:
        with warnings.catch_warnings():
            warnings.simplefilter('ignore')
            tree = ast.parse(text)
    except BaseException:
        return 0
    best = 0
    stack = [tree]
    while stack:
        node = stack.pop()
        for f in ('body', 'orelse', 'finalbody', 'handlers'):
            v = getattr(node, f, None)
            if isinstance(v, list):
                best = max(best, len(v))
        stack.extend(ast.iter_child_nodes(node))
    return best
