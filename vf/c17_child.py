"""C17 child: evaluates one batch of requests against the real supp in THIS process and writes one
canonical JSON string per request.

    /venv/bin/python -B vf/c17_child.py BATCH.json OUT.json GARBAGE_N GARBAGE_SEED CHURN

(env: PYTHONPATH=$VF_REPO:/verif, PYTHONHASHSEED chosen by the parent).  Before supp (or anything it
needs) is imported, GARBAGE_N objects of varied sizes are allocated, a random third of them is freed again
(holes in the allocator's pools) and the rest is kept alive: this moves the addresses of every object supp
creates afterwards, which is what the order of a set of identity-hashed objects depends on.  CHURN > 0
additionally allocates (and keeps) up to CHURN small objects before every request.

The same `evaluate()` is imported by vf/props/c17.py for the two in-process passes.
"""
import json
import os
import random
import sys


class _Blob(object):
    def __init__(self, i):
        self.i = i


class _Slotted(object):
    __slots__ = ('a', 'b')


def make_garbage(n, seed):
    """allocate n objects of varied sizes; free a random third; return the kept ones."""
    r = random.Random('garbage:%s' % seed)
    keep = []
    for i in range(n):
        k = r.randrange(9)
        if k == 0:
            o = object()
        elif k == 1:
            o = [None] * r.randrange(0, 40)
        elif k == 2:
            o = {'k%d' % j: j for j in range(r.randrange(0, 6))}
        elif k == 3:
            o = 'x' * r.randrange(1, 120) + str(i)
        elif k == 4:
            o = (i,) * r.randrange(1, 9)
        elif k == 5:
            o = bytes(r.randrange(1, 200))
        elif k == 6:
            o = _Blob(i)
        elif k == 7:
            o = _Slotted()
        else:
            o = {i, i + 1} if r.random() < 0.5 else float(i) + 0.5
        keep.append(o)
    if n:
        for i in range(len(keep)):
            if r.random() < 0.34:
                keep[i] = None
    return keep


def canon(obj):
    return json.dumps(obj, sort_keys=True, separators=(',', ':'), default=_default)


def _default(o):
    if isinstance(o, (set, frozenset)):
        # a set has no order by contract: compare its content only
        return {'__set__': sorted(repr(x) for x in o)}
    return repr(type(o))


def _loc(x):
    if x is None:
        return None
    try:
        return [int(x[0]), int(x[1])]
    except Exception:
        return repr(x)


def one_request(req, batch, projects):
    """-> JSON-able result of one request on the real API (exceptions -> {'exc': type name})."""
    from supp import assistant, linter
    from supp.evaluator import EvalCtx
    from supp.project import Project
    pid = req['project']
    project = projects.get(pid)
    if project is None:
        project = projects[pid] = Project(list(batch['projects'][pid]['roots']))
    op = req['op']
    try:
        if op == 'location':
            return {'r': assistant.location(project, batch['texts'][req['text']], tuple(req['pos']), req['filename'])}
        if op == 'assist':
            prefix, names = assistant.assist(project, batch['texts'][req['text']], tuple(req['pos']), req['filename'])
            return {'r': [prefix, list(names)]}
        if op == 'lint':
            rows = linter.lint(project, batch['texts'][req['text']], req['filename'])
            return {'r': [list(r[:4]) for r in rows]}
        if op == 'members':
            ctx = EvalCtx(project)
            module = project.get_module(req['module'])
            names = list(module.attr_list(ctx))
            attrs = list(module._attrs)
            defs = []
            for k in names:
                v = module.get_attr(ctx, k)
                defs.append([k, type(v).__name__, _loc(getattr(v, 'declared_at', None))])
            return {'r': {'names': names, 'attrs': attrs, 'defs': defs, 'kind': type(module).__name__}}
        raise ValueError('unknown op %r' % (op,))
    except Exception as e:      # the type is compared across processes; totality itself is C08's business
        return {'exc': type(e).__name__}


def evaluate(batch, churn=0, churn_seed=0):
    """-> list of canonical JSON strings, one per request; one Project per project id, created at first use
    (so every process that evaluates this batch has the same request/cache history)."""
    r = random.Random('churn:%s' % churn_seed)
    held = []
    projects = {}
    out = []
    for req in batch['requests']:
        if churn:
            held.append([_Blob(i) for i in range(r.randrange(0, churn))])
            held.append(['y' * r.randrange(1, 90) for i in range(r.randrange(0, 4))])
        out.append(canon(one_request(req, batch, projects)))
    return out


def main():
    here = os.path.dirname(os.path.abspath(__file__))
    # `python vf/c17_child.py` puts /verif/vf first on sys.path, where core.py, sched.py, ... would shadow
    # standard modules for supp's resolver
    sys.path[:] = [p for p in sys.path if os.path.abspath(p or '.') != here]
    batch_path, out_path, n, gseed, churn = sys.argv[1:6]
    held = make_garbage(int(n), gseed)     # BEFORE supp is imported
    import logging
    logging.disable(logging.CRITICAL)
    import supp
    repo = os.path.abspath(os.environ.get('VF_REPO', '/repo'))
    if not os.path.abspath(supp.__file__).startswith(repo + os.sep):
        sys.stderr.write('supp imported from %s, not from %s\n' % (supp.__file__, repo))
        sys.exit(3)
    with open(batch_path) as f:
        batch = json.load(f)
    devnull = open(os.devnull, 'w')
    real_stdout = sys.stdout
    sys.stdout = devnull
    try:
        out = evaluate(batch, int(churn), gseed)
    finally:
        sys.stdout = real_stdout
    with open(out_path, 'w') as f:
        json.dump({'out': out, 'hashseed_env': os.environ.get('PYTHONHASHSEED'), 'kept': len(held),
                   'supp': os.path.abspath(supp.__file__)}, f)
    os._exit(0)


if __name__ == '__main__':
    main()
