import argparse
import importlib
import os
import sys


def main():
    ap = argparse.ArgumentParser()
    ap.add_argument('pid')
    ap.add_argument('--tier', default=os.environ.get('VERIF_TIER') or 'quick', choices=['quick', 'thorough'])
    ap.add_argument('--replay')
    a = ap.parse_args()
    seed = int(os.environ.get('VERIF_SEED') or 0)
    from vf import core
    core.assert_repo()
    import logging
    logging.disable(logging.CRITICAL)
    mod = importlib.import_module('vf.props.' + a.pid.lower())
    run = core.Run(a.pid.upper(), a.tier, seed)
    if a.replay:
        code = mod.replay(run, a.replay)
    else:
        code = mod.main(run)
    sys.stdout.flush()
    os._exit(code)


if __name__ == '__main__':
    main()
