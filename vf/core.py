"""Shared machinery: tiers, seeds, worker pool, evidence, replay, known-findings protocol.

Everything here is harness code; the code under test is imported from $VF_REPO only.
"""
import collections
import json
import os
import queue
import random
import subprocess
import sys
import threading
import time

VERIF = os.path.dirname(os.path.dirname(os.path.abspath(__file__)))
REPO = os.path.abspath(os.environ.get('VF_REPO', '/repo'))
PY = '/venv/bin/python'
NPROC = int(os.environ.get('VF_NPROC', '16'))

EXIT_HELD, EXIT_VIOLATION, EXIT_INCONCLUSIVE = 0, 1, 2


def assert_repo():
    """The code under test must come from $VF_REPO, nowhere else."""
    import supp
    f = os.path.abspath(supp.__file__)
    if not f.startswith(REPO + os.sep):
        raise SystemExit('INCONCLUSIVE: supp imported from %s, not from %s' % (f, REPO))


def child_env(extra=None):
    env = os.environ.copy()
    env['PYTHONPATH'] = REPO + os.pathsep + VERIF
    env['PYTHONDONTWRITEBYTECODE'] = '1'
    env.setdefault('PYTHONHASHSEED', '0')
    if extra:
        env.update(extra)
    return env


class Run(object):
    """Collector for one check run."""

    def __init__(self, pid, tier, seed):
        self.pid = pid
        self.tier = tier
        self.seed = seed
        self.t0 = time.time()
        self.counters = collections.Counter()
        self.hists = {}
        self.samples = []
        self.violations = []
        self.nontrivial = set()
        self.evaluations = 0
        self.inconclusive = []
        self.notes = []
        self.extra = {}

    # -- randomness -------------------------------------------------------------------
    def rng(self, *tag):
        return random.Random('%s:%s:%s' % (self.seed, self.pid, ':'.join(map(str, tag))))

    @property
    def quick(self):
        return self.tier == 'quick'

    def pick(self, quick, thorough):
        return quick if self.tier == 'quick' else thorough

    # -- recording --------------------------------------------------------------------
    def count(self, name, n=1):
        self.counters[name] += n

    def hist(self, hname, key, n=1):
        self.hists.setdefault(hname, collections.Counter())[str(key)] += n

    def sample(self, obj, limit=6):
        if len(self.samples) < limit:
            self.samples.append(obj)

    def case(self, key=None, nontrivial=False):
        self.evaluations += 1
        if nontrivial and key is not None:
            self.nontrivial.add(key if isinstance(key, (str, int)) else json.dumps(key, sort_keys=True, default=str))

    def violation(self, mech, what, case):
        """mech: mechanism label decided from the failing case itself (see findings.py)."""
        self.violations.append({'mech': mech, 'what': what, 'case': case})

    def merge(self, part):
        """Merge the dict a worker returned (see Part)."""
        if not part:
            return
        for k, v in part.get('counters', {}).items():
            self.counters[k] += v
        for h, d in part.get('hists', {}).items():
            c = self.hists.setdefault(h, collections.Counter())
            for k, v in d.items():
                c[k] += v
        for s in part.get('samples', []):
            self.sample(s)
        self.violations.extend(part.get('violations', []))
        self.nontrivial.update(part.get('nontrivial', []))
        self.evaluations += part.get('evaluations', 0)
        self.inconclusive.extend(part.get('inconclusive', []))

    # -- finishing --------------------------------------------------------------------
    def finish(self, rule, require=(), assumptions=(), exhaustive=None, level='exploration'):
        kf = load_known_findings()
        open_keys = {e['key']: e for e in kf if e['property'] == self.pid and e['status'] == 'open'}
        known = collections.OrderedDict()
        fresh = []
        for v in self.violations:
            if v['mech'] in open_keys:
                known.setdefault(v['mech'], []).append(v)
            else:
                fresh.append(v)
        for key, vs in known.items():
            print('KNOWN-FINDING: property=%s %s -- %s (%d instance(s) this run)' % (
                self.pid, key, open_keys[key]['what'], len(vs)))
        for key, e in open_keys.items():
            if key not in known:
                self.notes.append('known finding %s not observed in this run' % key)

        for name in require:
            if not self.counters.get(name):
                self.inconclusive.append('deciding counter %r is zero' % name)
        if len(self.nontrivial) < 2:
            self.inconclusive.append('fewer than 2 distinct non-trivial cases observed')

        code = EXIT_HELD
        replay_path = None
        if fresh:
            os.makedirs(os.path.join(VERIF, 'replay'), exist_ok=True)
            replay_path = os.path.join(VERIF, 'replay', '%s-%s-%s.json' % (self.pid, self.tier, self.seed))
            with open(replay_path, 'w') as f:
                json.dump({'property': self.pid, 'tier': self.tier, 'seed': self.seed,
                           'repo': REPO, 'violations': fresh[:200], 'total': len(fresh)},
                          f, indent=1, default=str)
            mechs = collections.Counter(v['mech'] for v in fresh)
            for m, n in mechs.most_common(12):
                first = next(v for v in fresh if v['mech'] == m)
                print('  violation mech=%s n=%d e.g. %s' % (m, n, first['what'][:300]))
            print('VIOLATION property=%s replay=%s' % (self.pid, replay_path))
            code = EXIT_VIOLATION
        elif self.inconclusive:
            for r in self.inconclusive[:10]:
                print('INCONCLUSIVE property=%s %s' % (self.pid, r))
            code = EXIT_INCONCLUSIVE

        coverage = {
            'evaluations': self.evaluations,
            'distinct_nontrivial': len(self.nontrivial),
            'rule': rule,
            'samples': self.samples or ['(no sample recorded)'],
            'counters': dict(sorted(self.counters.items())),
            'histograms': {h: dict(c.most_common(60)) for h, c in sorted(self.hists.items())},
            'known_findings_observed': {k: len(v) for k, v in known.items()},
            'new_violation_mechanisms': dict(collections.Counter(v['mech'] for v in fresh)),
            'notes': self.notes,
            'verdict': {0: 'held on what was observed', 1: 'violated', 2: 'inconclusive'}[code],
        }
        if exhaustive is not None:
            coverage['exhaustive'] = bool(exhaustive)
        coverage.update(self.extra)
        ev = {
            'property_id': self.pid,
            'tier': self.tier,
            'seed': self.seed,
            'level': level,
            'coverage': coverage,
            'assumptions': list(assumptions),
            'wall_s': round(time.time() - self.t0, 2),
            'violations': len(fresh),
        }
        evdir = os.path.join(VERIF, 'evidence')
        if REPO != '/repo':
            # a run against a scratch copy (seeded-change testing) must not replace the evidence of the real tree
            evdir = os.path.join(VERIF, 'replay', 'scratch-evidence')
        os.makedirs(evdir, exist_ok=True)
        with open(os.path.join(evdir, '%s.json' % self.pid), 'w') as f:
            json.dump(ev, f, indent=1, default=str, sort_keys=True)
            f.write('\n')
        print('%s tier=%s seed=%s evaluations=%d nontrivial=%d known=%d new=%d wall=%.1fs -> %s' % (
            self.pid, self.tier, self.seed, self.evaluations, len(self.nontrivial),
            sum(len(v) for v in known.values()), len(fresh), time.time() - self.t0,
            coverage['verdict']))
        return code


class Part(object):
    """What a worker function fills in and returns (as a plain dict)."""

    def __init__(self):
        self.counters = collections.Counter()
        self.hists = {}
        self.samples = []
        self.violations = []
        self.nontrivial = []
        self.evaluations = 0
        self.inconclusive = []

    def count(self, name, n=1):
        self.counters[name] += n

    def hist(self, hname, key, n=1):
        self.hists.setdefault(hname, collections.Counter())[str(key)] += n

    def sample(self, obj, limit=3):
        if len(self.samples) < limit:
            self.samples.append(obj)

    def case(self, key=None, nontrivial=False):
        self.evaluations += 1
        if nontrivial and key is not None:
            self.nontrivial.append(key if isinstance(key, (str, int)) else json.dumps(key, sort_keys=True, default=str))

    def violation(self, mech, what, case):
        if len(self.violations) < 400:
            self.violations.append({'mech': mech, 'what': what, 'case': case})
        else:
            self.counters['violations_dropped_over_cap'] += 1

    def dump(self):
        return {'counters': dict(self.counters),
                'hists': {h: dict(c) for h, c in self.hists.items()},
                'samples': self.samples, 'violations': self.violations,
                'nontrivial': self.nontrivial, 'evaluations': self.evaluations,
                'inconclusive': self.inconclusive}


def load_known_findings():
    p = os.path.join(VERIF, 'known_findings.json')
    try:
        with open(p) as f:
            return json.load(f)['findings']
    except FileNotFoundError:
        return []


# --------------------------------------------------------------------------------------
# worker pool: subprocesses speaking line-delimited JSON; a dead worker is restarted and
# the case it was running is reported as {'_died': ...}.  multiprocessing.Pool is not used.

class _Worker(object):
    def __init__(self, env=None):
        self.env = env
        self.start()

    def start(self):
        err = None if os.environ.get('VF_DEBUG') else subprocess.DEVNULL
        self.p = subprocess.Popen([PY, '-B', '-X', 'faulthandler', '-m', 'vf.worker'],
                                  stdin=subprocess.PIPE, stdout=subprocess.PIPE, stderr=err,
                                  env=child_env(self.env), cwd=VERIF)

    def call(self, fn, arg, timeout):
        msg = json.dumps({'fn': fn, 'arg': arg}) + '\n'
        try:
            self.p.stdin.write(msg.encode())
            self.p.stdin.flush()
        except (BrokenPipeError, OSError):
            self.restart()
            return {'_died': 'broken pipe before send'}
        res = {}

        def reader():
            try:
                res['line'] = self.p.stdout.readline()
            except Exception as e:  # pragma: no cover
                res['err'] = repr(e)
        t = threading.Thread(target=reader, daemon=True)
        t.start()
        t.join(timeout)
        if t.is_alive():
            self.p.kill()
            t.join(5)
            self.restart()
            return {'_timeout': timeout}
        line = res.get('line')
        if not line:
            rc = self.p.poll()
            self.restart()
            return {'_died': 'worker exited rc=%s' % rc}
        return json.loads(line)

    def restart(self):
        try:
            self.p.kill()
            self.p.wait(5)
        except Exception:
            pass
        self.start()

    def stop(self):
        try:
            self.p.stdin.close()
            self.p.wait(5)
        except Exception:
            try:
                self.p.kill()
            except Exception:
                pass


def pmap(fn, args, nproc=None, timeout=900, env=None):
    """Run fn (a 'module:function' path) over args on worker subprocesses.
    Yields (arg, result) in completion order.  result is the function's JSON-able return
    value, or {'_died': ...} / {'_timeout': ...} / {'_error': traceback}."""
    args = list(args)
    nproc = min(nproc or NPROC, max(1, len(args)))
    inq = queue.Queue()
    outq = queue.Queue()
    for a in args:
        inq.put(a)

    def loop():
        w = _Worker(env)
        try:
            while True:
                try:
                    a = inq.get_nowait()
                except queue.Empty:
                    break
                outq.put((a, w.call(fn, a, timeout)))
        finally:
            w.stop()
            outq.put(None)
    threads = [threading.Thread(target=loop, daemon=True) for _ in range(nproc)]
    for t in threads:
        t.start()
    done = 0
    while done < nproc:
        item = outq.get()
        if item is None:
            done += 1
        else:
            yield item


def run_parts(run, fn, args, timeout=900, env=None, died_is_violation=False):
    """pmap + merge of Part dicts into run; worker failures become inconclusive notes
    (or violations when the property under test is totality)."""
    for a, r in pmap(fn, args, timeout=timeout, env=env):
        if isinstance(r, dict) and ('_died' in r or '_timeout' in r or '_error' in r):
            what = 'worker failure on %s: %s' % (json.dumps(a)[:200], json.dumps(r)[:2000])
            if died_is_violation and '_error' not in r:
                run.violation('worker-death', what, {'arg': a, 'result': r})
            else:
                run.inconclusive.append(what)
        else:
            run.merge(r)


def chunks(seq, n):
    seq = list(seq)
    return [seq[i:i + n] for i in range(0, len(seq), n)]
