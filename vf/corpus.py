"""Real-file corpora: the running interpreter's standard library and the repository under test."""
import ast
import os
import sysconfig
import tokenize
import warnings

from vf import core

EXCLUDE_DIRS = {'test', 'tests', 'idle_test', 'lib2to3', 'site-packages', '__pycache__'}
FEATURE_RICH = ['typing.py', 'dataclasses.py', 'asyncio/base_events.py', '_pyio.py', 'argparse.py', 'ast.py',
                'collections/__init__.py', 'enum.py', 'functools.py', 'inspect.py', 'contextlib.py', 'string.py',
                'logging/__init__.py', 'importlib/_bootstrap_external.py', 'pathlib.py', 'subprocess.py']


def stdlib_root():
    return sysconfig.get_paths()['stdlib']


def _walk(root):
    out = []
    for d, dirs, files in os.walk(root):
        dirs[:] = sorted(x for x in dirs if x not in EXCLUDE_DIRS and not x.startswith('.'))
        for f in sorted(files):
            if f.endswith('.py'):
                out.append(os.path.join(d, f))
    return out


def stdlib_files():
    return _walk(stdlib_root())


def repo_files():
    out = []
    for sub in ('supp', 'tests'):
        out += _walk(os.path.join(core.REPO, sub))
    return out


def read_text(path):
    """source text as the editor would hand it to supp; None if undecodable or not valid Python."""
    try:
        with tokenize.open(path) as f:
            text = f.read()
        with warnings.catch_warnings():
            warnings.simplefilter('ignore')
            ast.parse(text, path)
        return text
    except (SyntaxError, UnicodeDecodeError, ValueError, OSError, RecursionError):
        return None


def select(run, n_quick, n_thorough=None):
    """Files for this run: thorough = everything; quick = the feature-rich list + a seed-rotated sample + the repo."""
    std = stdlib_files()
    rep = repo_files()
    if run.tier != 'quick' and n_thorough is None:
        return std + rep
    n = n_quick if run.tier == 'quick' else n_thorough
    root = stdlib_root()
    rich = [os.path.join(root, f) for f in FEATURE_RICH if os.path.exists(os.path.join(root, f))]
    rest = [f for f in std if f not in set(rich)]
    rng = run.rng('corpus')
    rng.shuffle(rest)
    pick = rich + rest[:max(0, n - len(rich) - len(rep))] + rep
    return pick[:max(n, len(rich))] if n < len(pick) else pick
