"""Engine E1 driver: executes a generated program under CPython on every decision vector
(DFS, like a stateless model checker, but what runs is the real program under the real
interpreter) and aggregates, per read, which binding sites CPython delivered.
"""
import builtins
import importlib
import os
import shutil
import sys
import tempfile

from vf import dynrt, dyninst, gen_prog


class Project(object):
    """The generated project directory the programs import from (fixed content)."""

    def __init__(self):
        self.root = tempfile.mkdtemp(prefix='vf-e1-')
        for rel, text in gen_prog.PROJECT_FILES.items():
            p = os.path.join(self.root, rel)
            os.makedirs(os.path.dirname(p), exist_ok=True)
            with open(p, 'w') as f:
                f.write(text)
        self.filename = os.path.join(self.root, 'app', 'main.py')
        sys.path.insert(0, self.root)
        importlib.invalidate_caches()

    def write_main(self, text):
        with open(self.filename, 'w') as f:
            f.write(text)

    def close(self):
        try:
            sys.path.remove(self.root)
        except ValueError:
            pass
        for n in list(sys.modules):
            if n.partition('.')[0] in gen_prog.PROJECT_TOPLEVEL or n == 'vf_rt':
                del sys.modules[n]
        shutil.rmtree(self.root, ignore_errors=True)


class ReadObs(object):
    __slots__ = ('sites', 'sites_any', 'ok', 'ok_clean', 'fail_first', 'fail_any', 'untagged', 'paths')

    def __init__(self):
        self.sites = {}        # sitekey -> number of clean deliveries (before any failed read on the path)
        self.sites_any = set() # sitekeys delivered on any path, also after a failed read
        self.ok = 0            # successful reads (any path position)
        self.ok_clean = 0
        self.fail_first = 0    # failed, as the first failure of its path
        self.fail_any = 0
        self.untagged = 0      # delivered an object no instrumented binding produced (builtin, helper internals)
        self.paths = 0


class Result(object):
    pass


def execute(text, filename, max_paths, rng=None, modname='app.main'):
    """-> Result with .reads (list aligned with ins.reads of ReadObs), .ins, .paths, .exhaustive, ..."""
    res = Result()
    code, ins, new_tree = dyninst.instrument(text, filename)
    res.ins = ins
    res.neutral = dyninst.neutrality_ok(text, new_tree, filename)
    obs = [ReadObs() for _ in ins.reads]
    res.reads = obs
    res.paths = 0
    res.pruned = {}
    res.exceptions = {}
    res.exhaustive = True
    res.max_decisions = 0
    res.delivered_site_kinds = {}
    S = dynrt.S
    FAILED = dynrt.FAILED
    read_names = [r['name'] for r in ins.reads]
    stack = [[]]
    seen_in_path = set()
    package = modname.rpartition('.')[0]
    while stack:
        if res.paths >= max_paths:
            res.exhaustive = False
            break
        prefix = stack.pop()
        S.reset(prefix)
        S.project_modules = gen_prog.PROJECT_TOPLEVEL
        S.filename = filename
        S.read_names = read_names
        g = {'__name__': modname, '__package__': package, '__file__': filename, '__builtins__': builtins}
        g.update(dynrt.INJECT)
        try:
            try:
                exec(code, g)
            except dynrt.Prune:
                raise
            except Exception as e:
                k = type(e).__name__
                res.exceptions[k] = res.exceptions.get(k, 0) + 1
            i = 0
            while i < len(S.funcs):
                f = S.funcs[i]
                i += 1
                try:
                    dynrt._call(f)
                except dynrt.Prune:
                    raise
                except Exception as e:
                    k = type(e).__name__
                    res.exceptions[k] = res.exceptions.get(k, 0) + 1
        except dynrt.Prune:
            res.pruned[S.pruned] = res.pruned.get(S.pruned, 0) + 1
            if S.pruned != 'while-bound':
                res.exhaustive = False
        except RecursionError:
            res.pruned['recursion'] = res.pruned.get('recursion', 0) + 1
            res.exhaustive = False
        if S.pending is not None and not S.dead:
            dynrt._fail(S.pending)
        res.paths += 1
        res.max_decisions = max(res.max_decisions, len(S.arity))
        # aggregate events of this path
        seen_in_path.clear()
        tags = S.tags
        reads = ins.reads
        for rid, val, after_fail, site_now in S.events:
            o = obs[rid]
            if rid not in seen_in_path:
                seen_in_path.add(rid)
                o.paths += 1
            if val is FAILED:
                o.fail_any += 1
                if not after_fail:
                    o.fail_first += 1
                continue
            o.ok += 1
            info = reads[rid]
            site = info['static_site'] or site_now
            if site is None:
                t = tags.get(id(val))
                if t is not None:
                    site = t.get(info['name'])
            if site is not None:
                o.sites_any.add(site)
            if after_fail:
                continue
            o.ok_clean += 1
            if site is None:
                o.untagged += 1
            else:
                o.sites[site] = o.sites.get(site, 0) + 1
        # expand
        for i in range(len(S.arity) - 1, len(prefix) - 1, -1):
            for c in range(1, S.arity[i]):
                stack.append(S.choice[:i] + [c])
    S.reset()
    return res
