"""Observation-only instrumentation for engine E1.

The transformer adds observation and nothing else:
  * every Name in Load context becomes  __r__(__pre__(rid), <Name>)  - CPython still performs
    the lookup itself, in the same scope, with the same failure behaviour;
  * every binding construct is followed (or, where no statement can follow, wrapped) by a
    call that tags the object CPython just bound with the binding site's key.
A binding site key is (line, col, identifier): position of the target Name node, the arg
node, the except handler, or the def/class/import statement.
"""
import ast
import symtable

HELPERS = ('__pre__', '__r__', '__bound__', '__tagv__', '__itw__', '__star__', '__preimp__',
           '__wreset__', '__wtest__')


def _name(id_, ctx=None):
    return ast.Name(id=id_, ctx=ctx or ast.Load())


def _const(v):
    return ast.Constant(value=v)


def _call(fn, *args):
    return ast.Call(func=_name(fn), args=list(args), keywords=[])


def target_names(t, out=None):
    out = [] if out is None else out
    if isinstance(t, (ast.Tuple, ast.List)):
        for e in t.elts:
            target_names(e, out)
    elif isinstance(t, ast.Starred):
        target_names(t.value, out)
    elif isinstance(t, ast.Name):
        out.append(t)
    return out


class Instrumenter(ast.NodeTransformer):
    def __init__(self):
        self.reads = []      # rid -> dict(name, line, col, scope, ctx, static_site)
        self.sites = {}      # (line, col, name) -> dict(scope, kind, declared_nonlocal)
        self.scopes = []     # all scopes: dict(idx, kind, declared, lambda_params, node_pos, name)
        self.stack = []
        self.ctx = []
        self.nwhile = 0
        self.comp_inner = 0

    # -- bookkeeping ---------------------------------------------------------------------
    def push(self, kind, node, name=None):
        s = {'idx': len(self.scopes), 'kind': kind, 'declared': set(), 'lambda_params': {},
             'pos': (getattr(node, 'lineno', 0), getattr(node, 'col_offset', 0)), 'name': name,
             'parent': self.stack[-1]['idx'] if self.stack else None}
        self.scopes.append(s)
        self.stack.append(s)
        return s

    def pop(self):
        self.stack.pop()

    def site(self, node, name, kind, scope=None):
        key = (node.lineno, node.col_offset, name)
        s = scope or self.stack[-1]
        self.sites[key] = {'scope': s['idx'], 'kind': kind,
                           'declared_elsewhere': name in s['declared'], 'ctx': tuple(self.ctx[-3:])}
        return key

    def bound_stmt(self, key, name, like):
        st = ast.Expr(value=_call('__bound__', _const(key), _const(name), _name(name)))
        return ast.copy_location(st, like)

    def with_ctx(self, label, fn, *a):
        self.ctx.append(label)
        try:
            return fn(*a)
        finally:
            self.ctx.pop()

    def vlist(self, nodes, label=None):
        """visit a statement list; a statement may expand into several."""
        if label:
            self.ctx.append(label)
        out = []
        for n in nodes:
            r = self.visit(n)
            if isinstance(r, list):
                out.extend(r)
            elif r is not None:
                out.append(r)
        if label:
            self.ctx.pop()
        return out

    def vexpr(self, node, label=None):
        if node is None:
            return None
        if label:
            return self.with_ctx(label, self.visit, node)
        return self.visit(node)

    # -- reads ---------------------------------------------------------------------------
    def visit_Name(self, node):
        if not isinstance(node.ctx, ast.Load):
            return node
        s = self.stack[-1]
        rid = len(self.reads)
        static = None
        if s['kind'] == 'lambda' and node.id in s['lambda_params']:
            static = s['lambda_params'][node.id]
        self.reads.append({'name': node.id, 'line': node.lineno, 'col': node.col_offset,
                           'scope': s['idx'], 'ctx': tuple(self.ctx[-3:]), 'ctx_full': tuple(self.ctx), 'static_site': static,
                           'comp_inner': self.comp_inner > 0})
        new = ast.Call(func=_name('__r__'), args=[_call('__pre__', _const(rid)), node], keywords=[])
        return ast.copy_location(new, node)

    # -- modules and scopes ----------------------------------------------------------------
    def visit_Module(self, node):
        self.push('module', node)
        node.body = self.vlist(node.body)
        self.pop()
        return node

    def _args_outer(self, args):
        """defaults and annotations are evaluated in the enclosing scope."""
        for a in args.posonlyargs + args.args + args.kwonlyargs + [args.vararg, args.kwarg]:
            if a is not None and a.annotation is not None:
                a.annotation = self.vexpr(a.annotation, 'annotation')
        args.defaults = [self.vexpr(x, 'default') for x in args.defaults]
        args.kw_defaults = [self.vexpr(x, 'kw_default') for x in args.kw_defaults]

    def _all_args(self, args):
        return [a for a in args.posonlyargs + args.args + [args.vararg] + args.kwonlyargs + [args.kwarg] if a is not None]

    def visit_FunctionDef(self, node):
        outer = self.stack[-1]
        node.decorator_list = [self.vexpr(x, 'decorator') for x in node.decorator_list]
        self._args_outer(node.args)
        if node.returns is not None:
            node.returns = self.vexpr(node.returns, 'annotation')
        key = self.site(node, node.name, 'def', outer)
        s = self.push('function', node, node.name)
        pre = []
        for a in self._all_args(node.args):
            k = self.site(a, a.arg, 'param', s)
            pre.append(self.bound_stmt(k, a.arg, node.body[0]))
        body = self.vlist(node.body, 'in_function')
        node.body = pre + body
        self.pop()
        return [node, self.bound_stmt(key, node.name, node)]

    visit_AsyncFunctionDef = visit_FunctionDef

    def visit_Lambda(self, node):
        self._args_outer(node.args)
        s = self.push('lambda', node)
        for a in self._all_args(node.args):
            s['lambda_params'][a.arg] = self.site(a, a.arg, 'param', s)
        node.body = self.vexpr(node.body, 'in_lambda')
        self.pop()
        return node

    def visit_ClassDef(self, node):
        outer = self.stack[-1]
        node.decorator_list = [self.vexpr(x, 'decorator') for x in node.decorator_list]
        node.bases = [self.vexpr(x, 'base') for x in node.bases]
        for kw in node.keywords:
            kw.value = self.vexpr(kw.value, 'class_keyword')
        key = self.site(node, node.name, 'class', outer)
        self.push('class', node, node.name)
        node.body = self.vlist(node.body, 'in_class')
        self.pop()
        return [node, self.bound_stmt(key, node.name, node)]

    def visit_Global(self, node):
        self.stack[-1]['declared'].update(node.names)
        return node

    visit_Nonlocal = visit_Global

    # -- binding statements ----------------------------------------------------------------
    def visit_Assign(self, node):
        node.value = self.vexpr(node.value)
        node.targets = [self.visit(t) for t in node.targets]
        kind = 'assign'
        if len(node.targets) > 1:
            kind = 'chained'
        tags = []
        for t in node.targets:
            k2 = kind
            if isinstance(t, (ast.Tuple, ast.List)):
                k2 = 'starred' if any(isinstance(e, ast.Starred) for e in ast.walk(t)) else 'tuple'
            for n in target_names(t):
                tags.append(self.bound_stmt(self.site(n, n.id, k2), n.id, node))
        return [node] + tags

    def visit_AnnAssign(self, node):
        # annotations of simple names are evaluated only at module/class level; CPython decides
        node.annotation = self.vexpr(node.annotation, 'annotation')
        if node.value is not None:
            node.value = self.vexpr(node.value)
        node.target = self.visit(node.target)
        if node.value is not None and isinstance(node.target, ast.Name):
            n = node.target
            return [node, self.bound_stmt(self.site(n, n.id, 'annotated'), n.id, node)]
        return node

    def visit_NamedExpr(self, node):
        node.value = self.vexpr(node.value)
        n = node.target
        key = self.site(n, n.id, 'walrus')
        node.value = ast.copy_location(_call('__tagv__', _const(key), _const(n.id), node.value), node.value)
        return node

    def visit_For(self, node):
        node.iter = self.vexpr(node.iter, 'for_iter')
        node.target = self.visit(node.target)
        tags = [self.bound_stmt(self.site(n, n.id, 'for'), n.id, node.body[0]) for n in target_names(node.target)]
        node.body = tags + self.vlist(node.body, 'loop_body')
        node.orelse = self.vlist(node.orelse, 'loop_else')
        return node

    visit_AsyncFor = visit_For

    def visit_While(self, node):
        wid = self.nwhile
        self.nwhile += 1
        test = self.vexpr(node.test, 'while_test')
        node.test = ast.copy_location(_call('__wtest__', _const(wid), test), node.test)
        node.body = self.vlist(node.body, 'loop_body')
        node.orelse = self.vlist(node.orelse, 'loop_else')
        reset = ast.copy_location(ast.Expr(value=_call('__wreset__', _const(wid))), node)
        return [reset, node]

    def visit_If(self, node):
        node.test = self.vexpr(node.test, 'if_test')
        node.body = self.vlist(node.body, 'if_body')
        node.orelse = self.vlist(node.orelse, 'if_else')
        return node

    def visit_With(self, node):
        tags = []
        for i, item in enumerate(node.items):
            item.context_expr = self.vexpr(item.context_expr, 'with_item%d' % min(i + 1, 2))
            if item.optional_vars is not None:
                item.optional_vars = self.visit(item.optional_vars)
                for n in target_names(item.optional_vars):
                    tags.append(self.bound_stmt(self.site(n, n.id, 'with'), n.id, node.body[0]))
        node.body = tags + self.vlist(node.body, 'with_body')
        return node

    visit_AsyncWith = visit_With

    def visit_Try(self, node):
        node.body = self.vlist(node.body, 'try_body')
        for h in node.handlers:
            if h.type is not None:
                h.type = self.vexpr(h.type, 'handler_type')
            tags = []
            if h.name:
                tags.append(self.bound_stmt(self.site(h, h.name, 'except'), h.name, h.body[0]))
            h.body = tags + self.vlist(h.body, 'handler')
        node.orelse = self.vlist(node.orelse, 'try_else')
        node.finalbody = self.vlist(node.finalbody, 'finally')
        return node

    def _import(self, node, names):
        pre = ast.copy_location(ast.Expr(value=_call('__preimp__')), node)
        out = [pre, node]
        for n in names:
            out.append(self.bound_stmt(self.site(node, n, 'import' if isinstance(node, ast.Import) else 'from_import'), n, node))
        return out

    def visit_Import(self, node):
        names = [a.asname or a.name.partition('.')[0] for a in node.names]
        return self._import(node, names)

    def visit_ImportFrom(self, node):
        if any(a.name == '*' for a in node.names):
            key = (node.lineno, node.col_offset, '*')
            self.sites[key] = {'scope': self.stack[-1]['idx'], 'kind': 'star_import',
                               'declared_elsewhere': False, 'ctx': tuple(self.ctx[-3:])}
            mod = '.' * node.level + (node.module or '')
            pre = ast.copy_location(ast.Expr(value=_call('__preimp__')), node)
            st = ast.Expr(value=_call('__star__', _const(key), _const(mod), _name('__package__'),
                                      ast.Call(func=_name('globals'), args=[], keywords=[])))
            return [pre, node, ast.copy_location(st, node)]
        return self._import(node, [a.asname or a.name for a in node.names])

    # -- comprehensions --------------------------------------------------------------------
    def _shape(self, t):
        if isinstance(t, (ast.Tuple, ast.List)):
            return ('*T*',) + tuple(self._shape(e) for e in t.elts)
        if isinstance(t, ast.Starred):
            return self._shape(t.value)
        if isinstance(t, ast.Name):
            return (t.id, self.site(t, t.id, 'comp'))
        return ('*skip*',)

    def _comp(self, node):
        # the first iterable is evaluated in the enclosing scope, everything else inside the comprehension
        for i, g in enumerate(node.generators):
            g.iter = self.vexpr(g.iter, 'comp_iter')
            if i == 0:
                self.comp_inner += 1
            g.target = self.visit(g.target)
            shape = self._shape(g.target)
            g.iter = ast.copy_location(_call('__itw__', _const(shape), g.iter), g.iter)
            g.ifs = [self.vexpr(x, 'comp_cond') for x in g.ifs]
        if isinstance(node, ast.DictComp):
            node.key = self.vexpr(node.key, 'comp_elt')
            node.value = self.vexpr(node.value, 'comp_elt')
        else:
            node.elt = self.vexpr(node.elt, 'comp_elt')
        self.comp_inner -= 1
        return node

    visit_ListComp = visit_SetComp = visit_GeneratorExp = visit_DictComp = _comp


def _symtable_summary(text, filename):
    def walk(t):
        syms = []
        for s in t.get_symbols():
            if s.get_name() in HELPERS or s.get_name() in ('globals', '__package__'):
                continue
            syms.append((s.get_name(), s.is_local(), s.is_global(), s.is_free(), s.is_parameter(),
                         s.is_declared_global(), s.is_nonlocal()))
        return (t.get_type(), t.get_name(), sorted(syms), [walk(c) for c in t.get_children()])
    return walk(symtable.symtable(text, filename, 'exec'))


def instrument(text, filename):
    """-> (code object, Instrumenter).  Raises SyntaxError for invalid programs."""
    tree = ast.parse(text, filename)
    ins = Instrumenter()
    new = ins.visit(tree)
    ast.fix_missing_locations(new)
    code = compile(new, filename, 'exec')
    return code, ins, new


def neutrality_ok(text, new_tree, filename):
    """the instrumented tree has the same symbol tables as the clean one (modulo the helpers)."""
    try:
        a = _symtable_summary(text, filename)
        b = _symtable_summary(ast.unparse(new_tree), filename)
    except Exception:
        return False
    return a == b
