"""Runtime side of engine E1: the opaque helpers generated programs call, the decision
oracle, and the observation primitives the instrumenter inserts.

One global state object S per worker process; reset() before every execution path.
"""
import sys
import types

DECISION_CAP = 60
CALL_CAP = 40
WHILE_TRIPS = 2


FAILED = object()     # event value of a read that raised NameError/UnboundLocalError


class Prune(BaseException):
    """Aborts the current execution path (not an execution the checks use beyond its prefix)."""


class State(object):
    def reset(self, prefix=()):
        self.prefix = list(prefix)
        self.arity = []       # arity of each decision taken
        self.choice = []      # choice taken
        self.events = []      # (rid, obj id | None) ; None = the read failed
        self.pending = None
        self.failed = False   # a read has failed on this path
        self.first_fail_at = None
        self.tags = {}        # id(obj) -> {name: sitekey}
        self.keep = []
        self.funcs = []
        self.func_ids = set()
        self.wcount = {}
        self.capped = False
        self.pruned = None
        self.calls = 0
        self.project_modules = ()
        self.filename = None
        self.read_names = ()
        self.dead = False     # the path was aborted (Prune): finally blocks still run while unwinding, unobserved

    def __init__(self):
        self.reset()


S = State()


def _prune(why):
    S.pruned = S.pruned or why
    S.dead = True
    raise Prune()


def decide(n):
    i = len(S.arity)
    if S.dead:
        raise Prune()
    if i >= DECISION_CAP:
        S.capped = True
        _prune('decision-cap')
    c = S.prefix[i] if i < len(S.prefix) else 0
    if c >= n:          # program changed shape under a stale prefix: cannot happen in a DFS
        c = n - 1
    S.arity.append(n)
    S.choice.append(c)
    return c


# ---------------------------------------------------------------------------------------
# opaque values and helpers (what generated programs import through vf_rt)

class V(object):
    """An opaque value.  Every operation yields a fresh V; truth is an oracle decision."""
    __slots__ = ('__weakref__',)

    def __call__(self, *a, **k):
        return V()

    def __getattr__(self, name):
        if name.startswith('__') and name.endswith('__'):
            raise AttributeError(name)
        return V()

    def __getitem__(self, k):
        return V()

    def __setitem__(self, k, value):
        pass

    __iter__ = None     # not iterable (the __getitem__ fallback would never stop)

    def __bool__(self):
        return bool(decide(2))

    def _bin(self, other):
        return V()
    __add__ = __radd__ = __sub__ = __rsub__ = __mul__ = __rmul__ = __or__ = __and__ = _bin
    __lt__ = __gt__ = __le__ = __ge__ = _bin

    def __neg__(self):
        return V()


def v(*a, **k):
    return V()


def q(*a, **k):
    return bool(decide(2))


def _build(t):
    if isinstance(t, tuple):
        return tuple(_build(e) for e in t)
    return V()


def it(*a, **k):
    """0..2 fresh items; a tuple first argument is a template for the shape of each item."""
    n = decide(3)
    t = a[0] if a and isinstance(a[0], tuple) else None
    return iter([_build(t) for _ in range(n)])


class _CM(object):
    def __init__(self, t):
        self.t = t

    def __enter__(self):
        return _build(self.t)

    def __exit__(self, *a):
        return False


def cm(*a, **k):
    t = a[0] if a and isinstance(a[0], tuple) else None
    return _CM(t)


def m(*excs):
    """raises one of the given exception classes, or nothing."""
    c = decide(len(excs) + 1)
    if c:
        raise excs[c - 1]()


def d(f):
    """identity decorator: @d"""
    return f


def dd(*a, **k):
    """decorator factory: @dd(args)"""
    return lambda f: f


def kb(*a, **k):
    return type('KB', (), {})


def km(*a, **k):
    return type


def et(*a):
    """exception type expression: returns its last argument (the other arguments are just read)."""
    return a[-1]


def ex(gen):
    """exhausts a generator expression."""
    for _ in gen:
        pass
    return V()


def call(f, *a, **k):
    """calls f the way the harness does (fresh values for its parameters); the result is a fresh opaque value."""
    _call(f)
    return V()


def _call(f):
    import inspect
    if S.dead:
        raise Prune()
    if S.calls >= CALL_CAP:
        S.capped = True
        _prune('call-cap')
    S.calls += 1
    import inspect as _inspect
    if _inspect.iscoroutinefunction(f):
        return V()          # never awaited: the body of an async def is not driven
    if not isinstance(f, (types.FunctionType, types.MethodType, type)):
        return f() if callable(f) else V()
    try:
        sig = inspect.signature(f)
    except (ValueError, TypeError):
        return V()
    full = None
    args, kwargs = [], {}
    for p in sig.parameters.values():
        optional = p.default is not p.empty or p.kind in (p.VAR_POSITIONAL, p.VAR_KEYWORD)
        if optional:
            if full is None:
                full = bool(decide(2))
            if not full:
                continue
        if p.kind in (p.POSITIONAL_ONLY, p.POSITIONAL_OR_KEYWORD):
            args.append(V())
        elif p.kind == p.VAR_POSITIONAL:
            args.append(V())
        elif p.kind == p.KEYWORD_ONLY:
            kwargs[p.name] = V()
        else:
            kwargs['zz_extra'] = V()
    return f(*args, **kwargs)


# ---------------------------------------------------------------------------------------
# observation primitives inserted by the instrumenter

def pre(rid):
    if S.dead:
        return rid
    if S.pending is not None:
        _fail(S.pending)
    S.pending = rid
    return rid


def _fail(rid):
    S.events.append((rid, FAILED, S.failed, None))
    if not S.failed:
        S.failed = True
    S.pending = None


def r(rid, val):
    if S.dead:
        return val
    S.pending = None
    # the binding that delivered the object is the latest one that tagged it under this name; an object not
    # tagged yet (with-item targets are tagged at the first body statement) is resolved at the end of the path
    t = S.tags.get(id(val))
    S.events.append((rid, val, S.failed, t.get(S.read_names[rid]) if t else None))
    return val


def bound(key, name, val):
    if S.dead:
        return
    S.tags.setdefault(id(val), {})[name] = key
    S.keep.append(val)
    if type(val) is types.FunctionType and id(val) not in S.func_ids and val.__code__.co_filename == S.filename:
        S.func_ids.add(id(val))
        S.funcs.append(val)


def tagv(key, name, val):
    bound(key, name, val)
    return val


def _tag_shape(shape, item):
    if isinstance(shape, list):
        try:
            parts = list(item)
        except TypeError:
            return
        for s, x in zip(shape, parts):
            _tag_shape(s, x)
    else:
        name, key = shape
        bound(key, name, item)


def itw(shape, iterable):
    for item in iterable:
        _tag_shape(shape, item)
        yield item


def star(key, modname, package, g):
    import importlib.util
    if modname.startswith('.'):
        modname = importlib.util.resolve_name(modname, package)
    mod = sys.modules.get(modname)
    if mod is None:
        return
    names = getattr(mod, '__all__', None)
    if names is None:
        names = [n for n in vars(mod) if not n.startswith('_')]
    for n in names:
        if n in g:
            bound(key, n, g[n])


def preimp():
    for n in list(sys.modules):
        if n.partition('.')[0] in S.project_modules:
            del sys.modules[n]


def wreset(wid):
    S.wcount[wid] = 0


def wtest(wid, val):
    """observes a while test without changing it; aborts the path on the third consecutive True."""
    if val:
        c = S.wcount.get(wid, 0) + 1
        S.wcount[wid] = c
        if c > WHILE_TRIPS:
            _prune('while-bound')
        return True
    return False


INJECT = {'__pre__': pre, '__r__': r, '__bound__': bound, '__tagv__': tagv, '__itw__': itw,
          '__star__': star, '__preimp__': preimp, '__wreset__': wreset, '__wtest__': wtest}
