"""Comparison of E1's observations (what CPython bound) with supp's answers, per program.

check_program() returns, for one program, the obligations evaluated and the violations
found for C01, C02 and C03; each property's check keeps the ones that are its own.
"""
import ast
import builtins

from vf import dynexec, suppview
from vf.e1mech import classify

MARK_LEN = len('__supp_mark__')
BUILTINS = set(dir(builtins))


def _sorted_keys(keys):
    return sorted(keys, key=lambda k: (str(type(k)), k))


class ProgramCheck(object):
    def __init__(self, text, proj, project, max_paths, want=('C01', 'C02', 'C03'), assist_budget=80):
        self.text = text
        self.proj = proj
        self.project = project
        self.max_paths = max_paths
        self.want = set(want)
        self.assist_budget = assist_budget
        self.violations = []          # (prop, mech, what, detail)
        self.stats = {}
        self.hists = {}

    def stat(self, k, n=1):
        self.stats[k] = self.stats.get(k, 0) + n

    def hist(self, h, k, n=1):
        d = self.hists.setdefault(h, {})
        d[str(k)] = d.get(str(k), 0) + n

    def violation(self, prop, kind, what, read, **detail):
        info = dict(detail)
        info['read'] = [read['line'], read['col'], read['name']]
        info['kind'] = kind
        mech = classify(prop, kind, self.text, self.tree, read, info)
        self.violations.append({'prop': prop, 'mech': mech, 'what': what, 'detail': info})

    # ------------------------------------------------------------------------------------
    def run(self):
        from supp import linter, assistant
        text, filename = self.text, self.proj.filename
        self.tree = ast.parse(text)
        res = dynexec.execute(text, filename, self.max_paths)
        self.res = res
        ins = res.ins
        self.stat('programs')
        self.stat('paths_executed', res.paths)
        if not res.neutral:
            self.stat('programs_instrumentation_not_neutral(discarded)')
            return self
        if res.exhaustive:
            self.stat('programs_exhaustive')
        for k, v in res.pruned.items():
            self.hist('paths_pruned', k, v)
        for k, v in res.exceptions.items():
            self.hist('program_exceptions', k, v)
        # C02/C03 speak about programs whose only exceptions are the oracle-raised, always-caught ones
        # (and the NameError of a failing read, which ends the part of the path that is in the domain)
        self.domain_ok = all(k in ('NameError', 'UnboundLocalError') for k in res.exceptions)
        if not self.domain_ok:
            self.stat('programs_with_foreign_exception(C02/C03 skipped)')
            self.want = self.want & {'C01'}
            if not self.want:
                return self
        failing = [rid for rid, o in enumerate(res.reads) if o.fail_first > 0]

        an = suppview.Analysis(text, filename, self.project)
        before = dict(suppview.COUNTS)
        # --- lint on the whole file (one scope, AST order), with the scope captured ------
        captured = []
        from supp import nast
        orig_extract = nast.extract_scope

        def capture(source, project):
            suppview.reset()
            s = orig_extract(source, project)
            captured.append(s)
            return s
        linter.extract_scope = capture
        try:
            try:
                rows = linter.lint(self.project, text, filename)
            except Exception as e:
                self.stat('lint_raised(C08 business)')
                self.hist('lint_exceptions', type(e).__name__)
                return self
        finally:
            linter.extract_scope = orig_extract
        lint_scope = captured[0] if captured else None
        e_rows = {}
        w_rows = {}
        for r in rows:
            if r[0] in ('E02', 'E42'):
                e_rows[(r[2], r[3])] = r
            elif r[0] in ('W01', 'W02'):
                w_rows.setdefault((r[2], r[3], r[1].split(': ', 1)[1]), r)
        # bindings of the linted scope by site key -> (declared_at, name)
        decl_of_site = {}
        if lint_scope is not None:
            for flow, nm in lint_scope.all_names:
                k = suppview.site_key(nm)
                if isinstance(k, tuple) and k[2] != '*' and hasattr(nm, 'declared_at'):
                    decl_of_site.setdefault(k, (tuple(nm.declared_at), nm.name))
            for nm in lint_scope._global_names.values():
                k = suppview.site_key(nm)
                if isinstance(k, tuple) and hasattr(nm, 'declared_at'):
                    decl_of_site.setdefault(k, (tuple(nm.declared_at), nm.name))
        if suppview.COUNTS['add_name'] == before['add_name']:
            self.stat('monitor_wrappers_not_reached')
            return self

        declared_anywhere = set()
        for s in ins.scopes:
            declared_anywhere |= s['declared']
        sites_by_scope_name = {}
        for key, sinfo in ins.sites.items():
            sites_by_scope_name.setdefault((sinfo['scope'], key[2]), []).append(key)
        star_scopes = {sinfo['scope'] for key, sinfo in ins.sites.items() if key[2] == '*'}

        delivered_anywhere = set()
        assist_done = 0
        for rid, (info, o) in enumerate(zip(ins.reads, res.reads)):
            name = info['name']
            pos = (info['line'], info['col'])
            for k in o.sites:
                # C02 speaks about bindings read in their own body (closure / class-body reads of outer names are C01's)
                ks = ins.sites[k]
                if ks['scope'] == info['scope'] and not ks['declared_elsewhere']:
                    delivered_anywhere.add(k)
            if o.paths == 0:
                self.stat('reads_never_reached')
                continue
            self.stat('reads_reached')
            ctx = info['ctx'][-1] if info['ctx'] else 'plain'

            # ---------------- C01 ----------------------------------------------------------
            if 'C01' in self.want and o.ok > 0:
                self.stat('C01_successful_read_sites')
                self.stat('C01_successful_read_events', o.ok)
                self.hist('C01_read_context', '/'.join(info['ctx'][-2:]) or 'plain')
                row = e_rows.get(pos)
                if row is not None and row[1].endswith(': ' + name):
                    self.violation('C01', 'lint-' + row[0], 'lint reports %s %r at %s but CPython read %s successfully %d time(s)' % (
                        row[0], row[1], pos, name, o.ok), info, lint_row=list(row[:4]))
                if assist_done < self.assist_budget:
                    assist_done += 1
                    try:
                        prefix, props = assistant.assist(self.project, text, (pos[0], pos[1] + len(name)), filename)
                    except Exception as e:
                        self.stat('assist_raised(C08 business)')
                        self.hist('assist_exceptions', type(e).__name__)
                    else:
                        self.stat('C01_assist_checked')
                        if name not in props:
                            self.violation('C01', 'assist-missing', 'assist at end of %s %s does not offer it (CPython read it successfully); %d proposals' % (
                                name, pos, len(props)), info, proposals_n=len(props))

            need_c2 = 'C02' in self.want and o.sites
            need_c3 = 'C03' in self.want and res.exhaustive
            if not (need_c2 or need_c3):
                continue
            status, alts = an.query(pos)
            keys = [suppview.site_key(a) for a in alts]
            if any(k is None for k in keys):
                self.stat('reads_with_unmappable_supp_binding')
                continue
            keyset = set(keys)
            unknown = [k for k in keyset if isinstance(k, tuple) and k not in ins.sites]
            if unknown:
                self.stat('reads_with_supp_site_unknown_to_instrumenter')
                self.hist('unknown_site_examples', unknown[0])
                continue
            rscope = info['scope']

            class_comp = info['comp_inner'] and ins.scopes[rscope]['kind'] == 'class'

            def same_scope(k):
                # the inner expressions of a comprehension in a class body do not see the class namespace
                s = ins.sites[k]
                return s['scope'] == rscope and not s['declared_elsewhere'] and not (class_comp and s['kind'] != 'comp')

            # ---------------- C02 ----------------------------------------------------------
            if need_c2:
                for d, n in o.sites.items():
                    if not same_scope(d):
                        self.stat('C02_deliveries_from_other_scope(skipped)')
                        continue
                    self.stat('C02_read_site_pairs')
                    self.hist('C02_binding_kind', ins.sites[d]['kind'])
                    self.hist('C02_kind_x_context', '%s@%s' % (ins.sites[d]['kind'], ctx))
                    if d not in keyset:
                        self.violation('C02', 'names_at-misses-site',
                                       'CPython delivered the binding at %s to the read of %s at %s (%d times); supp lists %s (%s)' % (
                                           d, name, pos, n, _sorted_keys(keyset), status),
                                       info, site=list(d), site_kind=ins.sites[d]['kind'], site_ctx=list(ins.sites[d]['ctx']),
                                       supp=[list(k) if isinstance(k, tuple) else k for k in _sorted_keys(keyset)], status=status)
                if len(o.sites) >= 2:
                    self.stat('C02_reads_with_2+_observed_sites')

            # ---------------- C03 ----------------------------------------------------------
            # Universal verdicts need every path to have run as far as the read.  A failing read ends its path, so:
            # "d reaches R on no path" and "R is bound on every path" are only decided in programs where no read
            # fails at all; "R is unbound on every path" tolerates R's own failure, but then R must not sit in a
            # loop (its first failure would hide the later trips).
            no_fail = not failing
            only_self = failing == [rid]
            if need_c3 and not (no_fail or only_self):
                self.stat('C03_reads_skipped_other_read_fails_first')
            if need_c3 and (no_fail or only_self) and (o.ok_clean + o.fail_first) > 0:
                self.stat('C03_reads_evaluated')
                scope_kind = ins.scopes[rscope]['kind']
                in_loop = any(c in ('loop_body', 'loop_else', 'while_test', 'for_iter') for c in info['ctx_full'])
                # (a) phantom alternatives: same-scope alternatives never delivered on any path
                for k in keyset:
                    if not no_fail or not isinstance(k, tuple) or not same_scope(k) or name in declared_anywhere:
                        continue
                    self.stat('C03_alternatives_checked')
                    if k not in self.sites_any(rid):
                        self.violation('C03', 'phantom-definition',
                                       'supp lists the binding at %s for the read of %s at %s, but none of the %d enumerated paths delivered it (delivered: %s)' % (
                                           k, name, pos, res.paths, _sorted_keys(self.sites_any(rid))),
                                       info, site=list(k), site_kind=ins.sites[k]['kind'], site_ctx=list(ins.sites[k]['ctx']),
                                       observed=[list(x) for x in _sorted_keys(self.sites_any(rid))])
                # (b), (c): function and module bodies, names owned by this scope
                local_sites = sites_by_scope_name.get((rscope, name), [])
                owned = (bool(local_sites) or scope_kind == 'module') and name not in declared_anywhere
                if scope_kind in ('function', 'module') and owned and name not in BUILTINS \
                        and not (rscope in star_scopes) and info['static_site'] is None:
                    self.stat('C03_definedness_checked')
                    has_undef = status == 'ok' and 'undefined' in keyset
                    if status == 'ok' and has_undef and o.fail_any == 0 and no_fail:
                        self.violation('C03', 'undefined-marker-but-always-bound',
                                       'supp marks %s at %s possibly undefined, but it was bound on all %d paths that reached it' % (
                                           name, pos, o.paths), info, supp=[list(k) if isinstance(k, tuple) else k for k in _sorted_keys(keyset)])
                    if status == 'ok' and not has_undef and o.fail_first > 0:
                        self.violation('C03', 'no-undefined-marker-but-unbound-path',
                                       'supp does not mark %s at %s possibly undefined, but %d path(s) reached it unbound' % (
                                           name, pos, o.fail_first), info, supp=[list(k) if isinstance(k, tuple) else k for k in _sorted_keys(keyset)])
                    if o.ok == 0 and o.fail_first > 0 and o.fail_first == o.paths and not in_loop:
                        self.stat('C03_never_bound_reads')
                        row = e_rows.get(pos)
                        if row is None or row[0] != 'E02':
                            self.violation('C03', 'never-bound-not-flagged',
                                           '%s at %s was unbound on all %d paths that reached it, lint has no E02 there (supp: %s %s)' % (
                                               name, pos, o.paths, status, _sorted_keys(keyset)), info, status=status)

        # ---------------- C02 consequences at the API -----------------------------------------
        if 'C02' in self.want:
            for d in delivered_anywhere:
                dk = decl_of_site.get(d)
                if dk is None:
                    continue
                self.stat('C02_delivered_bindings_checked_against_lint')
                decl, nm = dk
                row = w_rows.get((decl[0], decl[1], nm))
                if row is not None:
                    rd = {'line': d[0], 'col': d[1], 'name': d[2], 'ctx': ins.sites[d]['ctx'], 'scope': ins.sites[d]['scope']}
                    self.violation('C02', 'lint-unused-but-read',
                                   'lint reports %s %r for the binding at %s, whose value CPython delivered to a read' % (row[0], row[1], d),
                                   rd, site=list(d), site_kind=ins.sites[d]['kind'], lint_row=list(row[:4]),
                                   readers=[[i['line'], i['col']] for i, o in zip(ins.reads, res.reads) if d in o.sites][:5])
            self.check_location(an, decl_of_site)
        return self

    def sites_any(self, rid):
        return self.res.reads[rid].sites_any

    def check_location(self, an, decl_of_site, budget=40):
        """go-to-definition from a read lists the delivered same-scope binding."""
        from supp import assistant
        ins, res = self.res.ins, self.res
        done = 0
        for info, o in zip(ins.reads, res.reads):
            if done >= budget:
                break
            sites = [d for d in o.sites if ins.sites[d]['scope'] == info['scope'] and not ins.sites[d]['declared_elsewhere']
                     and d in decl_of_site]
            if not sites:
                continue
            done += 1
            pos = (info['line'], info['col'] + len(info['name']))
            try:
                locs = assistant.location(self.project, self.text, pos, self.proj.filename)
            except Exception as e:
                self.stat('location_raised(C08 business)')
                self.hist('location_exceptions', type(e).__name__)
                continue
            flat = []
            for l in locs:
                flat.extend(l if isinstance(l, list) else [l])
            got = set()
            for l in flat:
                if l.get('file') == self.proj.filename and l.get('loc'):
                    got.add(tuple(l['loc']))
            for d in sites:
                decl, nm = decl_of_site[d]
                self.stat('C02_location_checked')
                ok = decl in got or (decl[0] == pos[0] and (decl[0], decl[1] + MARK_LEN) in got)
                if not ok:
                    self.violation('C02', 'location-misses-site',
                                   'location() from the read of %s at %s does not list the delivered binding at %s (declared_at %s); lists %s' % (
                                       info['name'], (info['line'], info['col']), d, decl, sorted(got)),
                                   info, site=list(d), site_kind=ins.sites[d]['kind'], site_ctx=list(ins.sites[d]['ctx']), listed=sorted(got))
