"""Mechanism labels for E1 violations (C01-C03), decided from the failing case itself.

A label names a root cause that was triaged against the real code (see DESIGN.md section 6 and
known_findings.json); anything the predicates below do not recognise gets a descriptive
'unclassified:...' label and is therefore reported as a new VIOLATION.
"""
import ast


def _is_m_call(stmt):
    return (isinstance(stmt, ast.Expr) and isinstance(stmt.value, ast.Call)
            and isinstance(stmt.value.func, ast.Name) and stmt.value.func.id == 'm')


def _binds(nodes, name):
    """does the statement list bind `name` (not looking into nested def/class/lambda bodies)?"""
    todo = list(nodes)
    while todo:
        n = todo.pop()
        if isinstance(n, (ast.FunctionDef, ast.AsyncFunctionDef, ast.ClassDef)):
            if n.name == name:
                return True
            continue
        if isinstance(n, ast.Lambda):
            continue
        if isinstance(n, ast.Name) and isinstance(n.ctx, ast.Store) and n.id == name:
            return True
        if isinstance(n, (ast.Import, ast.ImportFrom)):
            for a in n.names:
                if (a.asname or a.name.partition('.')[0]) == name or a.name == '*':
                    return True
        if isinstance(n, ast.ExceptHandler) and n.name == name:
            return True
        todo.extend(ast.iter_child_nodes(n))
    return False


def _within(nodes, line, col):
    for n in nodes:
        if n.lineno <= line <= (n.end_lineno or n.lineno):
            if (line, col) >= (n.lineno, n.col_offset) and (line, col) <= (n.end_lineno, n.end_col_offset):
                return True
    return False


def try_raise_point_case(tree, read):
    """The read is affected by the join after / the handlers of a try statement whose body lacks a raising call
    at its first or at its last statement, and the try body binds the identifier."""
    line, col, name = read['line'], read['col'], read['name']
    for t in ast.walk(tree):
        if not isinstance(t, ast.Try) or not t.handlers:
            continue
        both = _is_m_call(t.body[0]) and _is_m_call(t.body[-1]) and len(t.body) > 1
        if both:
            continue
        if not _binds(t.body, name):
            continue
        in_handler = any(_within(h.body, line, col) for h in t.handlers)
        in_final = _within(t.finalbody, line, col)
        after = (line, col) > (t.end_lineno, t.end_col_offset)
        if in_handler or in_final or after:
            return True
    return False


def _stmt_lists(node):
    for f in ('body', 'orelse', 'finalbody'):
        l = getattr(node, f, None)
        if isinstance(l, list) and l and isinstance(l[0], ast.stmt):
            yield l
    for h in getattr(node, 'handlers', []) or []:
        yield h.body


def terminated_branch_case(tree, read, kind, info):
    """A branch of an if/try that ends in return/raise does not fall through, but supp still merges its
    state into the join after the statement.  The read lies after that statement."""
    line, col, name = read['line'], read['col'], read['name']
    site = info.get('site')
    for s in ast.walk(tree):
        if isinstance(s, (ast.For, ast.While)) and isinstance(s.body[-1], (ast.Return, ast.Raise)):
            # the loop body never reaches the back edge (nor, having run once, the else clause)
            inside = (s.lineno, s.col_offset) <= (line, col) <= (s.end_lineno, s.end_col_offset)
            if inside or (line, col) > (s.end_lineno, s.end_col_offset):
                if kind == 'phantom-definition' and site and _within(s.body, site[0], site[1]):
                    return True
                if kind in ('never-bound-not-flagged',) and _binds(s.body, name):
                    return True
                if kind == 'undefined-marker-but-always-bound' and not _binds(s.body, name):
                    return True
        if not isinstance(s, (ast.If, ast.Try, ast.With)):
            continue
        if (line, col) <= (s.end_lineno, s.end_col_offset):
            continue
        for l in _stmt_lists(s):
            if not isinstance(l[-1], (ast.Return, ast.Raise)):
                continue
            if kind == 'phantom-definition':
                if site and _within(l, site[0], site[1]):
                    return True
            elif kind == 'never-bound-not-flagged':
                if _binds(l, name):
                    return True
            elif kind == 'undefined-marker-but-always-bound':
                if not _binds(l, name):
                    return True
    return False


def annassign_own_target(tree, read):
    line, col, name = read['line'], read['col'], read['name']
    for n in ast.walk(tree):
        if isinstance(n, ast.AnnAssign) and isinstance(n.target, ast.Name) and n.target.id == name and n.value is not None:
            for a in ast.walk(n.annotation):
                if isinstance(a, ast.Name) and (a.lineno, a.col_offset) == (line, col):
                    return True
    return False


def classify(prop, kind, text, tree, read, info):
    if kind in ('lint-E02', 'lint-E42', 'assist-missing', 'names_at-misses-site', 'location-misses-site'):
        if annassign_own_target(tree, read):
            return 'annassign-annotation-reads-own-target'
    if prop == 'C03' and kind in ('phantom-definition', 'undefined-marker-but-always-bound', 'never-bound-not-flagged'):
        if try_raise_point_case(tree, read):
            return 'try-join-assumes-raise-at-first-and-last-statement'
        if terminated_branch_case(tree, read, kind, info):
            return 'return-terminated-branch-joins-continuation'
    ctx = '/'.join(read.get('ctx', ())[-2:]) if read.get('ctx') else 'plain'
    parts = [kind]
    if 'site_kind' in info:
        parts.append(info['site_kind'])
        parts.append('site@' + ('/'.join(info.get('site_ctx', [])[-2:]) or 'plain'))
    parts.append('read@' + ctx)
    return 'unclassified:' + ':'.join(parts)
