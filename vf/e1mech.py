"""Mechanism labels for E1 violations (C01-C03), decided from the failing case itself.

A label names a root cause that was triaged against the real code (see DESIGN.md section 6 and
known_findings.json); anything the predicates below do not recognise gets a descriptive
'unclassified:...' label and is therefore reported as a new VIOLATION.
"""
import ast


def _is_m_call(stmt):
    return (isinstance(stmt, ast.Expr) and isinstance(stmt.value, ast.Call)
            and isinstance(stmt.value.func, ast.Name) and stmt.value.func.id == 'm')


def _binds(nodes, name):
    """does the statement list bind `name` (not looking into nested def/class/lambda bodies)?"""
    todo = list(nodes)
    while todo:
        n = todo.pop()
        if isinstance(n, (ast.FunctionDef, ast.AsyncFunctionDef, ast.ClassDef)):
            if n.name == name:
                return True
            # the header is evaluated in the scope that holds the statement: defaults, decorators, bases
            todo.extend(n.decorator_list)
            if isinstance(n, ast.ClassDef):
                todo.extend(n.bases)
                todo.extend(k.value for k in n.keywords)
            else:
                todo.extend(n.args.defaults)
                todo.extend(k for k in n.args.kw_defaults if k is not None)
            continue
        if isinstance(n, ast.Lambda):
            todo.extend(n.args.defaults)
            todo.extend(k for k in n.args.kw_defaults if k is not None)
            continue
        if isinstance(n, ast.Name) and isinstance(n.ctx, ast.Store) and n.id == name:
            return True
        if isinstance(n, (ast.Import, ast.ImportFrom)):
            for a in n.names:
                if (a.asname or a.name.partition('.')[0]) == name or a.name == '*':
                    return True
        if isinstance(n, ast.ExceptHandler) and n.name == name:
            return True
        todo.extend(ast.iter_child_nodes(n))
    return False


def _within(nodes, line, col):
    for n in nodes:
        decs = getattr(n, 'decorator_list', None)
        start = min((d.lineno, d.col_offset) for d in decs) if decs else (n.lineno, n.col_offset)
        if start <= (line, col) <= (n.end_lineno, n.end_col_offset):
            return True
    return False


def try_raise_point_case(tree, read, info=None):
    """supp's handler regions always join 'before the try' and 'end of the try body' (and the region after the try
    joins the else/body end with every handler end), whatever the body can actually do.  The case: a try statement
    whose body lacks a raising call at its first or at its last statement (so one of those edges does not exist - or,
    with no raising call at all, the handlers are unreachable), where the identifier is bound inside the statement or
    the listed binding lies inside it or flows through it (binding before the statement, read after its start)."""
    line, col, name = read['line'], read['col'], read['name']
    pos = (line, col)
    site = tuple(info['site'][:2]) if info and info.get('site') else None
    for t in ast.walk(tree):
        if not isinstance(t, ast.Try) or not t.handlers:
            continue
        both = _is_m_call(t.body[0]) and _is_m_call(t.body[-1])
        if both:
            continue
        tstart, tend = (t.lineno, t.col_offset), (t.end_lineno, t.end_col_offset)
        parts = t.body + [h for h in t.handlers] + t.orelse + t.finalbody
        bound_inside = _binds(t.body, name) or any(_binds(h.body, name) for h in t.handlers) or _binds(t.orelse, name)
        site_inside = site is not None and tstart <= site <= tend
        site_before = site is not None and site < tstart
        read_after_start = pos >= tstart
        in_loop = False
        for l in ast.walk(tree):
            if isinstance(l, (ast.For, ast.While)) and (l.lineno, l.col_offset) <= tstart and tend <= (l.end_lineno, l.end_col_offset) \
                    and (l.lineno, l.col_offset) <= pos <= (l.end_lineno, l.end_col_offset):
                in_loop = True          # the read can be reached from the statement through the back edge
        if (bound_inside or site_inside) and (read_after_start or in_loop):
            return True
        if site_before and bound_inside and (read_after_start or in_loop):
            return True
    return False


def _start(n):
    """first position of a statement, decorators included"""
    decs = getattr(n, 'decorator_list', None)
    if decs:
        return min((d.lineno, d.col_offset) for d in decs)
    return (n.lineno, n.col_offset)


def _stmt_lists(node):
    for f in ('body', 'orelse', 'finalbody'):
        l = getattr(node, f, None)
        if isinstance(l, list) and l and isinstance(l[0], ast.stmt):
            yield f, l
    for h in getattr(node, 'handlers', []) or []:
        yield 'handler', h.body


def _leaves(l):
    """index of the first top-level statement of the list that leaves it (return/raise), or None"""
    for i, st in enumerate(l):
        if isinstance(st, (ast.Return, ast.Raise)):
            return i
    return None


def terminated_branch_case(tree, read, kind, info):
    """supp has no notion of a dead region: a statement list that leaves through return/raise still passes the
    state that flows through it on - to the join after its compound statement, to the loop back edge, to the
    handlers of its try - and statements after the return/raise are analysed as if reachable.
    Recognised shapes: the read lies after a compound statement one of whose statement lists leaves (and the listed
    binding, if any, is not after that statement); read and binding lie in a loop whose body leaves (dead back
    edge); the binding lies in dead code; the binding lies in a try body that leaves and the read in its handlers."""
    pos = (read['line'], read['col'])
    site = tuple(info['site'][:2]) if info.get('site') else None
    for s in ast.walk(tree):
        if not isinstance(s, (ast.If, ast.Try, ast.With, ast.For, ast.While, ast.FunctionDef)):
            continue
        sstart, send = _start(s), (s.end_lineno, s.end_col_offset)
        for field, l in _stmt_lists(s):
            i = _leaves(l)
            if i is None:
                continue
            lstart, lend = _start(l[0]), (l[-1].end_lineno, l[-1].end_col_offset)
            dead = l[i + 1:]
            if site and dead and _start(dead[0]) <= site <= lend:
                return True                                          # a binding in dead code
            if isinstance(s, ast.Try) and field == 'body' and s.orelse and site \
                    and _start(s.orelse[0]) <= site <= (s.orelse[-1].end_lineno, s.orelse[-1].end_col_offset):
                return True                                          # the else clause of a try whose body always leaves
            if site and lstart <= site <= lend:
                # a binding in a list that leaves: it cannot reach anything outside the list, nor (through a loop)
                # statements of the list at or before its own
                st = [x for x in l if _start(x) <= site <= (x.end_lineno, x.end_col_offset)]
                if not (lstart <= pos <= lend) or (st and pos <= (st[0].end_lineno, st[0].end_col_offset)):
                    return True
            if isinstance(s, ast.FunctionDef):
                continue
            if pos > send and (site is None or site <= send):
                return True                                          # state flowing through a leaving list reaches the join
            if isinstance(s, (ast.For, ast.While)) and field == 'body' and sstart <= pos <= send \
                    and (site is None or sstart <= site <= send):
                return True                                          # dead back edge
            if isinstance(s, ast.Try) and field == 'body' and site and lstart <= site <= lend and not (lstart <= pos <= lend) \
                    and sstart <= pos <= send:
                return True                                          # the end of a leaving try body never reaches the handlers
    return False


def _contains_return(nodes):
    todo = list(nodes)
    while todo:
        n = todo.pop()
        if isinstance(n, (ast.FunctionDef, ast.AsyncFunctionDef, ast.Lambda, ast.ClassDef)):
            continue
        if isinstance(n, ast.Return):
            return True
        todo.extend(ast.iter_child_nodes(n))
    return False


def finally_entered_by_return(tree, read):
    """the read is in a finally block of a try statement whose body / handlers / else contain a return: the finally
    block then also runs with the state at that return, which supp's finally region (join of else and handler ends) lacks"""
    pos = (read['line'], read['col'])
    for t in ast.walk(tree):
        if isinstance(t, ast.Try) and t.finalbody:
            fstart = _start(t.finalbody[0])
            fend = (t.finalbody[-1].end_lineno, t.finalbody[-1].end_col_offset)
            if fstart <= pos <= fend and _contains_return(t.body + t.handlers + t.orelse):
                return True
    return False


def annassign_own_target(tree, read):
    line, col, name = read['line'], read['col'], read['name']
    for n in ast.walk(tree):
        if isinstance(n, ast.AnnAssign) and isinstance(n.target, ast.Name) and n.target.id == name and n.value is not None:
            for a in ast.walk(n.annotation):
                if isinstance(a, ast.Name) and (a.lineno, a.col_offset) == (line, col):
                    return True
    return False


def _parents(tree):
    par = {}
    for n in ast.walk(tree):
        for c in ast.iter_child_nodes(n):
            par[c] = n
    return par


def _node_at(tree, line, col, name):
    for n in ast.walk(tree):
        if isinstance(n, ast.Name) and n.id == name and (n.lineno, n.col_offset) == (line, col):
            return n
    return None


_COMPS = (ast.ListComp, ast.SetComp, ast.DictComp, ast.GeneratorExp)


def target_reads_earlier_target(tree, read):
    """the read lies inside a subscript/attribute target of an assignment statement one of whose earlier targets (or
    an earlier element of the same target list) binds the identifier: CPython binds targets from left to right, supp
    makes all bindings of the statement visible after its value expression only."""
    node = _node_at(tree, read['line'], read['col'], read['name'])
    if node is None or not isinstance(node.ctx, ast.Load):
        return False
    par = _parents(tree)
    n = node
    while n in par and not isinstance(par[n], ast.stmt):
        n = par[n]
    st = par.get(n)
    if not isinstance(st, ast.Assign) or n not in st.targets:
        return False
    pos = (node.lineno, node.col_offset)
    for t in st.targets:
        for x in ast.walk(t):
            if isinstance(x, ast.Name) and isinstance(x.ctx, ast.Store) and x.id == node.id \
                    and (x.lineno, x.col_offset) < pos:
                return True
    return False


def lambda_reads_class_comprehension_variable(tree, read):
    """the read lies in a lambda inside a comprehension written directly in a class body, and the identifier is a
    target of that comprehension: supp keeps comprehension variables in regions of the enclosing (class) scope,
    which nested function scopes skip."""
    node = _node_at(tree, read['line'], read['col'], read['name'])
    if node is None:
        return False
    par = _parents(tree)
    n, in_lambda = node, False
    while n in par:
        n = par[n]
        if isinstance(n, ast.Lambda):
            in_lambda = True
        elif isinstance(n, _COMPS):
            if in_lambda and any(isinstance(x, ast.Name) and x.id == node.id
                                 for g in n.generators for x in ast.walk(g.target)):
                # the comprehension must belong to a class body
                m = n
                while m in par:
                    m = par[m]
                    if isinstance(m, (ast.FunctionDef, ast.AsyncFunctionDef, ast.Lambda)):
                        return False
                    if isinstance(m, ast.ClassDef):
                        return True
                return False
        elif isinstance(n, (ast.FunctionDef, ast.AsyncFunctionDef, ast.ClassDef)):
            return False
    return False


def comprehension_under_class_global(tree, read):
    """the read lies inside a comprehension written directly in a class body that declares the identifier global:
    the declaration holds for the class body only (the comprehension is a scope of its own and finds the name of the
    enclosing function, or the builtin), supp applies it inside the comprehension too (C05 finding of that name)."""
    node = _node_at(tree, read['line'], read['col'], read['name'])
    if node is None:
        return False
    par = _parents(tree)
    n, in_comp = node, False
    while n in par:
        n = par[n]
        if isinstance(n, _COMPS):
            in_comp = True
        elif isinstance(n, (ast.FunctionDef, ast.AsyncFunctionDef, ast.Lambda)):
            return False
        elif isinstance(n, ast.ClassDef):
            return in_comp and any(isinstance(st, ast.Global) and node.id in st.names for st in n.body)
    return False


def annotation_reads_name_bound_in_default(tree, read):
    """the read lies in a parameter or return annotation of a def whose default values bind the identifier with an
    assignment expression: CPython evaluates all defaults before the annotations, supp goes by text position."""
    node = _node_at(tree, read['line'], read['col'], read['name'])
    if node is None:
        return False
    for f in ast.walk(tree):
        if not isinstance(f, (ast.FunctionDef, ast.AsyncFunctionDef)):
            continue
        a = f.args
        anns = [x.annotation for x in a.posonlyargs + a.args + a.kwonlyargs + [a.vararg, a.kwarg] if x is not None and x.annotation]
        if f.returns:
            anns.append(f.returns)
        if not any(node is y for ann in anns for y in ast.walk(ann)):
            continue
        for dflt in list(a.defaults) + [k for k in a.kw_defaults if k is not None]:
            for y in ast.walk(dflt):
                if isinstance(y, ast.NamedExpr) and y.target.id == node.id:
                    return True
    return False


def _all_readers(tree, info, name, pred):
    rs = info.get('readers')
    return bool(rs) and all(pred(tree, {'line': r[0], 'col': r[1], 'name': name}) for r in rs)


def classify(prop, kind, text, tree, read, info):
    for pred, label in ((target_reads_earlier_target, 'assignment-target-reads-a-name-bound-by-an-earlier-target-of-the-statement'),
                        (lambda_reads_class_comprehension_variable, 'comprehension-target-read-in-nested-scope-resolves-outward'),
                        (comprehension_under_class_global, 'class-global-declaration-applied-inside-class-level-comprehension'),
                        (annotation_reads_name_bound_in_default, 'annotation-reads-a-name-bound-in-a-default-of-the-same-def')):
        if kind == 'lint-unused-but-read':
            if _all_readers(tree, info, read['name'], pred):
                return label
        elif pred(tree, read):
            return label
    if kind in ('lint-E02', 'lint-E42', 'assist-missing', 'names_at-misses-site', 'location-misses-site'):
        if annassign_own_target(tree, read):
            return 'annassign-annotation-reads-own-target'
    if prop == 'C02' and kind in ('names_at-misses-site', 'location-misses-site') and finally_entered_by_return(tree, read):
        return 'finally-entered-by-return-misses-the-state-at-the-return'
    if prop == 'C02' and kind == 'lint-unused-but-read' and info.get('readers') and all(
            finally_entered_by_return(tree, {'line': r[0], 'col': r[1]}) for r in info['readers']):
        return 'finally-entered-by-return-misses-the-state-at-the-return'
    if prop == 'C03' and kind in ('phantom-definition', 'undefined-marker-but-always-bound', 'never-bound-not-flagged'):
        if try_raise_point_case(tree, read, info):
            return 'try-join-assumes-raise-at-first-and-last-statement'
        if terminated_branch_case(tree, read, kind, info):
            return 'return-terminated-branch-joins-continuation'
    ctx = '/'.join(read.get('ctx', ())[-2:]) if read.get('ctx') else 'plain'
    parts = [kind]
    if 'site_kind' in info:
        parts.append(info['site_kind'])
        parts.append('site@' + ('/'.join(info.get('site_ctx', [])[-2:]) or 'plain'))
    parts.append('read@' + ctx)
    return 'unclassified:' + ':'.join(parts)
