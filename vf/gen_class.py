"""G-class: generator of class hierarchies spread over the modules of a small project.

    gen_project(rng) -> {'files': {relpath: text}, 'queries': [query, ...], 'meta': {...}}

Every generated project is a real, importable Python project (no query text is part of the
files on disk).  A *query* says where an expression E can be written so that it denotes a
class / instance / self / cls / module / literal / call result:

    {'id': int, 'kind': 'class'|'inst-call'|'inst-var'|'self'|'cls'|'module'|'literal'|'func-call',
     'sub': finer description (e.g. which literal, what the function returns),
     'file': relpath of the file the query is written in, 'module': its dotted module name,
     'expr': text of E, 'insert': None (append a line at the end of the file) or
             {'line': n, 'indent': str} (insert a new line so that it becomes line n),
     'cls': class name for self/cls queries, 'via': import form through which E reaches its
     target, 'target': name of the class/module E denotes (None for literals)}

`query_text(project, q, attr)` builds the text handed to the tool under test and the cursor
position; `attr=None` gives ``E.`` with the cursor after the dot, otherwise ``E.attr`` with the
cursor inside attr.

Shape guarantees (the domain of property C06): depth <= 4, <= 3 bases, no repeated ancestors
(other than object), at most one non-object builtin among all ancestors of a class, module
import graph acyclic, every class callable without arguments, every method callable with
dummy arguments (bodies only assign to self / return simple values).
"""

import re

BUILTIN_BASES = ('dict', 'list', 'Exception', 'set')

NAME_POOL = ('alpha', 'beta', 'gamma', 'delta', 'run', 'value', 'name', 'size', 'kind', 'load',
             'save', 'state', 'width', 'owner', 'get', 'copy')
INST_POOL = ('x', 'y', 'cache', 'data', 'flag', 'count')
PEER_POOL = ('peer', 'root', 'link')          # self attributes holding an instance of a project class
SPAWN_POOL = ('spawn', 'make')                # methods returning an instance of a project class
MARK_POOL = ('mark', 'seen')                  # assigned only through an alias of another object, never through self
# dunder methods both object and most builtin types define (or that builtin containers define): (params, return)
DUNDERS = (('__repr__', '', "'r'"), ('__str__', '', "'s'"), ('__eq__', ', other', 'True'), ('__hash__', '', '1'),
           ('__getitem__', ', k', '1'), ('__len__', '', '0'), ('__iter__', '', 'iter(())'),
           ('__contains__', ', x', 'False'), ('__call__', ', *a', '1'))
VALUES = ('1', "'s'", '[]', '{}', 'None', '(1, 2)', '2.5', "b'b'", 'True')

IMPLICIT_CLASS_VARS = frozenset(('__module__', '__qualname__', '__dict__', '__weakref__', '__doc__',
                                 '__firstlineno__', '__static_attributes__', '__annotations__',
                                 '__annotate__', '__annotations_cache__', '__hash__'))

DESC_TEXT = '''\
class Desc(object):
    def __init__(self, fn=None):
        self.fn = fn

    def __get__(self, obj, cls=None):
        if obj is None or self.fn is None:
            return self
        return self.fn(obj)


class DataDesc(object):
    def __get__(self, obj, cls=None):
        return 1

    def __set__(self, obj, value):
        pass


class ACtx(object):
    async def __aenter__(self):
        return self

    async def __aexit__(self, *exc):
        return False


class AIter(object):
    def __init__(self):
        self.n = 0

    def __aiter__(self):
        return self

    async def __anext__(self):
        self.n += 1
        if self.n > 1:
            raise StopAsyncIteration
        return self.n
'''


class _Module(object):
    def __init__(self, name, pkg):
        self.name = name            # bare module name
        self.pkg = pkg              # package name or None
        self.imports = []           # import statement lines
        self.refs = {}              # ('class', K) / ('module', dotted) -> (expr, via)
        self.body = []              # list of line lists (top-level blocks)
        self.classes = []

    @property
    def dotted(self):
        return (self.pkg + '.' if self.pkg else '') + self.name

    @property
    def relpath(self):
        return (self.pkg + '/' if self.pkg else '') + self.name + '.py'


class _Gen(object):
    def __init__(self, rng, opts):
        self.rng = rng
        self.opts = opts
        self.alias_n = 0
        self.compats = {}           # (module, class) -> (compat module, exported name, variant)
        self.features = set()
        self.forms = set()

    def alias(self):
        self.alias_n += 1
        return 'A%d' % self.alias_n

    def chance(self, p):
        return self.rng.random() < p

    # ---------------------------------------------------------------- layout
    def layout(self):
        rng = self.rng
        npkg = rng.choice((0, 1, 1, 1, 2, 2))
        self.pkgs = ['p%d' % i for i in range(npkg)]
        nmod = rng.randint(1, 4)
        self.modules = []
        for i in range(nmod):
            pkg = rng.choice(self.pkgs + [None]) if self.pkgs and self.chance(0.8) else None
            self.modules.append(_Module('m%d' % i, pkg))
        # every package needs at least one module, otherwise drop it
        self.pkgs = [p for p in self.pkgs if any(m.pkg == p for m in self.modules)]
        self.reexports = {p: [] for p in self.pkgs}      # pkg -> list of (line, names)
        # packages whose __init__ re-binds the name of its first sub-module to a class (hostile but legal);
        # no import in the project may then reach that sub-module as an attribute of the package
        self.shadow_pkgs = set(p for p in self.pkgs if self.chance(0.15))
        self.reexported = {}                             # class name -> pkg
        self.init_shadow = {}                            # pkg -> (module name, class name)

    # ---------------------------------------------------------------- classes
    def make_hierarchy(self):
        rng = self.rng
        ncls = rng.randint(2, self.opts.get('max_classes', 7))
        self.classes = []
        nmod = len(self.modules)
        # monotone assignment of classes to modules keeps the import graph acyclic
        cuts = sorted(rng.randint(0, ncls) for _ in range(nmod - 1))
        mod_of = []
        for i in range(ncls):
            mod_of.append(sum(1 for c in cuts if c <= i))
        pool = rng.sample(NAME_POOL, rng.randint(3, 6))
        self.pool = pool
        self.ipool = list(rng.sample(INST_POOL, rng.randint(1, 3)))
        for i in range(ncls):
            c = {'name': 'K%d' % i, 'mod': self.modules[mod_of[i]], 'bases': [], 'builtin': None,
                 'anc': set(), 'depth': 1, 'members': [], 'explicit_object': False}
            if self.classes and self.chance(0.8):
                want = rng.choice((1, 1, 1, 2, 2, 3))
                cands = self.classes[:]
                rng.shuffle(cands)
                for b in cands:
                    if len(c['bases']) >= want:
                        break
                    if b['depth'] >= 4:
                        continue
                    banc = b['anc'] | {b['name']}
                    if banc & c['anc']:
                        continue
                    if b['builtin'] and c['builtin']:
                        continue
                    c['bases'].append(b)
                    c['anc'] |= banc
                    c['builtin'] = c['builtin'] or b['builtin']
                    c['depth'] = max(c['depth'], b['depth'] + 1)
            base_items = [('src', b) for b in c['bases']]
            if not c['builtin'] and len(base_items) < 3 and self.chance(0.25):
                bb = rng.choice(BUILTIN_BASES)
                c['builtin'] = bb
                base_items.insert(rng.randint(0, len(base_items)), ('builtin', bb))
                self.features.add('builtin-base')
            elif not base_items and self.chance(0.5):
                base_items.append(('builtin', 'object'))
            elif base_items and len(base_items) < 3 and self.chance(0.05):
                base_items.append(('builtin', 'object'))
            c['base_items'] = base_items
            if len(c['bases']) > 1:
                self.features.add('multiple-inheritance')
            self.features.add('depth-%d' % c['depth'])
            self.make_members(c)
            self.classes.append(c)
            c['mod'].classes.append(c)

    def value(self):
        return self.rng.choice(VALUES)

    def self_assigns(self, c, selfname, hi=2, init=False):
        rng = self.rng
        out = []
        for _ in range(rng.choice((0, 1, 1, 2)[:hi + 2])):
            r = rng.random()
            # __init__ must never fail (a subclass may turn a pool name into a setter-less property)
            if r < 0.45 and not init:
                attr = rng.choice(self.pool)          # may shadow a class attribute anywhere in the MRO
                self.features.add('self-assign-pool-name')
            else:
                attr = rng.choice(self.ipool)
            f = rng.random()
            if f < 0.8:
                out.append(('%s.%s = %s' % (selfname, attr, self.value()), [attr]))
            elif f < 0.9:
                other = rng.choice(self.ipool)
                out.append(('%s.%s, %s.%s = 1, 2' % (selfname, attr, selfname, other), [attr, other]))
                self.features.add('self-assign-tuple')
            else:
                out.append(('%s.%s: int = 3' % (selfname, attr), [attr]))
                self.features.add('self-assign-annotated')
        return out

    def make_members(self, c):
        rng = self.rng
        n = rng.randint(1, 5)
        members = []
        used = set()
        if self.chance(0.35):
            members.append(self.method(c, '__init__', init=True))
            used.add('__init__')
        for _ in range(n):
            name = rng.choice(self.pool)
            rebinding = name in used
            # re-binding a name in the same body only over a plain value (a dead method's self-assignments
            # would be "assigned through self" in the text but never at run time)
            if rebinding and (not self.chance(0.5) or any(name in m['names'] and m['kind'] != 'value' for m in members)):
                continue
            if rebinding:
                self.features.add('rebinding-in-class-body')
            used.add(name)
            r = rng.random()
            if r < 0.40:
                members.append(self.method(c, name))
            elif r < 0.52:
                members.append(self.prop(c, name))
            elif r < 0.60:
                self.features.add('staticmethod')
                args = rng.choice(('', 'a=1', 'a, b=2'))
                members.append({'kind': 'static', 'name': name, 'names': [name],
                                'lines': ['@staticmethod', 'def %s(%s):' % (name, args), '    return %s' % self.value()]})
            elif r < 0.68:
                self.features.add('classmethod')
                members.append({'kind': 'classm', 'name': name, 'names': [name], 'queryable': 'cls',
                                'first': 'cls',
                                'lines': ['@classmethod', 'def %s(cls):' % name, '    return %s' % self.value()]})
            elif r < 0.76:
                self.features.add('descriptor-decorated-method')
                c.setdefault('needs', set()).add('Desc')
                members.append({'kind': 'descmethod', 'name': name, 'names': [name], 'deco': 'Desc', 'first': 'self',
                                'head': ['@{Desc}', 'def %s(self):' % name], 'assigns': self.self_assigns(c, 'self', 1),
                                'tail': ['    return %s' % self.value()]})
            elif r < 0.82:
                dd = rng.choice(('Desc', 'DataDesc'))
                self.features.add('descriptor-attribute:' + dd)
                c.setdefault('needs', set()).add(dd)
                members.append({'kind': 'descattr', 'name': name, 'names': [name], 'deco': dd,
                                'lines': ['%s = {%s}()' % (name, dd)]})
            elif r < 0.94:
                members.append({'kind': 'value', 'name': name, 'names': [name],
                                'lines': ['%s = %s' % (name, self.value())]})
            elif r < 0.97:
                self.features.add('annotated-class-attr')
                members.append({'kind': 'value', 'name': name, 'names': [name],
                                'lines': ['%s: int = 4' % name]})
            else:
                other = rng.choice(self.pool)
                if other != name and not any(other in m['names'] and m['kind'] != 'value' for m in members):
                    used.add(other)
                    self.features.add('tuple-class-attr')
                    members.append({'kind': 'value', 'name': name, 'names': [name, other],
                                    'lines': ['%s, %s = 5, 6' % (name, other)]})
        if self.chance(self.opts.get('lambda_p', 0.3)):
            # methods written as class-body lambdas: their first parameter is the instance when called on one
            for _ in range(rng.randint(1, 2)):
                attr = rng.choice(self.ipool)
                extra = rng.choice(('', '', ', other=None', ', a=1, *rest', ', **kw'))
                form = rng.choice(('plain', 'plain', 'property', 'dunder'))
                if form == 'dunder':
                    name, pre, suf = rng.choice((('__lt__', 'lambda self, other: ', ' < other.%s' % attr),
                                                 ('__bool__', 'lambda self: bool(', ')'),
                                                 ('__int__', 'lambda self%s: int(' % extra, ' or 0)'),
                                                 ('__neg__', 'lambda self: ', '')))
                else:
                    name = rng.choice(self.pool)
                    if form == 'property':
                        pre, suf = 'property(lambda self: ', ')'
                    else:
                        pre, suf = 'lambda self%s: ' % extra, ''
                if name in used or any(name in m['names'] for m in members):
                    continue
                used.add(name)
                self.features.add('class-body-lambda:' + form)
                members.insert(rng.randint(0, len(members)),
                               {'kind': 'lambda', 'name': name, 'names': [name], 'setter': False,
                                'risky_property': form == 'property',
                                'lines': ['%s = %sself.%s%s' % (name, pre, attr, suf)],
                                'lambda': {'prefix': '    %s = %s' % (name, pre), 'suffix': suf, 'form': form}})
        if self.chance(0.4):
            for dn, params, ret in rng.sample(DUNDERS, rng.randint(1, 3)):
                self.features.add('dunder-method')
                members.insert(rng.randint(0, len(members)),
                               {'kind': 'method', 'name': dn, 'names': [dn], 'queryable': 'self', 'first': 'self',
                                'head': ['def %s(self%s):' % (dn, params)], 'assigns': self.self_assigns(c, 'self', 1, init=True),
                                'tail': ['    return %s' % ret]})
        if self.chance(0.2):
            # a method returning an instance of a project class (used by `t = self.spawn(); t.mark = 1`)
            sn = rng.choice(SPAWN_POOL)
            target = rng.choice(self.classes + [c])['name']
            self.features.add('method-returning-instance')
            members.append({'kind': 'method', 'name': sn, 'names': [sn], 'queryable': 'self', 'first': 'self',
                            'head': ['def %s(self):' % sn], 'assigns': [], 'tail': ['    return {K:%s}()' % target]})
            c['spawn'] = sn
        if not members:
            members.append(self.method(c, rng.choice(self.pool)))
        # assignments through an alias: of a self attribute holding an instance, or of the result of a self method
        for m in members:
            if m['kind'] == 'method' and m['name'] != '__init__' and not m['name'].startswith('__') and self.chance(0.15):
                mark = rng.choice(MARK_POOL)
                first = m['first']
                if c.get('spawn') and m['name'] != c['spawn'] and self.chance(0.5):
                    self.features.add('assign-through-alias-of-self-method-result')
                    m['alias'] = ['t = %s.%s()' % (first, c['spawn']), 't.%s = 1' % mark]
                else:
                    self.features.add('assign-through-alias-of-self-attribute')
                    peer = rng.choice(PEER_POOL)
                    target = rng.choice(self.classes + [c])['name']
                    m['alias'] = ['%s.%s = {K:%s}()' % (first, peer, target), 'r = %s.%s' % (first, peer),
                                  'r.%s = True' % mark]
        c['members'] = members

    def method(self, c, name, init=False):
        rng = self.rng
        selfname = 'self' if self.chance(0.9) else 'this'
        if selfname != 'self':
            self.features.add('first-param-not-named-self')
        if init:
            args = rng.choice(('', ', a=None', ', a=1, b=2', ', *args', ', *args, **kw'))
        else:
            args = rng.choice(('', '', ', a', ', a, b=2', ', *args', ', a=None, **kw'))
        assigns = self.self_assigns(c, selfname, init=init)
        tail = []
        if not init and self.chance(0.5):
            tail.append('    return %s' % rng.choice(VALUES + (selfname, '%s.%s' % (selfname, rng.choice(self.ipool)))))
        m = {'kind': 'method', 'name': name, 'names': [name], 'queryable': 'self', 'first': selfname,
             'head': ['def %s(%s%s):' % (name, selfname, args)], 'assigns': assigns, 'tail': tail}
        if not init and self.chance(self.opts.get('async_p', 0.3)):
            # coroutine methods: the oracle drives them to completion (send(None) loop)
            m['head'] = ['async ' + m['head'][0]]
            m['async'] = True
            self.features.add('async-method')
            if assigns:
                self.features.add('async-method-assigning-through-self')
        if assigns and self.chance(0.35):
            m['wrap'] = rng.choice(('async-with', 'async-with-as', 'async-for') if m.get('async') else ()) \
                if m.get('async') and self.chance(0.7) else 'try-finally'
            self.features.add('self-assign-inside-' + m['wrap'])
        if self.chance(self.opts.get('nested_p', 0.2)):
            self.nested_functions(m, selfname, init)
        return m

    def nested_functions(self, m, selfname, init):
        """functions nested 1-3 deep in the method that assign through the captured self and are called by the
        method (directly / under a constant condition) or returned to the caller (the oracle calls the result)."""
        rng = self.rng
        depth = rng.choice((1, 1, 2, 2, 3))
        fnames = ('cb', 'inner', 'deep')[:depth]
        attrs = []

        def build(level):
            lines = ['def %s(%s):' % (fnames[level], 'r=None' if level == 0 else '')]
            body = []
            if level == depth - 1 or self.chance(0.5):
                a = rng.choice(self.ipool)          # never a property name: the closure must not raise
                attrs.append(a)
                body.append('%s.%s = %s' % (selfname, a, 'r' if level == 0 and self.chance(0.3) else self.value()))
            if level + 1 < depth:
                body.extend(build(level + 1))
                body.append('%s()' % fnames[level + 1])
            return lines + ['    ' + b for b in body]
        lines = build(0)
        how = rng.choice(('direct', 'direct', 'conditional') if init else ('direct', 'direct', 'conditional', 'returned'))
        if how == 'direct':
            lines.append('cb()')
        elif how == 'conditional':
            lines.extend(['if 1:', '    cb(2)'])
        else:
            m['tail'] = ['    return cb']
        m['nested'] = lines
        m['assigns'] = list(m['assigns'])
        m['nested_attrs'] = attrs
        self.features.add('nested-function-assigning-through-self:depth-%d' % depth)
        self.features.add('nested-function-called:%s' % how)

    def prop(self, c, name):
        self.features.add('property')
        m = {'kind': 'property', 'name': name, 'names': [name], 'queryable': 'self', 'first': 'self',
             'head': ['@property', 'def %s(self):' % name], 'assigns': self.self_assigns(c, 'self', 1),
             'tail': ['    return %s' % self.value()], 'setter': False}
        if self.chance(0.25):
            self.features.add('property-setter')
            m['setter'] = True
            m['post'] = ['', '@%s.setter' % name, 'def %s(self, v):' % name, '    self._%s = v' % name]
            if self.chance(0.7):
                # the getter reads what the setter assigns (both through self)
                m['tail'] = ['    return self._%s' % name]
                self.features.add('property-getter-reads-setter-attr')
            if self.chance(0.5):
                m['post'].append('    self.%s = True' % self.rng.choice(self.ipool))
            m['queryable'] = None       # two defs in one member: keep insert-point bookkeeping simple
        return m

    def finalize_members(self):
        """Build the text of function members.  An assignment through self to a name that is a setter-less
        property somewhere in the project may raise at run time; such a statement is placed last in its
        function (at most one per function) so that no generated assignment is skipped by an exception."""
        risky = set(m['name'] for c in self.classes for m in c['members']
                    if (m['kind'] == 'property' and not m['setter']) or m.get('risky_property'))
        for c in self.classes:
            for m in c['members']:
                if 'head' not in m:
                    continue
                safe, last = [], None
                for stmt, attrs in m['assigns']:
                    bad = [a for a in attrs if a in risky]
                    if not bad:
                        safe.append(stmt)
                    elif last is None:
                        last = stmt if len(attrs) == 1 else '%s.%s = 7' % (m['first'], bad[0])
                        self.features.add('self-assign-to-setterless-property-name')
                wrap = m.get('wrap')
                if wrap and safe:
                    if wrap == 'try-finally':
                        k = max(1, len(safe) // 2)
                        inner = ['try:'] + ['    ' + st for st in safe[:k]] + ['finally:'] + \
                                ['    ' + st for st in (safe[k:] or ['pass'])]
                    else:
                        opener = {'async-with': 'async with {D:ACtx}():', 'async-with-as': 'async with {D:ACtx}() as cm:',
                                  'async-for': 'async for _i in {D:AIter}():'}[wrap]
                        inner = [opener] + ['    ' + st for st in safe]
                    safe = inner
                body = ['    %s' % st for st in safe + m.get('alias', []) + m.get('nested', []) + ([last] if last else [])]
                if not body and not m['tail']:
                    body = ['    pass']
                m['lines'] = m['head'] + body + m['tail'] + m.get('post', [])

    # ---------------------------------------------------------------- imports
    def import_forms(self, importer, tmod, cname):
        """(kind, statement, expr) ways for `importer` to reach class `cname` (or module if cname is None) of tmod."""
        forms = []
        d = tmod.dotted
        same_pkg = importer.pkg is not None and importer.pkg == tmod.pkg
        if cname is None:
            if tmod.pkg in self.shadow_pkgs and tmod is self.first_of(tmod.pkg):
                return forms
            if tmod.pkg:
                forms.append(('import p.m', 'import %s' % d, d))
                forms.append(('import p.m as A', 'import %s as {A}' % d, '{A}'))
                forms.append(('from p import m', 'from %s import %s' % (tmod.pkg, tmod.name), tmod.name))
                forms.append(('from p import m as A', 'from %s import %s as {A}' % (tmod.pkg, tmod.name), '{A}'))
                if same_pkg:
                    forms.append(('from . import m', 'from . import %s' % tmod.name, tmod.name))
            else:
                forms.append(('import m', 'import %s' % d, d))
                forms.append(('import m as A', 'import %s as {A}' % d, '{A}'))
            return forms
        for kind, stmt, expr in self.import_forms(importer, tmod, None):
            forms.append((kind, stmt, expr + '.' + cname))
        forms.append(('from p.m import K' if tmod.pkg else 'from m import K', 'from %s import %s' % (d, cname), cname))
        forms.append(('from p.m import K as A' if tmod.pkg else 'from m import K as A',
                      'from %s import %s as {A}' % (d, cname), '{A}'))
        forms.append(('from p.m import *' if tmod.pkg else 'from m import *', 'from %s import *' % d, cname))
        if same_pkg:
            forms.append(('from .m import K', 'from .%s import %s' % (tmod.name, cname), cname))
            forms.append(('from .m import K as A', 'from .%s import %s as {A}' % (tmod.name, cname), '{A}'))
            forms.append(('from .m import *', 'from .%s import *' % tmod.name, cname))
        first = next((m for m in self.modules if m.pkg == tmod.pkg), None) if tmod.pkg else None
        if tmod.pkg and importer.pkg != tmod.pkg and not cname.startswith('f') and tmod is first:
            # re-export through the package __init__ (consumers outside the package only; only from the
            # package's first module, which keeps the import graph acyclic through __init__)
            forms.append(('reexport: from p import K', 'from %s import %s' % (tmod.pkg, cname), cname))
            forms.append(('reexport: from p import K as A', 'from %s import %s as {A}' % (tmod.pkg, cname), '{A}'))
            forms.append(('reexport: import p', 'import %s' % tmod.pkg, tmod.pkg + '.' + cname))
        return forms

    def first_of(self, pkg):
        return next((m for m in self.modules if m.pkg == pkg), None)

    def ref(self, importer, tmod, cname, fresh=False):
        """Expression by which `importer` names class cname of tmod (None: the module); adds imports."""
        if tmod is importer and cname is not None:
            return cname, 'same-module'
        key = (tmod.dotted, cname)
        if not fresh and key in importer.refs:
            return importer.refs[key]
        if cname and re.match(r'K\d+$', cname) and not getattr(tmod, 'custom', None) and \
                self.chance(self.opts.get('compat_p', 0.12)):
            # reach the class through a module that binds it conditionally (import vs local fallback)
            cm, alias, variant = self.compat_for(tmod, cname)
            expr, kind = self.ref(importer, cm, alias)
            kind = 'conditional-export(%s)+%s' % (variant, kind)
            importer.refs[key] = (expr, kind)
            return expr, kind
        kind, stmt, expr = self.rng.choice(self.import_forms(importer, tmod, cname))
        if '{A}' in stmt:
            a = self.alias()
            stmt = stmt.replace('{A}', a)
            expr = expr.replace('{A}', a)
        if kind.startswith('reexport'):
            self.add_reexport(tmod, cname)
        if stmt not in importer.imports:
            importer.imports.append(stmt)
        self.forms.add(kind)
        importer.refs[key] = (expr, kind)
        return expr, kind

    COMPAT_VARIANTS = ('try-import/except-class', 'try-import/except-class', 'try-import/except-assign',
                       'try-import/except-def', 'if-1-import/else-class', 'version-check-import/else-class',
                       'if-1-class/else-import')

    def compat_for(self, tmod, cname):
        """A top-level module exporting B<n>, bound conditionally: one alternative imports class cname of tmod,
        the other is a local class / def / assignment.  Only variants whose executed path is the FIRST
        alternative (import succeeds / constant-true condition)."""
        key = (tmod.dotted, cname)
        if key in self.compats:
            return self.compats[key]
        rng = self.rng
        n = len(self.compats) + 1
        mod = _Module('compat%d' % n, None)
        alias = 'B%d' % n
        variant = rng.choice(self.COMPAT_VARIANTS)
        imp = 'from %s import %s as %s' % (tmod.dotted, cname, alias)
        local = ['class %s(object):' % alias, '    fallback_marker = %d' % n, '',
                 '    def %s(self):' % rng.choice(self.pool), '        self.%s = 0' % rng.choice(self.ipool),
                 '        self.only_in_fallback = 1']
        ind = lambda ls: ['    ' + l if l else '' for l in ls]
        if variant == 'try-import/except-class':
            lines = ['try:'] + ind([imp]) + ['except ImportError:'] + ind(local)
        elif variant == 'try-import/except-assign':
            lines = ['try:'] + ind([imp]) + ['except ImportError:'] + ind(['%s = None' % alias])
        elif variant == 'try-import/except-def':
            lines = ['try:'] + ind([imp]) + ['except ImportError:'] + ind(['def %s(*args):' % alias, '    return None'])
        elif variant == 'if-1-import/else-class':
            lines = ['if 1:'] + ind([imp]) + ['else:'] + ind(local)
        elif variant == 'version-check-import/else-class':
            lines = ['import sys', '', 'if sys.version_info >= (3,):'] + ind([imp]) + ['else:'] + ind(local)
        else:   # control: the local class is the first alternative and the one CPython binds
            lines = ['if 1:'] + ind(local) + ['else:'] + ind([imp])
        mod.custom = lines
        self.features.add('conditional-export:' + variant)
        self.compats[key] = (mod, alias, variant)
        return self.compats[key]

    def add_reexport(self, tmod, cname):
        if self.reexported.get(cname):
            return
        self.reexported[cname] = tmod.pkg
        r = self.rng.random()
        if r < 0.5:
            line = 'from .%s import %s' % (tmod.name, cname)
        elif r < 0.8:
            line = 'from %s import %s' % (tmod.dotted, cname)
        else:
            line = 'from .%s import *' % tmod.name
            self.features.add('reexport-by-star')
        self.reexports[tmod.pkg].append((self.modules.index(tmod), line))

    # ---------------------------------------------------------------- text
    def render_class(self, c, out, info):
        mod = c['mod']
        bases = []
        for kind, b in c['base_items']:
            if kind == 'builtin':
                bases.append(b)
            else:
                expr, via = self.ref(mod, b['mod'], b['name'])
                bases.append(expr)
                c.setdefault('base_via', {})[b['name']] = via
        head = 'class %s(%s):' % (c['name'], ', '.join(bases)) if bases else 'class %s:' % c['name']
        out.append(head)
        first = True
        for m in c['members']:
            if not first and m['lines'][0].startswith(('def', 'async def', '@')):
                out.append('')
            first = False
            deco = m.get('deco')
            dexpr = None
            if deco:
                dexpr, _ = self.ref(mod, self.desc_mod, deco) if self.desc_mod is not mod else (deco, 'same-module')
            start = len(out)
            for ln in m['lines']:
                if deco:
                    ln = ln.replace('{%s}' % deco, dexpr)
                for dname in re.findall(r'\{D:(\w+)\}', ln):
                    dref = dname if self.desc_mod is mod else self.ref(mod, self.desc_mod, dname)[0]
                    ln = ln.replace('{D:%s}' % dname, dref)
                for kname in re.findall(r'\{K:(\w+)\}', ln):
                    kc = next(k for k in self.classes + [c] if k['name'] == kname)
                    ln = ln.replace('{K:%s}' % kname, self.ref(mod, kc['mod'], kname)[0])
                out.append(('    ' + ln) if ln else '')
            if m.get('lambda'):
                info.append({'cls': c['name'], 'method': m['name'], 'what': 'self', 'first': 'self',
                             'block_offsets': [start], 'lambda': m['lambda']})
            if m.get('queryable'):
                # line numbers (1-based, in the final file) are fixed up by the caller through `info`
                lines = m['lines']
                di = next(i for i, l in enumerate(lines) if l.startswith(('def ', 'async def ')))
                last = len(lines)
                if lines[-1].lstrip().startswith('return'):
                    last -= 1
                pts = sorted(set([di + 1, last]))
                info.append({'cls': c['name'], 'method': m['name'], 'what': m['queryable'], 'first': m['first'],
                             'block_offsets': [start + p for p in pts]})
        out.append('')
        out.append('')

    def render(self):
        rng = self.rng
        # descriptor classes live in the first module (or a module of their own)
        if self.chance(0.3):
            self.desc_mod = _Module('descs', rng.choice(('pd', None)))   # 'pd' holds nothing else
            self.all_modules = [self.desc_mod] + self.modules
        else:
            self.desc_mod = self.modules[0]
            self.all_modules = self.modules[:]
        files = {}
        self.method_points = {}
        rendered = {}
        for mod in self.all_modules:
            out = []
            info = []
            if mod is self.desc_mod:
                out.extend(DESC_TEXT.split('\n'))
                out.append('')
            for c in mod.classes:
                self.render_class(c, out, info)
            rendered[mod.relpath] = (mod, out, info)
        for rel, (mod, out, info) in rendered.items():
            head = list(mod.imports)
            if head:
                head.append('')
                head.append('')
            for it in info:
                # 1-based line number at which a new line may be inserted
                it['lines'] = [len(head) + off + 1 for off in it.pop('block_offsets')]
                it['file'] = rel
                it['module'] = mod.dotted
            self.method_points[rel] = info
            files[rel] = '\n'.join(head + out).rstrip('\n') + '\n'
        return files

    # ---------------------------------------------------------------- queries
    def make_queries(self, files):
        rng = self.rng
        in_pkg = self.pkgs and self.chance(0.4)
        q = _Module('qmain', rng.choice(self.pkgs) if in_pkg else None)
        body = []
        queries = []

        def add(kind, sub, expr, via, target, file=None, module=None, insert=None, cls=None):
            queries.append({'id': len(queries), 'kind': kind, 'sub': sub, 'file': file or q.relpath,
                            'module': module or q.dotted, 'expr': expr, 'insert': insert, 'cls': cls,
                            'via': via, 'target': target})

        classes = self.classes[:]
        rng.shuffle(classes)
        budget = self.opts.get('max_queries', 12)
        nvar = 0
        for c in classes[:5]:
            kinds = rng.sample(['class', 'inst-call', 'inst-var', 'func-call'], rng.randint(1, 3))
            for k in kinds:
                expr, via = self.ref(q, c['mod'], c['name'], fresh=self.chance(0.3))
                if k == 'class':
                    add('class', 'class', expr, via, c['name'])
                elif k == 'inst-call':
                    add('inst-call', 'K()', expr + '()', via, c['name'])
                elif k == 'inst-var':
                    v = 'v%d' % nvar
                    nvar += 1
                    body.append('%s = %s()' % (v, expr))
                    add('inst-var', 'v = K(); v', v, via, c['name'])
                else:
                    f = 'f%d' % nvar
                    nvar += 1
                    r = rng.random()
                    if r < 0.6:
                        body.extend(['def %s():' % f, '    return %s()' % expr, ''])
                        add('func-call', 'returns K()', f + '()', via, c['name'])
                    elif r < 0.8:
                        body.extend(['def %s(a=1):' % f, '    return %s' % expr, ''])
                        add('func-call', 'returns K', f + '()', via, c['name'])
                    else:
                        body.extend(['def %s():' % f, '    r = %s()' % expr, '    return r', ''])
                        add('func-call', 'returns local bound to K()', f + '()', via, c['name'])
        # function defined in a class module and imported
        if self.chance(0.4):
            c = rng.choice(self.classes)
            mod = c['mod']
            fname = 'fm%d' % self.modules.index(mod)
            files[mod.relpath] += '\n\ndef %s():\n    return %s()\n' % (fname, c['name'])
            expr, via = self.ref(q, mod, fname)
            add('func-call', 'imported function returning K()', expr + '()', via, c['name'])
        # modules
        mods = self.modules[:]
        rng.shuffle(mods)
        for m in mods[:2]:
            if not self.import_forms(q, m, None):
                continue
            expr, via = self.ref(q, m, None, fresh=self.chance(0.3))
            add('module', 'module', expr, via, m.dotted)
        for p in self.pkgs:
            if self.reexports[p] and self.chance(0.6):
                if self.chance(0.5):
                    stmt, expr, via = 'import %s' % p, p, 'import p'
                else:
                    a = self.alias()
                    stmt, expr, via = 'import %s as %s' % (p, a), a, 'import p as A'
                if stmt not in q.imports:
                    q.imports.append(stmt)
                self.forms.add(via)
                add('module', 'package with re-exports', expr, via, p)
        # literals
        if self.chance(self.opts.get('literal_p', 0.5)):
            lit = rng.choice((("''", 'str'), ('""', 'str'), ('[]', 'list'), ('{}', 'dict'), ('1 ', 'int'), ('(1)', 'int'),
                              ("b''", 'bytes'), ('1.5', 'float'), ('[1, 2]', 'list'), ("{'a': 1}", 'dict'), ('()', 'tuple')))
            add('literal', lit[1], lit[0], 'literal', None)
        if self.chance(0.3):
            f = 'f%d' % nvar
            nvar += 1
            lit = rng.choice((("''", 'str'), ('[]', 'list'), ('{}', 'dict'), ('1', 'int')))
            body.extend(['def %s():' % f, '    return %s' % lit[0], ''])
            add('func-call', 'returns literal ' + lit[1], f + '()', 'literal', None)
        # self / cls inside methods (written into the class's own file)
        pts = [it for infos in self.method_points.values() for it in infos]
        rng.shuffle(pts)
        lam = [it for it in pts if it.get('lambda')]
        for it in [it for it in pts if not it.get('lambda')][:4] + lam[:2]:
            line = rng.choice(it['lines'])
            if it.get('lambda'):
                # the query REPLACES the lambda's line: `name = lambda self: self.|<suffix>`
                add('self', 'self in class-body lambda (%s) %s.%s' % (it['lambda']['form'], it['cls'], it['method']),
                    'self', 'lambda parameter', it['cls'], file=it['file'], module=it['module'], cls=it['cls'],
                    insert={'line': line, 'indent': it['lambda']['prefix'], 'suffix': it['lambda']['suffix'],
                            'replace': True})
                continue
            add(it['what'], '%s in %s.%s' % (it['first'], it['cls'], it['method']), it['first'], 'parameter', it['cls'],
                file=it['file'], module=it['module'], insert={'line': line, 'indent': ' ' * 8}, cls=it['cls'])
        if len(queries) > budget:
            fixed = [i for i, qq in enumerate(queries) if (qq['insert'] or {}).get('replace')]
            rest = [i for i in range(len(queries)) if i not in fixed]
            keep = sorted(fixed + rng.sample(rest, max(0, budget - len(fixed))))
            queries[:] = [queries[i] for i in keep]
            for i, qq in enumerate(queries):
                qq['id'] = i
        # hostile: __init__ re-binds the name of its first sub-module to a class defined there
        for p in sorted(self.shadow_pkgs):
            mod = self.first_of(p)
            if not mod.classes:
                continue
            c = mod.classes[0]
            if self.reexported.get(c['name']) is None:
                self.reexported[c['name']] = p
                self.reexports[p].append((self.modules.index(mod), 'from .%s import %s' % (mod.name, c['name'])))
            elif not any(line.endswith('import ' + c['name']) for _, line in self.reexports[p]):
                continue
            self.init_shadow[p] = (mod.name, c['name'])
            self.features.add('init-rebinds-submodule-name')
            q.imports.append('import %s' % mod.dotted)
            self.forms.add('import p.m (name rebound in __init__)')
            add('class', 'p.m where __init__ rebinds m to a class', mod.dotted,
                'import p.m (name rebound in __init__)', c['name'])
            if self.chance(0.5):
                add('inst-call', 'p.m() where __init__ rebinds m to a class', mod.dotted + '()',
                    'import p.m (name rebound in __init__)', c['name'])
        files[q.relpath] = '\n'.join(q.imports + ['', ''] + body).rstrip('\n') + '\n'
        return queries

    def finish_inits(self, files):
        if self.desc_mod.pkg == 'pd':
            files['pd/__init__.py'] = ''
        for p in self.pkgs:
            lines = [line for _, line in sorted(self.reexports[p])]
            if p in self.init_shadow:
                mname, cname = self.init_shadow[p]
                lines.append('%s = %s' % (mname, cname))
            files[p + '/__init__.py'] = '\n'.join(lines) + ('\n' if lines else '')


def gen_project(rng, opts=None):
    g = _Gen(rng, opts or {})
    g.layout()
    g.make_hierarchy()
    g.finalize_members()
    files = g.render()
    queries = g.make_queries(files)
    g.finish_inits(files)
    for cm, alias, variant in g.compats.values():
        files[cm.relpath] = '\n'.join(cm.custom) + '\n'
    meta = {'classes': {c['name']: {'module': c['mod'].dotted, 'bases': [b if k == 'builtin' else b['name'] for k, b in c['base_items']],
                                    'depth': c['depth'], 'base_via': c.get('base_via', {})} for c in g.classes},
            'features': sorted(g.features), 'import_forms': sorted(g.forms),
            'n_classes': len(g.classes), 'n_function_members': sum(1 for c in g.classes for m in c['members'] if 'head' in m),
            'n_async_methods': sum(1 for c in g.classes for m in c['members'] if m.get('async')),
            'n_async_methods_assigning': sum(1 for c in g.classes for m in c['members'] if m.get('async') and m.get('assigns')),
            'n_classes_with_async_method': sum(1 for c in g.classes if any(m.get('async') for m in c['members'])),
            'compat_files': {cm.relpath: variant for cm, alias, variant in g.compats.values()},
            'n_methods_with_nested_functions': sum(1 for c in g.classes for m in c['members'] if m.get('nested')),
            'n_conditional_exports': len(g.compats),
            'n_class_body_lambdas': sum(1 for c in g.classes for m in c['members'] if m.get('lambda')),
            'packages': g.pkgs, 'modules': [m.dotted for m in g.all_modules]}
    return {'files': files, 'queries': queries, 'meta': meta}


def query_text(project, q, attr=None):
    """Text of q['file'] with the query line in place, and the cursor position (1-based line, column).
    attr=None: ``E.`` (cursor after the dot); else ``E.attr`` with the cursor inside attr."""
    text = project['files'][q['file']]
    lines = text.split('\n')
    if lines and lines[-1] == '':
        lines.pop()
    ins = q['insert']
    indent = ins['indent'] if ins else ''
    head = indent + q['expr'] + '.'
    if attr is None:
        new, col = head, len(head)
    else:
        new, col = head + attr, len(head) + max(1, len(attr) // 2)
    if ins and ins.get('replace'):
        # the query is written inside an existing line (the body of a class-body lambda)
        ln = ins['line']
        lines[ln - 1] = new + ins.get('suffix', '')
    elif ins:
        ln = ins['line']
        lines.insert(ln - 1, new)
    else:
        lines.append(new)
        ln = len(lines)
    return '\n'.join(lines) + '\n', (ln, col)
