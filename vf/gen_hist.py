"""G-hist: small multi-module projects and edit/request histories over them (C09; usable by C04).

Everything here is plain data (JSON-able dicts) + pure functions, so a failing case can be
written out in full and replayed without the generator.

Project spec
------------
spec = {
  'tag': 'v1k_',                     # prefix of every generated identifier / file name
  'modules': {mid: {'pkg': None|pid, 'init': bool, 'present': bool, 'main': bool, 'level': int,
                    'edges': [{'kind': 'import'|'import_as'|'from_mod'|'from'|'star',
                               'to': mid, 'names': [...], 'rel': bool}],
                    'uses': [expr, ...]}},
  'order': [mid, ...],               # mains first, then by level
  'probes': [{'kind': 'assist-attr'|'assist-bare'|'location'|'lint', 'file': mid, 'expr': str|None,
              'path': [mid, ...]}],  # modules the probe expression walks through (file first)
}
A module may carry 'broken': 'syntax' (or True) / 'bytes' (its initial content has a syntax error / is not UTF-8).  A package __init__ may be absent at
the start ('present': False): its directory exists and holds modules, relative imports in them resolve nothing
until the __init__ is created.  A main may live inside a package directory ('pkg' set, 'main' True).
A module may carry 'shadow': <attribute name>: it is a sub-module of its package whose FILE is named like an
attribute that the package's __init__ defines (pkg/K_<stem of pkg>.py); `from pkg import <attr>` resolves
to it once it exists.  Nothing imports it by an explicit edge; successors() adds the implicit dependency.
mid is a single lower-case letter; the identifier stem of a module is tag+mid, so the owner
of any generated identifier can be read back from the identifier itself (owner_of()).

Module text is a function of (spec, mid, version):  the import lines are fixed per module,
the definitions carry the version (names  <stem>_v<version%3>,  methods f_<stem>_v<version%3>,
version%2 padding lines that shift every definition).  Consecutive versions always differ.

History ops
-----------
['create', mid] | ['rewrite', mid, d] | ['touch', mid, d] | ['put', mid, d]   (put = create if absent else rewrite)
['req', probe_index]
['req', probe_index, 'lookup', mid]   ARMED request: while it runs, the harness makes the lookup of module mid
                                      (Project.get_module) raise an injected fault, on whichever project is asked
['req', probe_index, 'scope', mid]    same, but the fault sits in the analysis of mid (SourceModule.scope)
['break', mid, d]   writes the module with a syntax error (creates it if absent); the next rewrite/put repairs it.
                    supp analyses such a module as one without names: requests succeed and are compared as usual.
['garble', mid, d]  writes the module as bytes that are not valid UTF-8 (outside the property's domain, used only
                    as a failure source): a request that reaches it raises UnicodeDecodeError on the long-lived and
                    on the fresh project alike (never a verdict); the next rewrite/put repairs it.
d (optional, default 'f') is the direction in which the modification moves the file's mtime:
'f' = to the next integer second above every mtime the file ever had, 'b' = to the integer second
below every mtime the file ever had (a restored backup / VCS checkout / cp -p).  Either way the new
mtime differs from the current one and was never used for this file before.
"""
import re

EDGE_KINDS = ('import', 'import_as', 'from_mod', 'from', 'star', 'attr_sub')
# 'attr_sub': the importer does `import pkg` and reaches the sub-module e['to'] ONLY by attribute access on the
# package object (pkg.sub.K as a base class, as the source of an instance attribute, as a plain read)
MODULE_ACCESS = ('import', 'import_as', 'from_mod')


# --------------------------------------------------------------------------------------
# naming

def stem(spec, mid):
    return spec['tag'] + mid


def dotted(spec, mid):
    m = spec['modules'][mid]
    if m.get('shadow'):
        return stem(spec, m['pkg']) + '.' + m['shadow']
    if m['pkg'] and not m['init']:
        return stem(spec, m['pkg']) + '.' + stem(spec, mid)
    return stem(spec, mid)


def relpath(spec, mid):
    m = spec['modules'][mid]
    if m['init']:
        return stem(spec, mid) + '/__init__.py'
    if m.get('shadow'):
        return stem(spec, m['pkg']) + '/' + m['shadow'] + '.py'
    if m['pkg']:
        return stem(spec, m['pkg']) + '/' + stem(spec, mid) + '.py'
    return stem(spec, mid) + '.py'


def owner_of(spec, identifier):
    """module id owning a generated identifier (K_<stem>, <stem>_s, <stem>_v1, f_<stem>_s, al_<stem>) or None"""
    m = re.search(re.escape(spec['tag']) + r'([a-z])', identifier)
    if m and m.group(1) in spec['modules']:
        return m.group(1)
    return None


def owner_of_path(spec, rel):
    for mid in spec['modules']:
        if relpath(spec, mid) == rel:
            return mid
    return None


def cls_name(spec, mid):
    return 'K_' + stem(spec, mid)


def var_name(spec, mid):
    return stem(spec, mid) + '_s'


def ver_name(spec, mid, v):
    return '%s_v%d' % (stem(spec, mid), v % 3)


# --------------------------------------------------------------------------------------
# what a module exposes (approximate model, used only to build *interesting* imports and
# probes; the oracle never depends on it)

def access(spec, edge):
    """expression that denotes the target module inside the importer (module-access edges)"""
    if edge['kind'] == 'import':
        return dotted(spec, edge['to'])
    if edge['kind'] == 'import_as':
        return 'al_' + stem(spec, edge['to'])
    if edge['kind'] == 'from_mod':
        return stem(spec, edge['to'])
    return None


def visible(spec, mid, _seen=None):
    """name -> (what, owner) for the stable names a module exposes: what in cls/var/mod"""
    _seen = _seen or ()
    if mid in _seen:
        return {}
    out = {}
    m = spec['modules'][mid]
    for e in m['edges']:
        if e['kind'] in MODULE_ACCESS:
            first = access(spec, e).partition('.')[0]
            if '.' not in access(spec, e):
                out[first] = ('mod', e['to'])
        elif e['kind'] == 'from':
            tv = visible(spec, e['to'], _seen + (mid,))
            for n in e['names']:
                out[n] = tv.get(n, ('var', e['to']))
        elif e['kind'] == 'star':
            for n, w in visible(spec, e['to'], _seen + (mid,)).items():
                if not n.startswith('_'):
                    out[n] = w
    out[cls_name(spec, mid)] = ('cls', mid)
    out[var_name(spec, mid)] = ('var', mid)
    for e in m['edges']:
        if e['kind'] == 'attr_sub':
            st = stem(spec, mid)
            out['KA_' + st] = ('sub_cls', e['to'])
            out['KB_' + st] = ('sub_inst', e['to'])
            out['ref_' + st] = ('sub_ref', e['to'])
    return out


def import_line(spec, mid, e):
    m = spec['modules'][mid]
    t = spec['modules'][e['to']]
    k = e['kind']
    if k == 'attr_sub':
        return 'import %s' % stem(spec, t['pkg'])
    if k == 'import':
        return 'import %s' % dotted(spec, e['to'])
    if k == 'import_as':
        return 'import %s as al_%s' % (dotted(spec, e['to']), stem(spec, e['to']))
    if k == 'from_mod':
        src = '.' if (e.get('rel') and m['pkg'] == t['pkg']) else stem(spec, t['pkg'])
        return 'from %s import %s' % (src, stem(spec, e['to']))
    names = '*' if k == 'star' else ', '.join(e['names'])
    if e.get('rel') and m['pkg'] and m['pkg'] == t['pkg']:
        src = '.' if t['init'] else '.' + stem(spec, e['to'])
    else:
        src = dotted(spec, e['to'])
    return 'from %s import %s' % (src, names)


def render(spec, mid, version, broken=False):
    m = spec['modules'][mid]
    st = stem(spec, mid)
    lines = ['# %s version %d' % (dotted(spec, mid), version)]
    lines += ['# pad'] * (version % 2)
    for e in m['edges']:
        lines.append(import_line(spec, mid, e))
    lines += ['',
              'class K_%s(object):' % st,
              '    def f_%s_s(self):' % st,
              '        return 1',
              '    def f_%s_v%d(self):' % (st, version % 3),
              '        return 2',
              '',
              '%s_s = 1' % st,
              '%s_v%d = %d' % (st, version % 3, version),
              '_%s_private = 0' % st]
    for e in m['edges']:
        if e['kind'] == 'attr_sub':
            ref = '%s.K_%s' % (dotted(spec, e['to']), stem(spec, e['to']))
            lines += ['',
                      'class KA_%s(%s):' % (st, ref),
                      '    own_%s = 1' % st,
                      '',
                      'class KB_%s(object):' % st,
                      '    def __init__(self):',
                      '        self.helper = %s()' % ref,
                      '',
                      'ref_%s = %s' % (st, ref)]
    for u in m.get('uses', ()):
        lines.append(u)
    if broken:
        lines.append('def (:   # saved in the middle of an edit')
    return '\n'.join(lines) + '\n'


def garbled(version):
    """file content that is not valid UTF-8"""
    return b'\xff\xfe\x00 = %d\n' % version


def is_relative(spec, mid, e):
    m = spec['modules'][mid]
    t = spec['modules'][e['to']]
    return bool(e.get('rel') and m['pkg'] and m['pkg'] == t['pkg'])


# --------------------------------------------------------------------------------------
# graph

def successors(spec, mid):
    """import edges of a module, including the implicit one: `import pkg.mod` binds `pkg`, so the
    importer also depends on the package's __init__"""
    out = []
    for e in spec['modules'][mid]['edges']:
        out.append((e['to'], e['kind']))
    for e in spec['modules'][mid]['edges']:
        t = spec['modules'][e['to']]
        if e['kind'] in ('import', 'attr_sub') and t['pkg'] and not t['init'] and t['pkg'] != mid:
            if not any(b == t['pkg'] for b, _ in out):
                out.append((t['pkg'], 'import'))
    # a relative import resolves only if the directory is a package: dependency on its __init__
    m = spec['modules'][mid]
    if m['pkg'] and not m['init'] and any(is_relative(spec, mid, e) for e in m['edges']):
        if not any(b == m['pkg'] for b, _ in out):
            out.append((m['pkg'], 'relative'))
    # `from pkg import attr` / `from pkg import *` first looks for a sub-module pkg.attr
    for sid, sm in spec['modules'].items():
        if sm.get('shadow') and sid != mid:
            for e in spec['modules'][mid]['edges']:
                if e['to'] == sm['pkg'] and (e['kind'] == 'star' or (e['kind'] == 'from' and sm['shadow'] in e['names'])):
                    out.append((sid, e['kind']))
                    break
    return out


def distances(spec, src):
    dist = {src: 0}
    todo = [src]
    while todo:
        nxt = []
        for a in todo:
            for b, _ in successors(spec, a):
                if b not in dist:
                    dist[b] = dist[a] + 1
                    nxt.append(b)
        todo = nxt
    return dist


def all_paths(spec, src, dst, limit=64):
    """all simple paths src..dst as lists of (mid, kind_of_edge_into_mid); kind is None for src"""
    out = []

    def go(path, seen):
        if len(out) >= limit:
            return
        cur = path[-1][0]
        if cur == dst:
            out.append(list(path))
            return
        for b, k in successors(spec, cur):
            if b not in seen:
                path.append((b, k))
                go(path, seen | {b})
                path.pop()
    go([(src, None)], {src})
    out.sort(key=len)
    return out


# --------------------------------------------------------------------------------------
# probes

def build_probes(spec, max_depth=3):
    """fills in 'uses' of the mains and returns the probe list"""
    probes = []
    for mid in spec['order']:
        m = spec['modules'][mid]
        if not m['main']:
            continue
        uses = []
        seen = set()

        def add(kind, expr, path):
            key = (kind, expr)
            if key in seen:
                return
            seen.add(key)
            probes.append({'kind': kind, 'file': mid, 'expr': expr, 'path': list(path)})
            if kind == 'location' and expr not in uses:
                uses.append(expr)

        def sub(full, what, t, path):
            # names built on a sub-module t that their module reaches only as pkg.t.K_t
            inherited = 'f_%s_s' % stem(spec, t)
            if what == 'sub_cls':
                add('assist-attr', full, path + [t])
                add('location', full + '.' + inherited, path + [t])
            elif what == 'sub_inst':
                add('assist-attr', full + '().helper', path + [t])
                add('location', full + '().helper.' + inherited, path + [t])
            else:
                add('assist-attr', full, path + [t])
                add('location', full, path + [t])

        def walk(expr, target, depth, path):
            add('assist-attr', expr, path)
            vis = visible(spec, target)
            for n, (what, owner) in sorted(vis.items()):
                if what.startswith('sub_'):
                    sub(expr + '.' + n, what, owner, path)
                elif what == 'cls':
                    add('location', expr + '.' + n, path + [owner] if owner != target else path)
                    add('assist-attr', expr + '.' + n, path + [owner] if owner != target else path)
                elif what == 'var' and owner != target:
                    add('location', expr + '.' + n, path + [owner])
            if depth < max_depth:
                for e in spec['modules'][target]['edges']:
                    if e['kind'] in MODULE_ACCESS:
                        walk(expr + '.' + access(spec, e), e['to'], depth + 1, path + [e['to']])

        has_star = False
        for e in m['edges']:
            if e['kind'] in MODULE_ACCESS:
                walk(access(spec, e), e['to'], 1, [mid, e['to']])
            else:
                tv = visible(spec, e['to'])
                if e['kind'] == 'star':
                    has_star = True
                    names = sorted(n for n in tv if not n.startswith('_'))
                else:
                    names = list(e['names'])
                for n in names:
                    what, owner = tv.get(n, ('var', e['to']))
                    path = [mid, e['to']]
                    if what.startswith('sub_'):
                        sub(n, what, owner, path)
                    elif what == 'mod':
                        walk(n, owner, 2, path)
                    elif what == 'cls':
                        add('location', n, path)
                        add('assist-attr', n, path)
                    else:
                        add('location', n, path)
        if has_star:
            add('assist-bare', None, [mid])
            # names whose definedness toggles with the versions of the star-reachable modules
            for t in star_reachable(spec, mid):
                for v in (1, 2):
                    u = ver_name(spec, t, v)
                    if u not in uses:
                        uses.append(u)
                if var_name(spec, t) not in uses:
                    uses.append(var_name(spec, t))
        add('lint', None, [mid])
        m['uses'] = uses
    return probes


def star_reachable(spec, mid):
    out = []
    todo = [mid]
    while todo:
        a = todo.pop(0)
        for b, k in successors(spec, a):
            if k == 'star' and b not in out:
                out.append(b)
                todo.append(b)
    return out


def request_source(spec, probe, text):
    """(source, (line, col)) for a probe on the current text of its file.
    assist: the disk text plus the line being typed; location: cursor inside the last
    identifier of the probe's usage line; lint: the disk text."""
    k = probe['kind']
    nlines = text.count('\n')
    if k == 'assist-attr':
        line = probe['expr'] + '.'
        return text + line + '\n', (nlines + 1, len(line))
    if k == 'assist-bare':
        return text + '\n', (nlines + 1, 0)
    if k == 'location':
        lines = text.split('\n')
        ln = lines.index(probe['expr']) + 1
        return text, (ln, len(probe['expr']) - 1)
    return text, None


# --------------------------------------------------------------------------------------
# fixed 4-module chains for the exhaustive part

def _mod(level, edges=(), pkg=None, init=False, present=True, main=False, shadow=None, broken=False):
    return {'pkg': pkg, 'init': init, 'present': present, 'main': main, 'level': level,
            'edges': [dict(e) for e in edges], 'uses': [], 'shadow': shadow, 'broken': broken}


def _e(kind, to, names=(), rel=False):
    return {'kind': kind, 'to': to, 'names': list(names), 'rel': rel}


def chain_spec(variant, tag):
    """main m imports a, a imports (R) / star-imports (S) b, b re-exports from the package c; d is absent
    at the start and is star-imported (S) / imported (R) by b; s is the sub-module c/K_c.py, absent at the
    start, whose file name equals the class K_c that c/__init__.py defines and b re-exports."""
    T = tag
    kc, cs = 'K_%sc' % T, '%sc_s' % T
    if variant == 'S':
        mods = {
            'm': _mod(0, [_e('star', 'a'), _e('from', 'a', [kc])], main=True),
            'a': _mod(1, [_e('star', 'b')]),
            'b': _mod(2, [_e('from', 'c', [kc, cs]), _e('star', 'd')]),
            'c': _mod(3, pkg='c', init=True),
            'd': _mod(3, present=False),
            's': _mod(4, pkg='c', present=False, shadow=kc),
        }
    elif variant == 'R':
        mods = {
            'm': _mod(0, [_e('import', 'a'), _e('from', 'a', [T + 'b'])], main=True),
            'a': _mod(1, [_e('import', 'b')]),
            'b': _mod(2, [_e('from', 'c', [kc, cs]), _e('import', 'd')]),
            'c': _mod(3, pkg='c', init=True),
            'd': _mod(3, present=False),
            's': _mod(4, pkg='c', present=False, shadow=kc),
        }
    elif variant == 'X':
        # error path: every request on m resolves its star imports in order: a (validated), then w; an armed
        # request fails at the lookup of w
        mods = {
            'm': _mod(0, [_e('star', 'a'), _e('star', 'w')], main=True),
            'a': _mod(1, [_e('import', 'w')]),
            'w': _mod(2),
        }
        spec = {'tag': T, 'modules': mods, 'order': ['m', 'a', 'w']}
        spec['probes'] = build_probes(spec)
        return spec
    elif variant == 'A':
        # a sub-module reached only by attribute access on its package: a does `import p` and uses p.t.K_t as a
        # base class, as an instance attribute source and as a plain read; p/t.py is absent at the start
        mods = {
            'm': _mod(0, [_e('import', 'a')], main=True),
            'a': _mod(1, [_e('attr_sub', 't')]),
            'p': _mod(2, pkg='p', init=True),
            't': _mod(3, pkg='p', present=False),
        }
        spec = {'tag': T, 'modules': mods, 'order': ['m', 'a', 'p', 't']}
        spec['probes'] = build_probes(spec)
        return spec
    elif variant == 'P':
        # package creation: the directory p has modules but no __init__.py at the start; the requested
        # file r lives in it and uses relative imports only
        kh = 'K_%sh' % T
        mods = {
            'r': _mod(0, [_e('from_mod', 'h', rel=True), _e('from', 'h', [kh], rel=True), _e('star', 'h', rel=True)],
                      pkg='p', main=True),
            'p': _mod(1, pkg='p', init=True, present=False),
            'h': _mod(1, pkg='p'),
        }
        spec = {'tag': T, 'modules': mods, 'order': ['r', 'p', 'h']}
        spec['probes'] = build_probes(spec)
        return spec
    else:
        raise ValueError(variant)
    spec = {'tag': T, 'modules': mods, 'order': ['m', 'a', 'b', 'c', 'd', 's']}
    spec['probes'] = build_probes(spec)
    return spec


def chain_alphabet(variant, spec):
    """(modification ops, request ops) of the exhaustive alphabet; requests are ['req', index]"""
    T = spec['tag']

    def req(kind, expr):
        for i, p in enumerate(spec['probes']):
            if p['kind'] == kind and p['expr'] == expr:
                return ['req', i]
        raise AssertionError((kind, expr, [(p['kind'], p['expr']) for p in spec['probes']]))
    if variant == 'X':
        mods = [['rewrite', 'a'], ['touch', 'a'], ['garble', 'w'], ['break', 'w'], ['put', 'w']]
        bare = req('assist-bare', None)
        reqs = [bare, req('assist-attr', 'K_%sa' % T), [bare[0], bare[1], 'lookup', 'w']]
        return mods, reqs
    if variant == 'A':
        a = T + 'a'
        mods = [['put', 't'], ['rewrite', 'a'], ['rewrite', 'p']]
        reqs = [req('assist-attr', '%s.KA_%s' % (a, a)), req('assist-attr', '%s.KB_%s().helper' % (a, a)),
                req('location', '%s.KA_%s.f_%st_s' % (a, a, T))]
        return mods, reqs
    if variant == 'P':
        h = T + 'h'
        mods = [['put', 'p'], ['rewrite', 'h'], ['touch', 'h']]
        reqs = [req('assist-attr', h), req('assist-bare', None), req('location', 'K_%sh' % T), req('lint', None)]
        return mods, reqs
    if variant == 'S':
        mods = [['rewrite', 'a'], ['rewrite', 'b'], ['rewrite', 'c'], ['touch', 'a'], ['touch', 'b'], ['put', 'd'], ['put', 's']]
        reqs = [req('assist-bare', None), req('assist-attr', 'K_%sc' % T), req('location', 'K_%sc' % T),
                req('lint', None)]
    else:
        a, b, d = T + 'a', T + 'b', T + 'd'
        mods = [['rewrite', 'a'], ['rewrite', 'b'], ['rewrite', 'c'], ['touch', 'b'], ['put', 'd'], ['put', 's']]
        reqs = [req('assist-attr', '%s.%s' % (a, b)), req('assist-attr', '%s.%s.K_%sc' % (a, b, T)),
                req('assist-attr', '%s.%s.%s' % (a, b, d)), req('location', '%s.%s.K_%sc' % (a, b, T)),
                req('assist-attr', b)]
    return mods, reqs


def chain_history(mods, reqs, length, index):
    """index-th history of exactly `length` ops that ends in a request (mixed radix decoding)"""
    ops = mods + reqs
    index, r = divmod(index, len(reqs))
    hist = [reqs[r]]
    for _ in range(length - 1):
        index, o = divmod(index, len(ops))
        hist.append(ops[o])
    hist.reverse()
    return hist


def chain_count(mods, reqs, length):
    return len(reqs) * (len(mods) + len(reqs)) ** (length - 1)


MODIFYING = ('rewrite', 'touch', 'put', 'break', 'garble')


def op_code(op):
    """E/T/P/C/R + target; lower case (e/t/p) = the modification moves the mtime backward"""
    if op[0] == 'req' and len(op) >= 4:
        return 'R%s%s%s' % (op[1], '!' if op[2] == 'lookup' else '^', op[3])
    c = {'rewrite': 'E', 'touch': 'T', 'put': 'P', 'create': 'C', 'req': 'R', 'break': 'B', 'garble': 'G'}[op[0]]
    if len(op) > 2 and op[2] == 'b' and op[0] != 'create':
        c = c.lower()
    return c + str(op[1])


def with_directions(hist, rng, p_back=0.5):
    """copy of hist in which every modification carries a seed-determined mtime direction"""
    out = []
    for op in hist:
        if op[0] in MODIFYING:
            out.append([op[0], op[1], 'b' if rng.random() < p_back else 'f'])
        else:
            out.append(list(op))
    return out


def forward_only(hist):
    return [[op[0], op[1], 'f'] if op[0] in MODIFYING else list(op) for op in hist]


# --------------------------------------------------------------------------------------
# random projects and histories

def random_spec(rng, tag):
    total = rng.choice((3, 4, 4, 5, 5, 6, 6))                       # all files: mains + package __init__s + plain modules
    second_main = total >= 5 and rng.random() < 0.3
    nmain = 2 if second_main else 1
    npk = rng.choice((0, 1, 1, 1, 2, 2))
    npk = max(0, min(npk, total - nmain - 2))
    if total - nmain - npk < 2 and npk:
        npk -= 1
    nother = max(2, total - nmain - npk) if total > 3 else 2
    pkgs = ['p', 'q'][:npk]
    ids = list('abcde')[:nother]
    mods = {}
    mods['m'] = _mod(0, main=True)
    if second_main:
        mods['n'] = _mod(0, main=True)
    for p in pkgs:
        mods[p] = _mod(rng.randint(1, 2), pkg=p, init=True)
    levels = [1, 2] + [rng.randint(1, 3) for _ in range(nother - 2)]
    if nother >= 3 and rng.random() < 0.7:
        levels[2] = 3
    rng.shuffle(levels)
    for i, mid in enumerate(ids):
        pkg = rng.choice(pkgs + [None]) if pkgs else None
        mods[mid] = _mod(levels[i], pkg=pkg)
    spec = {'tag': tag, 'modules': mods}
    non_main = [x for x in mods if not mods[x]['main']]
    # one module may be absent at the start (created later)
    cands = [x for x in ids if mods[x]['level'] >= 2] or ids
    if rng.random() < 0.45:
        mods[rng.choice(cands)]['present'] = False

    def kinds_for(src, dst):
        ks = ['import', 'import_as', 'from', 'from', 'star', 'star']
        if mods[dst]['pkg'] and not mods[dst]['init']:
            ks.append('from_mod')
        return ks

    def add_edge(src, dst, kind=None):
        if src == dst:
            return
        if not mods[src]['main'] and any(e['to'] == dst for e in mods[src]['edges']):
            return                                   # one edge per ordered pair below the mains
        if any(e['to'] == dst and e['kind'] == kind for e in mods[src]['edges']):
            return
        kind = kind or rng.choice(kinds_for(src, dst))
        e = _e(kind, dst, rel=rng.random() < 0.5)
        mods[src]['edges'].append(e)
        return e

    by_level = {}
    for x in non_main:
        by_level.setdefault(mods[x]['level'], []).append(x)
    # every non-main module gets an importer on the level above (level 1: a main)
    mains = [x for x in mods if mods[x]['main']]
    for lvl in sorted(by_level):
        for x in by_level[lvl]:
            if lvl == 1:
                srcs = mains
            else:
                srcs = [y for l in range(1, lvl) for y in by_level.get(l, [])]
                srcs = [y for y in srcs if mods[y]['level'] == lvl - 1] or srcs or mains
            add_edge(rng.choice(srcs), x)
    # extra edges downwards
    for _ in range(rng.randint(0, 4)):
        src = rng.choice(list(mods))
        lower = [y for y in non_main if mods[y]['level'] > mods[src]['level']]
        if lower:
            add_edge(src, rng.choice(lower))
    for mn in mains:
        if not mods[mn]['edges']:
            add_edge(mn, rng.choice(by_level[1]))
        # a main often looks at the same module in two ways
        if rng.random() < 0.5:
            e = rng.choice(mods[mn]['edges'])
            add_edge(mn, e['to'], rng.choice([k for k in kinds_for(mn, e['to']) if k != e['kind']]))
    spec['order'] = sorted(mods, key=lambda x: (not mods[x]['main'], mods[x]['level'], x))
    # names of from-edges: deepest first so that re-exports can be picked up
    for x in sorted(mods, key=lambda x: -mods[x]['level']):
        for e in mods[x]['edges']:
            if e['kind'] == 'from':
                vis = sorted(visible(spec, e['to']))
                k = min(len(vis), rng.randint(1, 2))
                e['names'] = rng.sample(vis, k)
    # a sub-module, absent at the start, named like an attribute that a package __init__ defines and that
    # somebody from-imports / star-imports from the package
    feature = rng.choice(('shadow', 'shadow', 'inpkg', 'inpkg', 'attrsub', 'attrsub', 'attrsub', 'none'))
    if len(mods) <= 5 and pkgs and feature == 'shadow':
        cands = []
        for x in sorted(mods):
            for e in mods[x]['edges']:
                if e['to'] in pkgs and e['kind'] in ('from', 'star'):
                    cands.append((x, e))
        if cands:
            x, e = rng.choice(cands)
            pk = e['to']
            attr = rng.choice([cls_name(spec, pk), var_name(spec, pk)])
            if e['kind'] == 'from' and attr not in e['names']:
                e['names'].append(attr)
            mods['s'] = _mod(mods[pk]['level'] + 1, pkg=pk, present=False, shadow=attr)
            spec['order'].append('s')
    # a sub-module that one module reaches ONLY by attribute access on the imported package (import pkg;
    # pkg.t.K_t as base class / instance source / plain read); mostly absent at the start, sometimes present (control)
    if len(mods) <= 5 and pkgs and feature == 'attrsub':
        pk = rng.choice(pkgs)
        users = [x for x in sorted(mods) if not mods[x]['main'] and not mods[x]['init'] and mods[x]['present']
                 and mods[x]['pkg'] != pk and not any(e['to'] == pk for e in mods[x]['edges'])]
        if users:
            x = rng.choice(users)
            mods['t'] = _mod(mods[x]['level'] + 1, pkg=pk, present=rng.random() < 0.35)
            mods[x]['edges'].append(_e('attr_sub', 't'))
            spec['order'].append('t')
    # a requested file INSIDE a package directory that uses relative imports only; in most cases the
    # directory is not a package yet (its __init__.py is absent at the start and created later)
    if len(mods) <= 5 and pkgs and feature == 'inpkg':
        pk = rng.choice(pkgs)
        members = [x for x in sorted(mods) if mods[x]['pkg'] == pk and not mods[x]['init']
                   and not mods[x].get('shadow') and not mods[x]['main']]
        if members:
            edges = []
            for t in rng.sample(members, min(len(members), rng.randint(1, 2))):
                for k in rng.sample(['from_mod', 'from', 'star'], rng.randint(1, 3)):
                    names = [rng.choice([cls_name(spec, t), var_name(spec, t)])] if k == 'from' else []
                    edges.append(_e(k, t, names, rel=True))
            mods['r'] = _mod(0, edges, pkg=pk, main=True)
            spec['order'].append('r')
            if rng.random() < 0.7:
                mods[pk]['present'] = False
    spec['probes'] = build_probes(spec)
    return spec


def random_history(rng, spec, max_len=40):
    mods = spec['modules']
    present = {x for x in mods if mods[x]['present']}
    absent = [x for x in mods if not mods[x]['present']]
    breakable = sorted(x for x in present if not mods[x]['main'])
    broken = set(x for x in present if mods[x].get('broken'))
    n = rng.randint(6, max_len)
    probes = spec['probes']
    nprobes = len(probes)
    favourites = [rng.randrange(nprobes) for _ in range(3)]

    def direction():
        return 'b' if rng.random() < 0.4 else 'f'

    def probe_on(mid):
        c = [i for i, p in enumerate(probes) if p['file'] == mid]
        return rng.choice(c) if c else rng.randrange(nprobes)
    hist = []
    for i in range(n):
        r = rng.random()
        if i == 0 or r < 0.45 or i == n - 1:
            p = rng.choice(favourites) if rng.random() < 0.6 else rng.randrange(nprobes)
            hist.append(['req', p])
        elif r < 0.55 and absent:
            x = absent.pop(rng.randrange(len(absent)))
            present.add(x)
            inside = [m for m in mods if mods[x]['init'] and mods[m]['main'] and mods[m]['pkg'] == x]
            if inside:
                # a package comes into being: ask through the file inside it before and after
                hist.append(['req', probe_on(inside[0])])
                hist.append(['create', x])
                hist.append(['req', probe_on(inside[0])])
            else:
                hist.append(['create', x])
        elif r < 0.60 and breakable:
            x = rng.choice(breakable)
            broken.add(x)
            hist.append([rng.choice(('break', 'garble')), x, direction()])
        elif r < 0.70 and broken:
            x = rng.choice(sorted(broken))
            broken.discard(x)
            hist.append(['rewrite', x, direction()])
        elif r < 0.90:
            x = rng.choice(sorted(present))
            broken.discard(x)
            hist.append(['rewrite', x, direction()])
        else:
            hist.append(['touch', rng.choice(sorted(present)), direction()])
    # armed requests: (probe on F, module y whose lookup fails) such that F's own analysis validates another
    # module z first (star imports are resolved in order before anything is evaluated) and then looks y up
    armable = []
    for fmid in mods:
        if not mods[fmid]['main']:
            continue
        edges = mods[fmid]['edges']
        stars = [k for k, e in enumerate(edges) if e['kind'] == 'star' and mods[e['to']]['present']]
        for k, e in enumerate(edges):
            y = e['to']
            if not mods[y]['present'] or mods[y]['main']:
                continue
            for ks in stars:
                z = edges[ks]['to']
                if z == y:
                    continue
                if e['kind'] == 'star':
                    if ks < k:
                        for i, p in enumerate(probes):
                            if p['file'] == fmid:
                                armable.append((i, y, z))
                else:
                    for i, p in enumerate(probes):
                        if p['file'] == fmid and len(p['path']) >= 2 and p['path'][1] == y and p['kind'] in ('assist-attr', 'location'):
                            armable.append((i, y, z))
    if armable:
        # sprinkle a few armed requests
        for _ in range(rng.randint(0, 2)):
            i, y, z = rng.choice(armable)
            hist.insert(rng.randint(1, len(hist)), ['req', i, 'lookup', y])
        # planted error-path episode: a request on F succeeds, the armed one validates z and fails at the lookup
        # of y (on both projects), z is rewritten, the next request on F must show the new z
        if rng.random() < 0.5:
            i, y, z = rng.choice(armable)
            fmid = probes[i]['file']
            bare = [k for k, p in enumerate(probes) if p['file'] == fmid and p['kind'] in ('assist-bare', 'lint')]
            q = rng.choice(bare) if bare else i
            episode = [['req', q], ['req', i, 'lookup', y], ['rewrite', z, direction()], ['req', q]]
            if rng.random() < 0.2:
                # the fault in the analysis of z instead (reached only where z is analysed anew)
                episode = [['req', q], ['rewrite', z, direction()], ['req', q, 'scope', z], ['rewrite', z, direction()], ['req', q]]
            at = rng.randint(0, len(hist))
            hist[at:at] = episode
    # planted broken-file episode (ordinary compared steps): request through x..y, y saved broken, request,
    # x rewritten, request through x, y repaired, request
    deep = [i for i, p in enumerate(probes) if len(p['path']) >= 3 and p['kind'] != 'lint'
            and all(mods[z]['present'] for z in p['path']) and not mods[p['path'][-1]]['main']]
    if deep and rng.random() < 0.2:
        pi = rng.choice(deep)
        path = probes[pi]['path']
        x, y = path[1], path[-1]
        shallow = [i for i, p in enumerate(probes) if p['file'] == path[0] and p['path'] == path[:2] and p['kind'] == 'assist-attr']
        q = rng.choice(shallow) if shallow else pi
        episode = [['req', pi], [rng.choice(('garble', 'break')), y, direction()], ['req', pi], ['rewrite', x, direction()], ['req', q],
                   ['rewrite', y, direction()], ['req', pi]]
        at = rng.randint(0, len(hist))
        hist[at:at] = episode
    return hist
