"""Generator of Python sources that vary the *layout of bindings* (property C11).

Every generated text is valid Python (checked with ast.parse by the caller via `generate`),
ASCII only, and every import refers to a real module: either the standard library or one of
the small project modules of `TREE`, which the caller writes into a scratch directory and
passes to supp as `Project([root])`.

What is varied (feature tags are recorded per case):
  multi-name imports, parenthesised single/multi-line imports with comments (that may spell
  names of the statement), aliases equal to a module / member name, decorated and async
  definitions, extra spaces / tabs / backslash continuations after def/class and between any
  two tokens, several statements per line (with reads before a same-line binding inside loops,
  lambdas and comprehensions), nested tuple / list / starred targets, for / with / except /
  comprehension / walrus / annotated / global bindings, form feeds and other characters that
  str.splitlines() treats as line ends but the tokenizer does not, CRLF line ends, missing
  final newline.
"""
import ast
import os
import warnings

# ----------------------------------------------------------------------------------------
# project modules (relative path -> text); all names are real so that every import resolves

TREE = {
    'vfp/__init__.py': 'from .alpha import alpha\nbeta = 2\nvfp = 0\n',
    'vfp/alpha.py': 'def alpha():\n    return 1\n\n\nab = 1\nb = 2\nc = 3\nd = 4\n',
    'vfp/vfp.py': 'vfp = 1\nx = 2\n',
    'vfp/sub/__init__.py': 'leaf = 0\nsub = 1\n',
    'vfp/sub/leaf.py': 'def leaf():\n    pass\n\n\nclass Leaf(object):\n    pass\n\n\ny = 1\n',
    'ab.py': 'ab = 1\nb = 2\na = 3\nabc = 4\n',
    'b.py': 'b = 1\nab = 2\nc = 3\n',
    'c.py': 'c = 1; a = 2; b = 3\n',
    'a/__init__.py': 'b = 0\na = 1\n',
    'a/b.py': 'a = 1\nc = 2\n\n\ndef b():\n    return a\n',
    'x/__init__.py': 'y = 0\n',
    'x/y.py': 'x = 1\nz = 2\n',
}



def _wide(n_lines=140):
    """a module with several statements per line and long lines: every line binds names at columns 0..90
    -> (text, {line: [(name, col), ...]}).  Deterministic."""
    lines, table = [], {}
    for ln in range(1, n_lines + 1):
        a, b, c = 'w%da' % ln, 'w%db' % ln, 'w%dc' % ln
        g1 = ' ' * (3 + (ln * 7) % 23)
        g2 = ' ' * (1 + (ln * 5) % 31)
        form = ln % 5
        if form == 0:
            text = '_p = %d;%s%s = 1;%s%s = "x" * 3;%s%s = [%s, 2]' % (ln, g1, a, g2, b, g1, c, a)
        elif form == 1:
            text = 'def%s%s%s(): pass' % (g1, g2, a)
        elif form == 2:
            text = 'class%s%s%s%s: pass' % (g2, g1, g2, a)
        elif form == 3:
            text = '(%s,%s%s) = 1, 2;%s%s%s = %s' % (a, g1, b, g2, g1, c, a)
        else:
            text = '%s = %d;%s%s%s%s = %s = str if %s else bytes' % (a, ln, g1, g2, g2, b, c, a)
        lines.append(text)
        found = []
        for nm in (a, b, c):
            i = text.find(nm)
            if i >= 0:
                found.append((nm, i))
        table[ln] = found
    return '\n'.join(lines) + '\n', table


WIDE_TEXT, WIDE_TABLE = _wide()
TREE['wide.py'] = WIDE_TEXT
TREE['shim.py'] = 'import sys\nPY3 = sys.version_info[0] >= 3; text_type = str if PY3 else bytes\n'

# (module, members importable with `from module import member`)
MODULES = [
    ('os', ['path', 'sep', 'getcwd', 'environ']),
    ('os.path', ['join', 'exists', 'dirname']),
    ('time', ['time', 'sleep']),
    ('glob', ['glob', 'iglob']),
    ('copy', ['copy', 'deepcopy']),
    ('pprint', ['pprint', 'pformat']),
    ('datetime', ['datetime', 'date']),
    ('textwrap', ['dedent', 'wrap']),
    ('fnmatch', ['fnmatch', 'filter']),
    ('bisect', ['bisect', 'insort']),
    ('json', ['dumps', 'loads', 'decoder']),
    ('abc', ['ABC', 'abstractmethod']),
    ('collections.abc', ['Mapping', 'Sequence']),
    ('xml.dom.minidom', ['parse', 'Node']),
    ('vfp', ['alpha', 'beta', 'vfp', 'sub']),
    ('vfp.alpha', ['alpha', 'ab', 'b', 'c', 'd']),
    ('vfp.vfp', ['vfp', 'x']),
    ('vfp.sub', ['leaf', 'sub']),
    ('vfp.sub.leaf', ['leaf', 'Leaf', 'y']),
    ('ab', ['ab', 'b', 'a', 'abc']),
    ('b', ['b', 'ab', 'c']),
    ('c', ['c', 'a', 'b']),
    ('a', ['b', 'a']),
    ('a.b', ['a', 'c', 'b']),
    ('x', ['y']),
    ('x.y', ['x', 'z']),
]
# relative forms usable from a file inside package vfp
REL_MODULES = [
    ('.', ['alpha', 'vfp', 'sub']),
    ('.alpha', ['alpha', 'ab', 'b', 'c', 'd']),
    ('.vfp', ['vfp', 'x']),
    ('.sub', ['leaf', 'sub']),
    ('.sub.leaf', ['leaf', 'Leaf', 'y']),
]

NAMES = ['a', 'b', 'c', 'ab', 'abc', 'd', 'de', 'e', 'f', 'fo', 'foo', 'g', 'i', 'im', 'n', 'x', 'y', 'xs',
         'val', 'item', 'os', 'path', 'time', 'glob', 'leaf', 'alpha', 'vfp', 'sync', 'cl', 'mod', 'k', 'v',
         'fr', 'ef', 'la', 'res', 'tmp', 'w', 'z', 'q']
DEF_NAMES = ['f', 'g', 'd', 'de', 'fo', 'foo', 'run', 'a', 'ab', 'b', 'sync', 'ef', 'c', 'cl', 'make', 'h', 'x']
CLASS_NAMES = ['C', 'Cl', 'A', 'Ab', 'Foo', 'c', 'cl', 'la', 'lass', 'K', 'Base']
WORDS = ['noqa', 'todo', 'see', 'below', 'legacy', 'was', 'also', 'fixme', 'and', 'keep']
SPLIT_ONLY = ['\x0c', '\x0c', '\x0c', '\x0b', '\x1c', '\x1d', '\x1e']   # splitlines() breaks here, the tokenizer does not


def write_tree(root, tree=None):
    for rel, text in (tree or TREE).items():
        p = os.path.join(root, *rel.split('/'))
        os.makedirs(os.path.dirname(p), exist_ok=True)
        with open(p, 'w') as f:
            f.write(text)


class Gen(object):
    def __init__(self, rng, in_pkg):
        self.r = rng
        self.in_pkg = in_pkg
        self.feat = set()
        self.bound = ['xs', 'val']      # names that reads may mention
        self.budget = rng.randint(6, 40)  # statements
        self.late = ['late', 'zq']      # bound at the very end of the module, read from function bodies before

    # -- whitespace ---------------------------------------------------------------------
    def sp(self, cont=True):
        """mandatory whitespace between two tokens"""
        x = self.r.random()
        if x < 0.74:
            return ' '
        if x < 0.82:
            return '  ' if x < 0.79 else '   '
        if x < 0.88:
            self.feat.add('tab-between-tokens')
            return '\t'
        if x < 0.91:
            self.feat.add('tab-between-tokens')
            return self.r.choice([' \t', '\t '])
        if cont:
            self.feat.add('backslash-continuation')
            return self.r.choice([' ', '', '  ']) + '\\\n' + self.r.choice(['', '', ' ', '    ', '        ', '\t'])
        return ' '

    def osp(self):
        """optional whitespace"""
        x = self.r.random()
        if x < 0.62:
            return ''
        if x < 0.9:
            return ' '
        return '  '

    def comma(self):
        return self.osp() + ',' + (self.osp() if self.r.random() < 0.3 else ' ')

    def name(self):
        return self.r.choice(NAMES)

    def fresh(self, k, pool=NAMES):
        return self.r.sample(pool, k)

    def bind(self, *names):
        for n in names:
            if n not in self.bound:
                self.bound.append(n)

    def comment(self, mention=()):
        """comment text; may spell identifiers of the current statement surrounded by blanks"""
        r = self.r
        x = r.random()
        if mention and x < 0.6:
            m = list(mention)
            r.shuffle(m)
            m = m[:r.randint(1, 2)]
            self.feat.add('comment-mentions-name')
            form = r.random()
            if form < 0.4:
                return '# ' + ', '.join(m)
            if form < 0.7:
                return '# ' + r.choice(WORDS) + ' ' + ' '.join(m) + ' ' + r.choice(WORDS)
            return '#' + r.choice(['', ' ']) + m[0]
        return '# ' + ' '.join(r.choice(WORDS) for _ in range(r.randint(1, 3)))

    # -- expressions ----------------------------------------------------------------------
    def value(self):
        r = self.r
        x = r.random()
        if x < 0.35:
            return str(r.randint(0, 99))
        if x < 0.6:
            return r.choice(self.bound)
        if x < 0.8:
            return 'val(%s)' % r.choice(self.bound)
        if x < 0.9:
            return '[%s, %s]' % (r.choice(self.bound), r.randint(0, 9))
        return repr(r.choice(['s', 'import os', ' ab ', 'def f', '# c']))

    def read(self, names=None):
        r = self.r
        if names is None:
            names = r.sample(self.bound, min(len(self.bound), r.randint(1, 3)))
            if r.random() < 0.2:
                names.append(r.choice(self.late))
        return 'print(' + self.osp() + self.comma().join(names) + self.osp() + ')'

    # -- targets --------------------------------------------------------------------------
    def pname(self, n, p=0.14):
        """a target name, sometimes in (redundant) parentheses: on one line, with inner blanks, spanning lines"""
        r = self.r
        if r.random() >= p:
            return n
        self.feat.add('parenthesised-target')
        x = r.random()
        if x < 0.35:
            out = '(' + n + ')'
        elif x < 0.6:
            out = '(' + r.choice([' ', '  ', '\t']) + n + r.choice([' ', '', '  ']) + ')'
        elif x < 0.7:
            out = '((' + self.osp() + n + ')' + self.osp() + ')'
        else:
            self.feat.add('parenthesised-target-multiline')
            c = ('  ' + self.comment([n])) if r.random() < 0.3 else ''
            out = '(' + c + '\n' + ' ' * r.randint(0, 8) + n + (('  ' + self.comment([n])) if r.random() < 0.2 else '') + \
                '\n' + ' ' * r.randint(0, 6) + ')'
        return out

    def target(self, depth=0, allow_bare=True, p_simple=0.55):
        """-> (text, [names])"""
        r = self.r
        if depth > 0 and r.random() < 0.7 or depth == 0 and r.random() < p_simple:
            n = self.name()
            return self.pname(n), [n]
        k = r.randint(2, 4)
        names_used = []
        parts = []
        star_at = r.randrange(k) if r.random() < 0.3 else -1
        for j in range(k):
            if j == star_at:
                n = self.name()
                parts.append('*' + (' ' if r.random() < 0.1 else '') + self.pname(n, 0.08))
                names_used.append(n)
                self.feat.add('starred-target')
            elif depth < 2 and r.random() < 0.3:
                t, ns = self.target(depth + 1, allow_bare=False, p_simple=0.0)
                parts.append(t)
                names_used += ns
                self.feat.add('nested-tuple-target')
            else:
                n = self.name()
                parts.append(self.pname(n))
                names_used.append(n)
        # distinct names only (a, a = ... is legal but pointless)
        if len(set(names_used)) != len(names_used):
            return self.target(depth, allow_bare, p_simple)
        br = r.choice(['()', '[]']) if (depth > 0 or not allow_bare or r.random() < 0.4) else None
        if br and r.random() < 0.25:
            # multi-line inside brackets, optionally with comments spelling later names
            self.feat.add('multiline-target')
            out = br[0]
            for j, p in enumerate(parts):
                c = ''
                if r.random() < 0.4:
                    c = '  ' + self.comment(names_used)
                out += c + '\n' + ' ' * r.randint(0, 8) + p + self.osp() + ','
            out += '\n' + ' ' * r.randint(0, 4) + br[1]
            self.feat.add('tuple-target')
            return out, names_used
        body = self.comma().join(parts)
        self.feat.add('tuple-target')
        if br:
            return br[0] + self.osp() + body + self.osp() + br[1], names_used
        return body, names_used

    # -- imports --------------------------------------------------------------------------
    def alias_for(self, mod, member=None):
        """-> alias or None, recording alias-equals-* features"""
        r = self.r
        x = r.random()
        if x < 0.55:
            return None
        if x < 0.75:
            return self.name()
        parts = mod.strip('.').split('.') if mod.strip('.') else []
        if member is None:
            # import a.b as a / as b
            if parts:
                self.feat.add('alias-equals-module')
                return r.choice(parts)
            return self.name()
        if x < 0.88 and parts:
            self.feat.add('alias-equals-module')
            return r.choice(parts)
        self.feat.add('alias-equals-member')
        return member

    def dotted(self, mod):
        """module path, rarely with blanks / a continuation around the dots"""
        r = self.r
        if '.' in mod.strip('.') and r.random() < 0.12:
            self.feat.add('spaced-dotted-name')
            parts = mod.split('.')
            out = parts[0]
            for p in parts[1:]:
                x = r.random()
                if x < 0.4:
                    self.feat.add('backslash-continuation')
                    out += '\\\n' + r.choice(['', ' ']) + '.' + p
                elif x < 0.7:
                    out += ' .' + p
                else:
                    out += '. ' + p
            return out
        return mod

    def import_stmt(self):
        r = self.r
        k = r.choice([1, 1, 2, 2, 3, 4])
        mods = [m for m, _ in r.sample(MODULES, k)]
        items, bound = [], []
        for m in mods:
            a = self.alias_for(m)
            if a:
                items.append(self.dotted(m) + self.sp() + 'as' + self.sp() + a)
                bound.append(a)
            else:
                items.append(self.dotted(m))
                bound.append(m.split('.')[0])
        if k > 1:
            self.feat.add('multi-name-import')
        self.bind(*bound)
        return 'import' + self.sp() + self.comma().join(items)

    def from_stmt(self):
        r = self.r
        pool = MODULES + (REL_MODULES * 3 if self.in_pkg else [])
        mod, members = r.choice(pool)
        if mod.startswith('.'):
            self.feat.add('relative-import')
        k = r.randint(1, min(4, len(members)))
        names = r.sample(members, k)
        items, bound = [], []
        for n in names:
            a = self.alias_for(mod, n)
            if a and a != n or (a == n and r.random() < 0.5):
                items.append(n + self.sp() + 'as' + self.sp() + a)
                bound.append(a)
            else:
                items.append(n)
                bound.append(n)
            if n in mod.strip('.').split('.'):
                self.feat.add('member-equals-module')
        if k > 1:
            self.feat.add('multi-name-import')
        self.bind(*bound)
        if mod == '.':
            modtext = '.'
        else:
            modtext = self.dotted(mod)
        head = 'from' + self.sp() + modtext + self.sp() + 'import'
        style = r.choice(['plain', 'plain', 'paren1', 'parenN', 'parenN'])
        if style == 'plain':
            return head + self.sp() + self.comma().join(items)
        if style == 'paren1':
            self.feat.add('parenthesised-import')
            tail = self.osp() + ',' if r.random() < 0.3 else ''
            return head + self.osp() + '(' + self.osp() + self.comma().join(items) + tail + self.osp() + ')'
        self.feat.add('parenthesised-multiline-import')
        out = head + self.osp() + '('
        # optional names on the opening line
        i = 0
        if r.random() < 0.3:
            out += self.osp() + items[0] + self.osp() + ','
            i = 1
            if i == len(items):
                out += self.osp()
        while i < len(items):
            c = ''
            if r.random() < 0.5:
                c = r.choice(['  ', ' ']) + self.comment(bound[i:])
                self.feat.add('import-comment')
            out += c + '\n' + r.choice(['', '    ', '    ', '        ', '\t', ' '])
            n_here = 1 if r.random() < 0.7 else 2
            chunk = items[i:i + n_here]
            i += n_here
            out += self.comma().join(chunk)
            last = i >= len(items)
            if not last or r.random() < 0.5:
                out += self.osp() + ','
        x = r.random()
        if x < 0.5:
            c = ''
            if r.random() < 0.3:
                c = '  ' + self.comment(bound)
            out += c + '\n' + r.choice(['', '    ', ' ']) + ')'
        else:
            out += self.osp() + ')'
        return out

    # -- simple statements ----------------------------------------------------------------
    def assign(self):
        r = self.r
        x = r.random()
        if x < 0.12:
            n = self.name()
            self.bind(n)
            self.feat.add('annotated-assignment')
            return self.pname(n, 0.25) + self.osp() + ':' + self.osp() + 'int' + self.osp() + '=' + self.osp() + self.value()
        if x < 0.22:
            n = self.name()
            self.feat.add('walrus')
            s = 'print(' + self.osp() + '(' + self.osp() + n + self.osp() + ':=' + self.osp() + self.value() + self.osp() + ')' + self.comma() + n + ')'
            self.bind(n)
            return s
        if x < 0.34:
            n = r.choice(self.bound) if r.random() < 0.6 else self.name()
            self.feat.add('augmented-assignment')
            self.bind(n)
            return self.pname(n, 0.4) + self.osp() + r.choice(['+=', '-=', '*=', '|=', '//=', '>>=']) + self.osp() + self.value()
        if x < 0.38:
            self.feat.add('del-statement')
            ns = r.sample(self.bound, min(len(self.bound), r.randint(1, 2)))
            return 'del' + self.sp() + self.comma().join(self.pname(n, 0.4) for n in ns)
        chain = 1 if x < 0.8 else r.randint(2, 3)
        out = ''
        bound = []
        for _ in range(chain):
            t, ns = self.target()
            bound += ns
            out += t + self.osp() + '=' + self.osp()
        if chain > 1:
            self.feat.add('chained-assignment')
        out += self.value()
        self.bind(*bound)
        return out

    def lambda_stmt(self):
        r = self.r
        n = self.name()
        self.feat.add('lambda-params')
        ps = self.params(lam=True)
        s = n + self.osp() + '=' + self.osp() + 'lambda' + (self.sp(cont=False) + ps if ps else '') + self.osp() + ':' + self.osp()
        body = r.choice(self.bound)
        later = None
        if r.random() < 0.5:
            later = self.name()
            body = later
        s += body
        self.bind(n)
        if later:
            # the lambda body reads a name bound further right on the same line
            self.feat.add('cursor-before-binding-same-line')
            self.feat.add('several-statements-per-line')
            s += self.semi() + later + self.osp() + '=' + self.osp() + self.value()
            self.bind(later)
        return s

    def comp_stmt(self):
        r = self.r
        n = self.name()
        t, ns = self.target(p_simple=0.6)
        self.feat.add('comprehension-target')
        elt = r.choice(ns)
        kind = r.choice(['[]', '()', '{}', '{:}'])
        nl = (lambda: ' ') if r.random() < 0.8 else (lambda: r.choice([' ', '\n' + ' ' * r.randint(0, 8)]))
        src = r.choice(self.bound)
        body = elt if kind != '{:}' else elt + self.osp() + ':' + self.osp() + r.choice(ns)
        out = body + nl() + 'for' + self.sp(cont=False) + t + self.sp(cont=False) + 'in' + self.sp(cont=False) + src
        if r.random() < 0.3:
            out += nl() + 'if' + ' ' + r.choice(ns)
        if r.random() < 0.25:
            t2, ns2 = self.target(p_simple=0.7)
            out += nl() + 'for ' + t2 + ' in ' + r.choice(ns)
        self.feat.add('cursor-before-binding-same-line')
        op, cl = ('{', '}') if kind in ('{}', '{:}') else (kind[0], kind[1])
        self.bind(n)
        return n + self.osp() + '=' + self.osp() + op + self.osp() + out + self.osp() + cl

    def semi(self):
        return self.r.choice([';', '; ', '; ', ' ; ', ';  '])

    def simple(self, in_func):
        r = self.r
        self.budget -= 1
        x = r.random()
        if x < 0.2:
            return self.import_stmt()
        if x < 0.42:
            return self.from_stmt()
        if x < 0.62:
            return self.assign()
        if x < 0.72:
            return self.read()
        if x < 0.8:
            return self.comp_stmt()
        if x < 0.86:
            return self.lambda_stmt()
        if x < 0.92 and in_func:
            n = self.name()
            self.feat.add('global-declared')
            self.bind(n)
            return 'global' + self.sp() + n + self.semi() + n + self.osp() + '=' + self.osp() + self.value()
        return self.assign()

    def simple_line(self, in_func, max_n=3):
        """1..max_n simple statements joined by ';' (no indent, no newline)"""
        r = self.r
        k = 1 if r.random() < 0.6 else r.randint(2, max_n)
        parts = [self.simple(in_func) for _ in range(k)]
        if k > 1:
            self.feat.add('several-statements-per-line')
        s = self.semi().join(parts)
        if r.random() < 0.08:
            s += self.osp() + ';'
        if r.random() < 0.2:
            s += r.choice(['  ', ' ', '']) + self.comment(r.sample(self.bound, min(2, len(self.bound))))
        return s

    # -- definitions ------------------------------------------------------------------------
    def params(self, lam=False):
        r = self.r
        k = r.choice([0, 1, 1, 2, 2, 3, 4])
        names = self.fresh(min(k + 3, len(NAMES)))
        it = iter(names)
        parts = []
        n_pos = r.randint(0, k)
        had_default = False
        for _ in range(n_pos):
            p = next(it)
            if not lam and r.random() < 0.2:
                p += self.osp() + ':' + self.osp() + 'int'
            if had_default or r.random() < 0.3:
                had_default = True
                p += (self.osp() if ':' not in p else ' ') + '=' + (self.osp() if ':' not in p else ' ') + str(r.randint(0, 9))
            parts.append(p)
        rest = k - n_pos
        star = False
        if rest > 0 and r.random() < 0.6:
            parts.append('*' + (' ' if r.random() < 0.1 else '') + next(it))
            star = True
            rest -= 1
            self.feat.add('star-params')
        if rest > 0 and r.random() < 0.5:
            if not star:
                parts.append('*')
            p = next(it)
            if r.random() < 0.5:
                p += '=' + str(r.randint(0, 9))
            parts.append(p)
            rest -= 1
            self.feat.add('kwonly-params')
        if rest > 0:
            parts.append('**' + next(it))
            self.feat.add('star-params')
        self.bind(*[])
        if not lam and len(parts) > 1 and r.random() < 0.2:
            self.feat.add('multiline-params')
            out = ''
            for j, p in enumerate(parts):
                c = ''
                if r.random() < 0.3:
                    c = '  ' + self.comment([q.strip('* ').split(':')[0].split('=')[0].strip() for q in parts[j:]])
                out += (c + '\n' + ' ' * r.randint(0, 12) if j or r.random() < 0.5 else '') + p + self.osp() + (',' if j < len(parts) - 1 or r.random() < 0.3 else '')
            return out
        return self.osp() + self.comma().join(parts) + self.osp() if parts else self.osp()

    def defsep(self, what):
        """whitespace between def/class and the name"""
        r = self.r
        x = r.random()
        if x < 0.6:
            return ' '
        if x < 0.72:
            self.feat.add(what + '-extra-spaces')
            return r.choice(['  ', '   ', '      '])
        if x < 0.84:
            self.feat.add(what + '-tab')
            return '\t'
        if x < 0.9:
            self.feat.add(what + '-tab')
            return r.choice([' \t', '\t ', '\t\t'])
        self.feat.add(what + '-continuation')
        self.feat.add('backslash-continuation')
        return r.choice([' ', '']) + '\\\n' + r.choice(['', '', ' ', '    ', '\t'])

    def unit(self):
        return self.r.choice(['    ', '    ', '    ', '  ', '\t', ' ', '        '])

    def suite(self, indent, depth, in_func, in_async=False, in_class=False, pre=None):
        """text after the ':' of a compound statement, ends with newline"""
        r = self.r
        if r.random() < 0.3 or depth >= 3 or self.budget <= 0:
            body = pre + self.semi() if pre else ''
            body += self.simple_line(in_func, 2) if r.random() < 0.8 else 'pass'
            return self.osp() + body + '\n'
        ind = indent + self.unit()
        out = ''
        if r.random() < 0.15:
            out += '  ' + self.comment(r.sample(self.bound, min(2, len(self.bound))))
        out += '\n'
        if pre:
            out += ind + pre + '\n'
        n = r.randint(1, 4)
        for _ in range(n):
            out += self.statement(ind, depth + 1, in_func, in_async, in_class)
            if self.budget <= 0:
                break
        return out

    def funcdef(self, indent, depth, in_async=False, in_class=False):
        r = self.r
        self.budget -= 1
        out = ''
        for _ in range(r.choice([0, 0, 0, 1, 1, 2])):
            self.feat.add('decorated-definition')
            d = r.choice(['deco', 'deco', 'deco2(1)', 'staticmethod' if in_class else 'deco'])
            out += indent + '@' + self.osp() + d + ('  ' + self.comment([]) if r.random() < 0.1 else '') + '\n'
        is_async = r.random() < 0.25
        name = r.choice(DEF_NAMES)
        kw = 'def'
        if is_async:
            self.feat.add('async-definition')
            kw = 'async' + self.sp() + 'def'
        sep = self.defsep('def')
        ps = self.params()
        ret = ''
        if r.random() < 0.15:
            ret = self.osp() + '->' + self.osp() + 'int'
        saved = list(self.bound)
        argnames = [q for q in _param_names(ps)]
        self.bound = saved + argnames
        head = indent + kw + sep + name + self.osp() + '(' + ps + ')' + ret + self.osp() + ':'
        body = self.suite(indent, depth, True, in_async=is_async, in_class=False)
        self.bound = saved
        self.bind(name)
        return out + head + body

    def classdef(self, indent, depth):
        r = self.r
        self.budget -= 1
        out = ''
        for _ in range(r.choice([0, 0, 0, 1])):
            self.feat.add('decorated-definition')
            out += indent + '@' + self.osp() + 'deco' + '\n'
        name = r.choice(CLASS_NAMES)
        sep = self.defsep('class')
        bases = ''
        x = r.random()
        if x < 0.4:
            bases = self.osp() + '(' + self.osp() + r.choice(['object', 'Base0', 'Base0, object']) + self.osp() + ')'
        elif x < 0.5:
            bases = self.osp() + '()'
        head = indent + 'class' + sep + name + bases + self.osp() + ':'
        saved = list(self.bound)
        body = self.suite(indent, depth, False, in_class=True)
        self.bound = saved
        self.bind(name)
        return out + head + body

    def rebinding(self, n, v):
        """`n = v` in one of its spellings (plain, parenthesised, augmented, annotated is not allowed for globals)"""
        r = self.r
        x = r.random()
        if x < 0.55:
            return self.pname(n, 0.2) + self.osp() + '=' + self.osp() + v
        if x < 0.8:
            self.feat.add('augmented-assignment')
            return self.pname(n, 0.3) + self.osp() + r.choice(['+=', '-=', '*=']) + self.osp() + v
        m = self.name()
        return m + self.comma() + self.pname(n, 0.2) + self.osp() + '=' + self.osp() + v + ', ' + v

    def declared_block(self, indent):
        """bindings made through global / nonlocal declarations, on lines with several statements where a read
        of the name stands LEFT of the binding; further reads on other lines (inside and outside the scope)"""
        r = self.r
        self.gid = getattr(self, 'gid', 0) + 1
        k = self.gid
        u = self.unit()
        i1, i2 = indent + u, indent + u + u
        x = r.random()
        if x < 0.5:
            self.feat.add('global-in-function-same-line-read')
            g = 'gv%d' % k
            fn = r.choice(['bump', 'tick', 'd', 'upd']) + str(k)
            out = indent + g + self.osp() + '=' + self.osp() + '0\n' if r.random() < 0.6 else ''
            out += indent + 'def' + self.sp(cont=False) + fn + '(step):\n'
            line = self.read([g]) + self.semi() + self.rebinding(g, 'step')
            if r.random() < 0.5:
                out += i1 + 'global' + self.sp() + g + '\n' + i1 + line + '\n'
            else:
                out += i1 + 'global' + self.sp() + g + self.semi() + line + '\n'
            if r.random() < 0.6:
                out += i1 + self.read([g, 'step']) + '\n'
            if r.random() < 0.4:
                out += i1 + 'return' + self.sp(cont=False) + g + '\n'
            out += indent + self.read([g, fn]) + '\n'
            self.bind(g, fn)
            return out
        if x < 0.72:
            self.feat.add('global-in-class-body-same-line-read')
            g = 'cg%d' % k
            cn = 'G%d' % k
            out = indent + g + ' = 0\n' if r.random() < 0.5 else ''
            out += indent + 'class' + self.sp(cont=False) + cn + self.osp() + ':\n'
            line = 'global' + self.sp() + g + self.semi() + self.read([g]) + self.semi() + self.rebinding(g, '1')
            out += i1 + line + '\n'
            if r.random() < 0.5:
                out += i1 + 'attr' + self.osp() + '=' + self.osp() + g + self.semi() + self.rebinding(g, '2') + '\n'
            out += indent + self.read([g, cn]) + '\n'
            self.bind(g, cn)
            return out
        self.feat.add('nonlocal-same-line-read')
        g = 'nl%d' % k
        fo, fi = 'outer%d' % k, 'inner%d' % k
        out = indent + 'def' + self.sp(cont=False) + fo + '():\n'
        out += i1 + g + self.osp() + '=' + self.osp() + '0\n'
        out += i1 + 'def' + self.sp(cont=False) + fi + '(step=1):\n'
        line = self.read([g]) + self.semi() + self.rebinding(g, 'step')
        if r.random() < 0.5:
            out += i2 + 'nonlocal' + self.sp() + g + '\n' + i2 + line + '\n'
        else:
            out += i2 + 'nonlocal' + self.sp() + g + self.semi() + line + '\n'
        if r.random() < 0.5:
            out += i2 + self.read([g]) + '\n'
        out += i1 + self.read([g, fi]) + self.semi() + self.rebinding(g, '5') + '\n'
        out += i1 + 'return' + self.sp(cont=False) + fi + '\n'
        out += indent + self.read([fo]) + '\n'
        self.bind(fo)
        return out

    # -- compound statements ------------------------------------------------------------------
    def statement(self, indent, depth, in_func, in_async=False, in_class=False):
        r = self.r
        if self.budget <= 0:
            return indent + 'pass\n'
        x = r.random()
        if x < 0.38 or depth >= 4:
            return indent + self.simple_line(in_func) + '\n'
        self.budget -= 1
        if x < 0.45:
            return self.declared_block(indent)
        if x < 0.54:
            return self.funcdef(indent, depth, in_async, in_class)
        if x < 0.6:
            return self.classdef(indent, depth)
        if x < 0.72:
            # for loop; often reads a name that is bound further right on the same line
            t, ns = self.target(p_simple=0.5)
            kw = 'for'
            if in_async and r.random() < 0.5:
                kw = 'async' + self.sp() + 'for'
                self.feat.add('async-for')
            head = indent + kw + self.sp() + t + self.sp() + 'in' + self.sp() + r.choice(self.bound) + self.osp() + ':'
            self.bind(*ns)
            self.feat.add('for-target')
            pre = None
            if r.random() < 0.6:
                later = self.name()
                pre = self.read([later]) + self.semi() + later + self.osp() + '=' + self.osp() + r.choice(ns)
                self.feat.add('cursor-before-binding-same-line')
                self.feat.add('several-statements-per-line')
                self.bind(later)
            out = head + self.suite(indent, depth, in_func, in_async, pre=pre)
            if r.random() < 0.15:
                out += indent + 'else' + self.osp() + ':' + self.suite(indent, depth, in_func, in_async)
            return out
        if x < 0.78:
            later = self.name()
            self.feat.add('while-loop')
            head = indent + 'while' + self.sp() + r.choice(self.bound) + self.osp() + ':'
            pre = self.read([later]) + self.semi() + later + self.osp() + '=' + self.osp() + self.value()
            self.feat.add('cursor-before-binding-same-line')
            self.feat.add('several-statements-per-line')
            self.bind(later)
            return head + self.suite(indent, depth, in_func, in_async, pre=pre)
        if x < 0.84:
            head = indent + 'if' + self.sp() + r.choice(self.bound) + self.osp() + ':'
            out = head + self.suite(indent, depth, in_func, in_async)
            if r.random() < 0.3:
                out += indent + 'elif' + self.sp() + r.choice(self.bound) + self.osp() + ':' + self.suite(indent, depth, in_func, in_async)
            if r.random() < 0.5:
                out += indent + 'else' + self.osp() + ':' + self.suite(indent, depth, in_func, in_async)
            return out
        if x < 0.93:
            self.feat.add('except-as')
            out = indent + 'try' + self.osp() + ':' + self.suite(indent, depth, in_func, in_async)
            for _ in range(r.randint(1, 3)):
                exc = r.choice(['Exception', 'ValueError', '(KeyError, IndexError)', '( OSError , )', 'os.error'])
                if r.random() < 0.8:
                    n = self.name()
                    head = indent + 'except' + (self.sp() if not exc.startswith('(') or r.random() < 0.7 else '') + exc + \
                        (self.sp() if not exc.endswith(')') or r.random() < 0.7 else '') + 'as' + self.sp() + n + self.osp() + ':'
                    self.bind(n)
                    out += head + self.suite(indent, depth, in_func, in_async, pre=self.read([n]) if r.random() < 0.6 else None)
                    if n in self.bound:
                        self.bound.remove(n)   # unbound after the handler
                else:
                    out += indent + 'except' + self.sp() + exc + self.osp() + ':' + self.suite(indent, depth, in_func, in_async)
            if r.random() < 0.2:
                out += indent + 'finally' + self.osp() + ':' + self.suite(indent, depth, in_func, in_async)
            return out
        # with
        self.feat.add('with-as')
        kw = 'with'
        if in_async and r.random() < 0.5:
            kw = 'async' + self.sp() + 'with'
            self.feat.add('async-with')
        items, bound = [], []
        for _ in range(r.choice([1, 1, 2, 3])):
            e = 'val(' + r.choice(self.bound) + ')'
            if r.random() < 0.8:
                t, ns = self.target(allow_bare=False, p_simple=0.6)
                items.append(e + self.sp() + 'as' + self.sp() + t)
                bound += ns
            else:
                items.append(e)
        if len(items) > 1 and r.random() < 0.3:
            self.feat.add('parenthesised-with')
            body = '(' + ''.join('\n' + indent + '        ' + it + ',' + ('  ' + self.comment(bound) if r.random() < 0.3 else '')
                                 for it in items) + '\n' + indent + ')'
        else:
            body = self.comma().join(items)
        self.bind(*bound)
        head = indent + kw + self.sp() + body + self.osp() + ':'
        return head + self.suite(indent, depth, in_func, in_async, pre=self.read(bound[:2]) if bound and r.random() < 0.5 else None)

    # -- module -------------------------------------------------------------------------------
    def module(self):
        r = self.r
        tops = ['def deco(f):\n    return f\n', 'def deco2(n):\n    return deco\n', 'class Base0(object): pass\n',
                'def val(*a): return a\n', 'xs = [1, 2]\n']
        # a header of imports, the way real files start
        for _ in range(r.randint(1, 4)):
            s = self.import_stmt() if r.random() < 0.4 else self.from_stmt()
            if r.random() < 0.25:
                s += r.choice(['  ', ' ', '']) + self.comment(self.bound[-2:])
            tops.append(s + '\n')
            self.budget -= 1
        while self.budget > 0:
            tops.append(self.statement('', 0, False))
        # reads of everything bound at module level (cursor positions for location())
        for n in r.sample(self.bound, min(len(self.bound), 6)):
            tops.append(self.read([n]) + '\n')
        tops.append('late = 1\n')
        tops.append('zq, late = xs\n' if r.random() < 0.5 else 'def zq(): pass\n')
        wide_plan = r.random() < 0.7
        # characters that splitlines() treats as line ends
        if r.random() < 0.14:
            self.feat.add('formfeed')
            for _ in range(r.randint(1, 3)):
                i = r.randrange(5, len(tops) + 1)
                ch = r.choice(SPLIT_ONLY)
                x = r.random()
                # most placements keep the text valid even for a reader that breaks lines at these characters
                if ch == '\x0c' and x < 0.3:
                    tops.insert(i, '\x0c\n')
                elif ch == '\x0c' and x < 0.45 and i < len(tops) and not tops[i].startswith(('\x0c', '#')):
                    tops[i] = '\x0c' + tops[i]
                elif ch == '\x0c' and x < 0.55 and i < len(tops) and '\n' not in tops[i][:-1] and '#' not in tops[i]:
                    tops[i] = tops[i][:-1] + r.choice(['', ' ']) + '\x0c\n'
                elif x < 0.75:
                    tops.insert(i, '# ---- %s# ----\n' % ch)
                elif x < 0.94:
                    tops.insert(i, "_page = \'\'\'a%sb\'\'\'\n" % ch)
                elif x < 0.97:
                    tops.insert(i, '# ---- %s ----\n' % ch)
                else:
                    tops.insert(i, "_page = 'a%sb'\n" % ch)
        if wide_plan:
            # reads of names imported from the long-lined module `wide`, placed on the SAME line numbers as their
            # definitions there (line 1 is the import itself, then two early reads, then reads at the end)
            self.feat.add('read-on-same-line-number-as-definition-in-other-file')
            wanted = []

            def read_line(ln):
                nm, col = r.choice(WIDE_TABLE[ln])
                wanted.append(nm)
                x = r.random()
                if x < 0.35:
                    return nm + '\n'
                if x < 0.7:
                    return 'print(' + nm + ')\n'
                return r.choice(['_ = ', 'xs = xs; _ = ', 'late = late ;  ']) + nm + r.choice(['', ' ; pass', '  # ' + nm]) + '\n'
            early = [read_line(2), read_line(3)]
            n = ''.join(tops).count('\n') + 1 + len(early)      # lines before the reads appended at the end
            latecomers = []
            for k in range(r.randint(2, 5)):
                ln = n + 1 + k
                if ln in WIDE_TABLE:
                    latecomers.append(read_line(ln))
                else:
                    break
            style = r.random()
            if style < 0.5:
                imp = 'from wide import ' + ', '.join(wanted)
            elif style < 0.8:
                imp = 'from wide import(' + ','.join(wanted) + ')'
            else:
                imp = 'from  wide  import ' + ' , '.join(wanted) + '  # ' + wanted[-1]
            tops = [imp + '\n'] + early + tops + latecomers
        ending = None
        if r.random() < 0.4:
            # the LAST statement of the file: a definition with a continued header and a one-line body, or an
            # import / assignment; then the file ends in one of four ways
            self.gid = getattr(self, 'gid', 0) + 1
            k = self.gid
            cont = lambda: r.choice([' ', '', '  ']) + '\\\n' + r.choice(['', '', ' ', '    ', '\t'])
            nm = r.choice(DEF_NAMES) if r.random() < 0.5 else 'eo%d' % k
            x = r.random()
            body = r.choice(['pass', 'return 1', 'x = 1; return x'])
            if x < 0.2:
                last = 'def' + cont() + nm + self.osp() + '(' + self.params() + '):' + self.osp() + body
                self.feat.add('eof-def-continued-header')
            elif x < 0.35:
                last = 'async' + r.choice([' ', cont()]) + 'def' + cont() + nm + '():' + self.osp() + body
                self.feat.add('eof-async-def-continued-header')
            elif x < 0.5:
                cn = r.choice(CLASS_NAMES) if r.random() < 0.5 else 'Eo%d' % k
                last = 'class' + cont() + cn + r.choice(['', '()', '(object)', ' (Base0)']) + self.osp() + ':' + self.osp() + r.choice(['pass', 'x = 1'])
                self.feat.add('eof-class-continued-header')
            elif x < 0.62:
                last = 'def outer_eo%d():\n' % k + self.unit() + r.choice(['def', 'async def']) + cont() + nm + '(a=1):' + self.osp() + body
                self.feat.add('eof-nested-def-continued-header')
            elif x < 0.74:
                last = 'class Eo%d%s:\n' % (k, r.choice(['', '(object)'])) + self.unit() + 'def' + cont() + nm + '(self):' + self.osp() + body
                self.feat.add('eof-method-continued-header')
            elif x < 0.87:
                last = self.import_stmt() if r.random() < 0.5 else self.from_stmt()
                self.feat.add('eof-import')
            else:
                last = self.assign()
                self.feat.add('eof-assignment')
            y = r.random()
            if y < 0.4:
                ending = 'no-final-newline'
                tail = ''
            elif y < 0.65:
                ending = 'one-final-newline'
                tail = '\n'
            elif y < 0.82:
                ending = 'extra-empty-line-at-end'
                tail = '\n' + r.choice(['\n', '    \n', '\n\n'])
            else:
                ending = 'comment-line-at-end'
                tail = '\n' + self.comment([nm]) + r.choice(['\n', ''])
            self.feat.add(ending)
            tops.append(last + tail)
        text = ''.join(tops)
        if r.random() < 0.05:
            self.feat.add('crlf')
            text = text.replace('\n', '\r\n')
        if ending is None and r.random() < 0.1:
            self.feat.add('no-final-newline')
            text = text.rstrip('\r\n')
        return text


def _param_names(ps):
    out = []
    depth = 0
    cur = ''
    # strip comments
    lines = [ln.split('#')[0] for ln in ps.split('\n')]
    for ch in ' '.join(lines):
        if ch == ',' and depth == 0:
            out.append(cur)
            cur = ''
        else:
            cur += ch
    out.append(cur)
    names = []
    for p in out:
        p = p.strip().lstrip('*').strip()
        p = p.split(':')[0].split('=')[0].strip()
        if p.isidentifier():
            names.append(p)
    return names


def generate(rng):
    """-> {'filename': relative path of the analysed file, 'text': source, 'features': [...],
           'discarded': number of syntactically invalid attempts}.  Deterministic in rng."""
    discarded = 0
    for _ in range(50):
        in_pkg = rng.random() < 0.4
        g = Gen(rng, in_pkg)
        text = g.module()
        try:
            with warnings.catch_warnings():
                warnings.simplefilter('ignore')
                ast.parse(text)
                compile(text, '<generated>', 'exec', dont_inherit=True)
            assert all(ord(ch) < 128 for ch in text)
        except (SyntaxError, ValueError, AssertionError):
            discarded += 1
            continue
        return {'filename': 'vfp/cur_mod.py' if in_pkg else 'cur_mod.py', 'text': text,
                'features': sorted(g.feat), 'discarded': discarded}
    raise RuntimeError('generator produced 50 invalid programs in a row')
