"""G-prog: generator of real Python programs whose control flow is driven by opaque helper
calls (see vf/dynrt.py).  The text supp analyses is exactly the text CPython runs.

mode 'c01': the full grammar of property C01 (break/continue/return/raise anywhere,
            exceptions anywhere, risky expressions, builtin-named variables).
mode 'c02': the structured fragment of C02/C03 (no break/continue; raising calls only as
            first or last statement of a try body and always caught; comprehension inner
            expressions do not read a name the enclosing statement rebinds; comprehension
            variables / except names / a function's own name are not read outside their
            construct).
"""

HEADER = 'from vf_rt import v, q, it, cm, m, d, dd, kb, km, call, ex, et\n'

PROJECT_FILES = {
    'vf_rt.py': 'from vf.dynrt import v, q, it, cm, m, d, dd, kb, km, call, ex, et\n',
    'pkg/__init__.py': 'from vf_rt import v\npa = v()\ndef pf():\n    return v()\n',
    'pkg/mod.py': 'from vf_rt import v\nma = v()\nmb = v()\ndef mf():\n    return v()\nclass MK:\n    pass\n_hidden = v()\n',
    'pkg/star.py': ('from vf_rt import v as _v\nsa = _v()\nsb = _v()\ndef sf():\n    return _v()\n'
                    # module-level names made through global declarations, in a function called at import and in a class body
                    'def _init():\n    global sg\n    sg = _v()\n_init()\nclass _K:\n    global sk\n    sk = _v()\n'),
    'pkg/star2.py': 'from vf_rt import v as _v\nx = _v()\ny = _v()\nsc = _v()\n',
    # __all__ built in two steps, a public name outside it
    'pkg/star3.py': "from vf_rt import v as _v\n__all__ = ['ta1']\nta1 = _v()\nta2 = _v()\ntb_out = _v()\n__all__ += ['ta2']\n",
    'pkg/sub/__init__.py': '',
    'pkg/sub/deep.py': 'from vf_rt import v\nda = v()\n',
    'app/__init__.py': '',
    'app/sib.py': 'from vf_rt import v as _v\ns1 = _v()\ns2 = _v()\n',
    'top.py': 'from vf_rt import v\nta = v()\n',
}
PROJECT_TOPLEVEL = ('pkg', 'app', 'top')

VARS = ['x', 'y', 'z', 'w']
FUNCS = ['f', 'g', 'h']
CLASSES = ['K', 'L']
COMPVARS = ['ci', 'cj']
EXCNAMES = ['e1', 'e2']
PARAMS = ['p', 'r', 's', 'k', 'kw']
BUILTIN_VARS = ['len', 'id', 'max']
EXCS = ['KeyError', 'ValueError', 'IndexError']

# import statements: (text, [bound names], module_level_only, unique)
IMPORTS_PROJECT = [
    ('import pkg.mod', ['pkg'], False),
    ('import pkg.mod as pm', ['pm'], False),
    ('import pkg.sub.deep', ['pkg'], False),
    ('from pkg import mod', ['mod'], False),
    ('from pkg import mod as md', ['md'], False),
    ('from pkg.mod import ma', ['ma'], False),
    ('from pkg.mod import ma as x', ['x'], False),
    ('from pkg.mod import mf, MK as y', ['mf', 'y'], False),
    ('from pkg.mod import (ma,\n{ind}    mb as z)', ['ma', 'z'], False),
    ('import top', ['top'], False),
    ('import top as w', ['w'], False),
    ('from . import sib', ['sib'], False),
    ('from .sib import s1', ['s1'], False),
    ('from .sib import s1 as y, s2', ['y', 's2'], False),
    ('from pkg.star import *', ['sa', 'sb', 'sf', 'sg', 'sk'], True),
    ('from pkg.star2 import *', ['x', 'y', 'sc'], True),
    ('from pkg.star3 import *', ['ta1', 'ta2'], True),
    ('from .sib import *', ['s1', 's2'], True),
]
IMPORTS_STDLIB = [   # each binds a distinct object; used at most once per program
    ('import os.path', ['os']),
    ('import json as js', ['js']),
    ('from collections import abc', ['abc']),
    ('import xml.dom.minidom', ['xml']),
    ('from string import ascii_letters as z', ['z']),
]


class Scope(object):
    def __init__(self, kind, parent=None, name=None):
        self.kind = kind
        self.parent = parent
        self.names = []          # names possibly bound here so far
        self.definite = set()    # names bound on every path to the current generation point
        self.name = name
        self.declared = set()

    def add(self, n, definite=True):
        if n not in self.names:
            self.names.append(n)
        if definite:
            self.definite.add(n)

    def _chain(self):
        yield self
        p = self.parent
        skip_class = self.kind != 'class' or True
        while p is not None:
            if p.kind != 'class':
                yield p
            p = p.parent

    def visible(self):
        out = []
        for s in self._chain():
            out.extend(s.names)
        return out

    def visible_definite(self):
        out = set()
        for s in self._chain():
            out |= s.definite
        return out

    def enclosing_function(self):
        """nearest enclosing function scope (class scopes are skipped, as nonlocal does)."""
        s = self
        while s is not None and s.kind != 'function':
            s = s.parent
        return s


class Gen(object):
    def __init__(self, rng, mode='c02', max_stmts=30, max_decisions=9, max_depth=4, risky=2):
        self.rng = rng
        self.mode = mode
        self.c01 = mode == 'c01'
        self.c03 = mode == 'c03'     # c02 minus mid-block return and minus try bodies that cannot raise at both ends
        self.lines = []
        self.stmts = 0
        self.max_stmts = max_stmts
        self.decisions = 0
        self.leaving = -1
        self.max_decisions = max_decisions
        self.max_depth = max_depth
        self.stdlib_left = list(IMPORTS_STDLIB)
        rng.shuffle(self.stdlib_left)
        self.features = set()
        self.force = None
        self.global_binders = {}   # function name -> module-level names it binds under a global declaration
        self.risky_left = 10 ** 6 if self.c01 else risky
        self.risky_p = 0.15 if self.c01 else 0.12

    # -- helpers -------------------------------------------------------------------------
    def emit(self, ind, text):
        self.lines.append('    ' * ind + text)

    def budget(self):
        return self.stmts < self.max_stmts

    def dec_ok(self, n=1):
        return self.decisions + n <= self.max_decisions

    def pick_var(self, scope):
        pool = VARS
        r = self.rng.random()
        if r < 0.12:
            pool = FUNCS
        elif r < 0.16 and self.c01:
            pool = BUILTIN_VARS
        return self.rng.choice(pool)

    def readable(self, scope, avoid=()):
        """a name to read: usually one that is bound on every path to here; a bounded number of
        reads (self.risky_left) may be of names that are only possibly bound or not bound at all."""
        rng = self.rng
        definite = sorted(n for n in scope.visible_definite() if n not in avoid)
        r = rng.random()
        if self.risky_left > 0 and r < self.risky_p:
            vis = [n for n in scope.visible() if n not in avoid and n not in definite]
            r2 = rng.random()
            if vis and r2 < 0.8:
                self.risky_left -= 1
                return rng.choice(vis)
            if r2 < 0.93 or not self.c01:
                c = [n for n in VARS if n not in avoid and n not in definite]
                if c:
                    self.risky_left -= 1
                    return rng.choice(c)
            elif self.c01:
                return rng.choice(['KeyError', 'len', 'print'])
        # weight helper names down
        plain = [n for n in definite if n not in ('v', 'q')]
        if plain and rng.random() < 0.9:
            return rng.choice(plain)
        return rng.choice(definite or ['v'])

    def arg(self, scope, depth, avoid=()):
        r = self.rng.random()
        if depth > 2 or r < 0.55:
            return self.readable(scope, avoid)
        if r < 0.65:
            return 'v(%s)' % self.arg(scope, depth + 1, avoid)
        if r < 0.72:
            return '(%s, %s)' % (self.arg(scope, depth + 1, avoid), self.arg(scope, depth + 1, avoid))
        if r < 0.77:
            return '[%s]' % self.arg(scope, depth + 1, avoid)
        if r < 0.79 and self.dec_ok() and self.c01 and hasattr(scope, 'add'):
            self.decisions += 1
            n = self.rng.choice(VARS)
            if n not in avoid:
                e = self.expr(scope, avoid + (n,))
                scope.add(n)
                self.features.add('ifexp_walrus_in_test')
                return '(v(%s) if (%s := %s) else v())' % (n, n, e)
        if r < 0.82 and self.dec_ok():
            self.decisions += 1
            self.features.add('ifexp')
            return '(%s if q(%s) else %s)' % (self.arg(scope, depth + 1, avoid), self.readable(scope, avoid), self.arg(scope, depth + 1, avoid))
        if r < 0.86 and self.dec_ok():
            self.decisions += 1
            self.features.add('boolop')
            return '(q(%s) %s %s)' % (self.readable(scope, avoid), self.rng.choice(['and', 'or']), self.arg(scope, depth + 1, avoid))
        if r < 0.88:
            self.features.add('lambda_arg')
            return '(lambda: %s)' % self.readable(scope, avoid)
        if r < 0.89:
            # a default is evaluated where the lambda is written, its body never
            self.features.add('lambda_default')
            return '(lambda a_=%s: v(a_, %s))' % (self.readable(scope, avoid), self.readable(scope, avoid))
        if r < 0.90 and self.dec_ok():
            # a generator expression that is never iterated: only its first iterable is evaluated
            self.decisions += 1
            self.features.add('generator_never_iterated')
            return '(v(cg) for cg in it(%s))' % self.readable(scope, avoid)
        if self.c01 and r < 0.97:
            self.features.add('risky_expr')
            n = self.readable(scope, avoid)
            return self.rng.choice(['%s.at' % n, '%s[0]' % n, '%s + %s' % (n, self.readable(scope, avoid)),
                                    '-%s' % n, 'f"{%s}"' % n, '%s < %s' % (n, self.readable(scope, avoid)),
                                    '%s[%s:%s]' % (n, self.readable(scope, avoid), self.readable(scope, avoid)),
                                    'f"{%s!r} {%s!s:>9}"' % (n, self.readable(scope, avoid)),
                                    '%s.at[%s].bt' % (n, self.readable(scope, avoid))])
        return self.readable(scope, avoid)

    def expr(self, scope, avoid=()):
        """an expression that yields a fresh object and reads 0..3 names."""
        n = self.rng.choice([0, 1, 1, 1, 2, 2, 3])
        args = [self.arg(scope, 0, avoid) for _ in range(n)]
        if self.rng.random() < 0.12:
            args.append('k=%s' % self.readable(scope, avoid))
            if self.rng.random() < 0.3:
                # a star-argument written after a keyword (kept before it in the syntax tree)
                args.append('*[%s]' % self.readable(scope, avoid))
                self.features.add('star_arg_after_keyword')
        return 'v(%s)' % ', '.join(args)

    def cond(self, scope, definite=True):
        r = self.rng.random()
        if r < 0.25:
            return 'q()'
        if r < 0.8:
            return 'q(%s)' % self.readable(scope)
        if r < 0.9:
            n = self.pick_var(scope)
            e = self.expr(scope, avoid=(n,))
            if self.rng.random() < 0.3 and self.dec_ok():
                # a comprehension earlier in the same test (it opens regions of its own), then the walrus
                self.decisions += 1
                pre = 'q([v(%s, ci) for ci in it()], (%s := %s))' % (self.readable(scope, (n,)), n, e)
                scope.add(n, definite)
                self.features.add('walrus_after_comprehension_in_test')
                return pre
            scope.add(n, definite)
            self.features.add('walrus_in_test')
            return '(%s := %s)' % (n, e)
        return 'q(%s, %s)' % (self.readable(scope), self.readable(scope))

    def branch(self, scope, fn):
        """runs fn from the current definite set; returns the definite set at its end and restores."""
        saved = set(scope.definite)
        fn()
        out = scope.definite
        scope.definite = saved
        return out

    def block(self, ind, scope, depth, in_loop=False, n=None):
        n = n or self.rng.choice([1, 1, 2, 2, 3, 4])
        force = self.force if (self.force and self.force[1] == depth) else None
        made = 0
        for _ in range(n):
            if not self.budget() and made:
                break
            self.stmt(ind, scope, depth, in_loop)
            made += 1
            if self.lines and self.lines[-1].strip().split(' ')[0] in ('return', 'raise', 'break', 'continue'):
                return      # nothing is generated after a statement that leaves the block (no dead code)
            if self.leaving == len(self.lines):
                return
        if force:
            # every direct block of an 'all paths bind it' statement ends by binding the variable
            self.emit(ind, '%s = %s' % (force[0], self.expr(scope)))
            scope.add(force[0])
            made += 1
        if not made:
            self.emit(ind, 'pass')

    def stmt(self, ind, scope, depth, in_loop):
        self.stmts += 1
        rng = self.rng
        kinds = [('assign', 10), ('use', 5), ('tuple', 2), ('chained', 1), ('annotated', 1), ('walrus', 2), ('comp', 2)]
        if depth < self.max_depth and self.budget():
            kinds += [('if', 6), ('for', 4), ('while', 2), ('try', 3), ('with', 2), ('def', 3), ('class', 1), ('lambda', 1), ('allpaths', 2)]
        kinds += [('import', 2)]
        if scope.kind == 'function' and not self.c03:
            kinds += [('return', 1)]
        if self.c01:
            if in_loop:
                kinds += [('break', 1), ('continue', 1)]
            kinds += [('raise', 1), ('mcall', 1)]
        kinds += [('callf', 2)]
        total = sum(w for _, w in kinds)
        x = rng.random() * total
        for k, w in kinds:
            x -= w
            if x < 0:
                break
        getattr(self, 's_' + k)(ind, scope, depth, in_loop)

    def s_assign(self, ind, scope, depth, in_loop):
        n = self.pick_var(scope)
        self.emit(ind, '%s = %s' % (n, self.expr(scope)))
        scope.add(n)

    def s_use(self, ind, scope, depth, in_loop):
        self.emit(ind, self.expr(scope))

    def s_tuple(self, ind, scope, depth, in_loop):
        a, b, c = self.pick_var(scope), self.pick_var(scope), self.pick_var(scope)
        form = self.rng.choice(['flat', 'nested', 'starred', 'list'])
        if len({a, b, c}) < 3:
            form = 'flat'
            if a == b:
                return self.s_assign(ind, scope, depth, in_loop)
        e = lambda: self.expr(scope)
        if form == 'flat':
            self.emit(ind, '%s, %s = %s, %s' % (a, b, e(), e()))
            names = [a, b]
        elif form == 'nested':
            self.emit(ind, '%s, (%s, %s) = %s, (%s, %s)' % (a, b, c, e(), e(), e()))
            names = [a, b, c]
        elif form == 'starred':
            self.emit(ind, '%s, *%s = %s, %s, %s' % (a, b, e(), e(), e()))
            names = [a, b]
        else:
            self.emit(ind, '[%s, %s] = [%s, %s]' % (a, b, e(), e()))
            names = [a, b]
        self.features.add('tuple_' + form)
        for n in names:
            scope.add(n)

    def s_chained(self, ind, scope, depth, in_loop):
        a, b = self.pick_var(scope), self.pick_var(scope)
        if self.rng.random() < 0.15:
            # one statement binds the same name twice: the later target wins
            form = self.rng.choice(['%s, %s = %s, %s', '[%s, (w_, %s)] = [%s, (v(), %s)]', '%s = %s = %s'])
            if form.count('%s') == 4:
                self.emit(ind, form % (a, a, self.expr(scope), self.expr(scope)))
            else:
                self.emit(ind, form % (a, a, self.expr(scope)))
            scope.add(a)
            if 'w_' in form:
                scope.add('w_')
            self.emit(ind, 'v(%s)' % a)
            self.features.add('same_name_bound_twice_in_one_statement')
            return
        if self.rng.random() < 0.2:
            # targets are bound from left to right: a later subscript target reads the binding just made
            if self.rng.random() < 0.5:
                self.emit(ind, '%s = v()[%s] = %s' % (a, a, self.expr(scope)))
            else:
                self.emit(ind, '%s, v()[%s] = %s, %s' % (a, a, self.expr(scope), self.expr(scope)))
            scope.add(a)
            self.features.add('target_reads_earlier_target')
            return
        if a == b:
            return self.s_assign(ind, scope, depth, in_loop)
        self.emit(ind, '%s = %s = %s' % (a, b, self.expr(scope)))
        scope.add(a)
        scope.add(b)
        self.features.add('chained')

    def s_annotated(self, ind, scope, depth, in_loop):
        n = self.pick_var(scope)
        # CPython evaluates the annotation after the assignment (known finding, covered by a witness):
        # the generator steers clear of reading the target there
        r = self.rng.random()
        if r < 0.2 and scope.kind in ('module', 'class'):
            ann = n       # evaluated after the assignment at module/class level: reads the value just bound
            self.features.add('annotation_reads_own_target')
        else:
            ann = self.readable(scope, (n,)) if r < 0.6 else 'v'
        self.emit(ind, '%s: %s = %s' % (n, ann, self.expr(scope)))
        scope.add(n)
        self.features.add('annotated')

    def s_walrus(self, ind, scope, depth, in_loop):
        n = self.pick_var(scope)
        r = self.rng.random()
        if r < 0.12 and self.dec_ok():
            # comparison chains: the second operand is always evaluated, the later ones only while the chain holds
            self.decisions += 1
            e = self.expr(scope, avoid=(n,))
            if self.rng.random() < 0.5:
                self.emit(ind, 'v(v() < (%s := %s) < v(%s))' % (n, e, n))
                scope.add(n)
            else:
                self.emit(ind, 'v(v(%s) < v() < (%s := %s))' % (self.readable(scope), n, e))
                scope.add(n, definite=False)
            self.features.add('walrus_in_comparison_chain')
            return
        if r < 0.30 and r >= 0.27 and scope.kind in ('function', 'module') and self.dec_ok(2):
            # a chain that opens regions in a plain statement, then a binding, then a closure reading it:
            # the scope's final table must be the one after the chain
            self.decisions += 2
            e = self.expr(scope, avoid=(n,))
            m_ = self.rng.choice([x for x in VARS if x != n])
            # in a function of its own, so that the chain is the last construct of its scope that opens regions
            self.emit(ind, 'def hh():')
            if self.rng.random() < 0.5:
                self.emit(ind + 1, 'v(q(%s) and (%s := %s))' % (self.readable(scope, (n, m_)), n, e))
            else:
                self.emit(ind + 1, 'v(v() < v(%s) < (%s := %s))' % (self.readable(scope, (n, m_)), n, e))
            self.emit(ind + 1, '%s = v()' % m_)
            self.emit(ind + 1, 'return call(lambda: v(%s))' % m_)
            self.emit(ind, 'call(hh)')
            scope.add('hh')
            self.features.add('chain_then_binding_then_closure')
            return
        if r < 0.17 and self.dec_ok(2):
            # four operands: the last one reads what the third bound
            self.decisions += 2
            e = self.expr(scope, avoid=(n,))
            if n in scope.visible_definite() and self.rng.random() < 0.5:
                # two later operands bind the same name: the chain may stop between them
                self.emit(ind, 'v(v() < v(%s) < (%s := %s) < (%s := v()))' % (self.readable(scope), n, e, n))
                self.emit(ind, 'v(%s)' % n)
                self.features.add('comparison_chain_binds_one_name_twice')
                return
            self.emit(ind, 'v(v() < v(%s) < (%s := %s) < v(%s))' % (self.readable(scope), n, e, n))
            scope.add(n, definite=False)
            self.features.add('walrus_in_comparison_chain_of_four')
            return
        if r < 0.27:
            # a lambda's default is evaluated where the lambda is written: a walrus there binds in this scope,
            # also inside conditionally evaluated parts of the default
            e = self.expr(scope, avoid=(n,))
            form = self.rng.choice(['plain', 'ifexp-test', 'ifexp-test', 'bool', 'ifexp-branch', 'fstring'])
            fresh = [x for x in VARS if x not in scope.visible()]
            if fresh and self.rng.random() < 0.5:
                n = self.rng.choice(fresh)          # not bound before: only this binding can satisfy the reads
                e = self.expr(scope, avoid=(n,))
            if form == 'plain':
                self.emit(ind, 'v((lambda a_=(%s := %s): v(a_)), %s)' % (n, e, n))
                scope.add(n)
            elif form == 'ifexp-test' and self.dec_ok():
                self.decisions += 1
                self.emit(ind, 'v(v(%s) if (lambda a_=(%s := %s): a_)() else v())' % (n, n, e))
                scope.add(n)
            elif form == 'bool' and self.dec_ok():
                self.decisions += 1
                self.emit(ind, 'v((lambda k_=(q(%s) and (%s := %s)): k_))' % (self.readable(scope), n, e))
                scope.add(n, definite=False)
            elif form == 'ifexp-branch' and self.dec_ok():
                self.decisions += 1
                self.emit(ind, 'v((lambda *, k_=((%s := %s) if q() else v()): k_))' % (n, e))
                scope.add(n, definite=False)
            elif form == 'fstring' and self.dec_ok():
                self.decisions += 1
                self.emit(ind, 'v(q(%s) and f"{(%s := %s)!r}")' % (self.readable(scope), n, e))
                scope.add(n, definite=False)
            else:
                self.emit(ind, 'v((%s := %s), %s)' % (n, e, self.readable(scope)))
                scope.add(n)
                form = 'fallback'
            self.features.add('walrus_' + form.replace('-', '_') + '_in_lambda_default_or_fstring')
            return
        if self.rng.random() < 0.3 and self.dec_ok(2):
            # a chain of boolean operands: a later operand reads what an earlier one bound
            self.decisions += 2
            op = self.rng.choice(['and', 'or'])
            first = 'q(%s)' % self.readable(scope) if self.rng.random() < 0.7 else '(%s := %s)' % (n, self.expr(scope, avoid=(n,)))
            if first.startswith('q('):
                self.emit(ind, 'v(%s %s (%s := %s) %s v(%s))' % (first, op, n, self.expr(scope, avoid=(n,)), op, n))
                scope.add(n, definite=False)
            else:
                self.emit(ind, 'v(%s %s v(%s) %s v(%s))' % (first, op, n, op, n))
                scope.add(n)
            self.features.add('walrus_in_boolean_chain')
            return
        self.emit(ind, 'v((%s := %s), %s)' % (n, self.expr(scope, avoid=(n,)), self.readable(scope)))
        scope.add(n)
        self.features.add('walrus')

    def wcomp(self, scope, avoid=(), inner=None):
        """a comprehension binding a name of the enclosing scope by an assignment expression, or None when that
        is not possible here (class bodies, decision budget)"""
        if not self.c01 or scope.kind == 'class' or not self.dec_ok():
            return None
        self.decisions += 1
        wn = self.rng.choice([n for n in VARS if n not in avoid] or VARS)
        e = '[(%s := v(%s)) for cz in it()]' % (wn, self.readable(inner or scope, avoid))
        scope.add(wn, definite=False)
        return e

    def s_comp(self, ind, scope, depth, in_loop):
        if not self.dec_ok():
            return self.s_assign(ind, scope, depth, in_loop)
        self.decisions += 1
        rng = self.rng
        tgt = self.pick_var(scope) if rng.random() < 0.7 else None
        avoid = (tgt,) if (tgt and not self.c01) else ()
        cv = rng.choice(COMPVARS)
        inner = Scope('comp', scope)
        inner.names = [cv]
        inner.definite = {cv}
        two = rng.random() < 0.25 and self.dec_ok()
        it1 = 'it(%s)' % (self.readable(scope, avoid) if rng.random() < 0.6 else '')
        gens = 'for %s in %s' % (cv, it1)
        if self.c01 and rng.random() < 0.15:
            wn = rng.choice([n for n in VARS if n != tgt] or VARS)
            gens += ' if (%s := v(%s))' % (wn, self.readable(inner, avoid))
            inner.add(wn)                       # bound (in the enclosing scope) before the element is evaluated
            self.features.add('walrus_in_comp_condition')
        elif rng.random() < 0.4 and self.dec_ok():
            self.decisions += 1
            w = self.wcomp(scope, avoid, inner) if rng.random() < 0.15 else None
            if w:
                gens += ' if q(%s, %s)' % (self.readable(inner, avoid), w)
                self.features.add('walrus_comprehension_in_comp_condition')
            else:
                gens += ' if q(%s)' % self.readable(inner, avoid)
        if two:
            self.decisions += 1
            cv2 = [c for c in COMPVARS if c != cv][0]
            w = self.wcomp(scope, avoid, inner) if rng.random() < 0.2 else None
            if w:
                gens += ' for %s in it(%s, %s)' % (cv2, self.readable(inner, avoid), w)
                self.features.add('walrus_comprehension_in_comp_iterable')
            else:
                gens += ' for %s in it(%s)' % (cv2, self.readable(inner, avoid))
            inner.names.append(cv2)
            inner.definite.add(cv2)
        elt = 'v(%s, %s)' % (self.readable(inner, avoid), self.readable(inner, avoid))
        if rng.random() < (0.3 if scope.kind == 'class' else 0.08):
            # a lambda in the element closes over the comprehension's variable (also in a class body, where the
            # comprehension is the only function-like scope around it)
            elt = 'call(lambda: v(%s))' % cv
            self.features.add('lambda_reads_comprehension_variable' + ('_in_class' if scope.kind == 'class' else ''))
        if self.c01 and rng.random() < 0.12 and self.dec_ok():
            self.decisions += 1
            wn2 = rng.choice([n for n in VARS if n != tgt] or VARS)
            elt = '[(%s := v(%s)) for cz in it()]' % (wn2, self.readable(inner, avoid))
            scope.add(wn2, definite=False)
            self.features.add('walrus_in_nested_comprehension')
        kind = rng.choice(['list', 'set', 'dict', 'gen'])
        if kind == 'list':
            e = '[%s %s]' % (elt, gens)
        elif kind == 'set':
            e = '{%s %s}' % (elt, gens)
        elif kind == 'dict':
            e = '{%s: %s %s}' % (elt, 'v(%s)' % self.readable(inner, avoid), gens)
        else:
            e = 'ex(%s %s)' % (elt, gens)
        self.features.add('comp_' + kind)
        if tgt:
            if tgt in scope.visible_definite() and rng.random() < 0.25:
                # the old value of the target is read after the comprehension, in the same statement
                e = 'v(%s, %s)' % (e, tgt)
                self.features.add('target_read_after_comprehension_in_its_value')
            self.emit(ind, '%s = %s' % (tgt, e))
            scope.add(tgt)
        else:
            self.emit(ind, 'v(%s)' % e)

    def s_allpaths(self, ind, scope, depth, in_loop):
        """a compound statement every branch of which binds the same variable, which is read right after it
        (joins must neither add phantom earlier definitions nor spurious undefined markers)"""
        if self.force or not self.dec_ok(2):
            return self.s_assign(ind, scope, depth, in_loop)
        rng = self.rng
        n = rng.choice(VARS)
        if rng.random() < 0.5:
            self.emit(ind, '%s = %s' % (n, self.expr(scope)))
            scope.add(n)
        self.force = (n, depth + 1)
        try:
            kind = rng.choice(['if', 'try', 'try', 'try'])
            if kind == 'if':
                self.s_if(ind, scope, depth, in_loop, force_else=True)
            else:
                self.s_try(ind, scope, depth, in_loop, force_finally=rng.random() < 0.6)
        finally:
            self.force = None
        self.features.add('allpaths_' + kind)
        if n in scope.visible_definite():
            self.emit(ind, 'v(%s)' % n)

    def s_if(self, ind, scope, depth, in_loop, force_else=False):
        if not self.dec_ok():
            return self.s_assign(ind, scope, depth, in_loop)
        if self.rng.random() < 0.12 and self.dec_ok(3) and not force_else:
            return self.s_if_chain(ind, scope, depth, in_loop)
        self.decisions += 1
        self.emit(ind, 'if %s:' % self.cond(scope))
        outs = [self.branch(scope, lambda: self.block(ind + 1, scope, depth + 1, in_loop))]
        r = self.rng.random()
        has_else = False
        if r < 0.25 and self.dec_ok():
            self.decisions += 1
            pre = set(scope.definite)
            self.emit(ind, 'elif %s:' % self.cond(scope, definite=False))
            outs.append(self.branch(scope, lambda: self.block(ind + 1, scope, depth + 1, in_loop)))
            self.features.add('elif')
            r = self.rng.random() * 0.9
        if r < 0.6 or force_else:
            self.emit(ind, 'else:')
            outs.append(self.branch(scope, lambda: self.block(ind + 1, scope, depth + 1, in_loop)))
            has_else = True
        if has_else:
            scope.definite |= set.intersection(*outs)

    def s_if_chain(self, ind, scope, depth, in_loop):
        """the test is a chain of boolean operands, a middle one binds a name: the name is bound in the branch that
        is taken only when every operand was evaluated, possibly unbound in the other branch and afterwards"""
        rng = self.rng
        self.decisions += 3
        n = self.pick_var(scope)
        op = rng.choice(['and', 'or'])
        e = self.expr(scope, avoid=(n,))
        kw = 'while' if (rng.random() < 0.4 and not in_loop and self.dec_ok(2)) else 'if'
        if kw == 'if' and rng.random() < 0.25:
            # a comparison chain behaves like 'and': the body runs only when every operand was evaluated.  (Not as a
            # while test: the harness evaluates that test as a value, and an opaque comparison result whose truth is
            # asked twice may answer differently the second time - an artefact of the oracle, not of Python.)
            op = 'and'
            self.emit(ind, '%s v(%s) < v() < (%s := %s):' % (kw, self.readable(scope), n, e))
            self.features.add('walrus_in_comparison_chain_test')
        else:
            self.emit(ind, '%s q(%s) %s (%s := %s) %s q(%s):' % (kw, self.readable(scope), op, n, e, op, n))
        self.features.add('walrus_in_boolean_chain_test_' + kw)
        was = n in scope.definite

        def sure():
            scope.definite.add(n)
            self.emit(ind + 1, 'v(%s)' % n)
            self.block(ind + 1, scope, depth + 1, in_loop or kw == 'while')

        def unsure():
            self.block(ind + 1, scope, depth + 1, in_loop or kw == 'while')
        if n not in scope.names:
            scope.names.append(n)
        if kw == 'while':
            self.decisions += 2
        outs = [self.branch(scope, sure if op == 'and' else unsure)]
        if kw == 'while' and op == 'or' and not self.c01 and rng.random() < 0.7:
            # no else clause: the loop is left only when every operand of the 'or' chain was evaluated and false
            # (no break in this mode), so the name is bound after it
            scope.definite.add(n)
            self.emit(ind, 'v(%s)' % n)
            self.features.add('while_or_chain_without_else_then_read')
            return
        if op == 'or' or rng.random() < 0.5:
            self.emit(ind, 'else:')
            outs.append(self.branch(scope, sure if op == 'or' else unsure))
        if not was:
            scope.definite.discard(n)

    def s_for(self, ind, scope, depth, in_loop):
        if not self.dec_ok():
            return self.s_assign(ind, scope, depth, in_loop)
        self.decisions += 1
        rng = self.rng
        a = self.pick_var(scope)
        r = rng.random()
        if r < 0.75:
            self.emit(ind, 'for %s in it(%s):' % (a, self.readable(scope) if rng.random() < 0.5 else ''))
            names = [a]
        else:
            b = self.pick_var(scope)
            if a == b:
                b = 'w' if a != 'w' else 'z'
            r2 = rng.random()
            if r2 < 0.25:
                # a subscript element of the target list reads the element bound just before it
                self.emit(ind, 'for %s, v()[%s] in it((0, 0)):' % (a, a))
                self.features.add('for_target_subscript_reads_earlier_element')
                b = a
            elif r2 < 0.6:
                self.emit(ind, 'for %s, %s in it((0, 0)):' % (a, b))
            else:
                self.emit(ind, 'for %s, *%s in it((0, 0, 0)):' % (a, b))
                self.features.add('for_starred')
            names = [a, b]
            self.features.add('for_tuple')

        def body():
            for n in names:
                scope.add(n)
            self.block(ind + 1, scope, depth + 1, True)
        self.branch(scope, body)
        if rng.random() < 0.3:
            self.emit(ind, 'else:')
            self.block(ind + 1, scope, depth + 1, in_loop)    # runs whenever the loop is exhausted
            self.features.add('for_else')

    def s_while(self, ind, scope, depth, in_loop):
        if not self.dec_ok(2):
            return self.s_assign(ind, scope, depth, in_loop)
        self.decisions += 2
        self.emit(ind, 'while %s:' % self.cond(scope))
        self.branch(scope, lambda: self.block(ind + 1, scope, depth + 1, True))
        if self.rng.random() < 0.3:
            self.emit(ind, 'else:')
            self.block(ind + 1, scope, depth + 1, in_loop)
            self.features.add('while_else')

    def s_try(self, ind, scope, depth, in_loop, force_finally=False):
        rng = self.rng
        if not self.dec_ok():
            return self.s_assign(ind, scope, depth, in_loop)
        self.decisions += 1
        excs = rng.sample(EXCS, rng.choice([1, 1, 2]))
        raising = 'm(%s)' % ', '.join(excs)
        self.emit(ind, 'try:')
        # supp's handler region joins 'before the try' and 'end of the try body': exact when both raise points
        # exist; other placements are a known finding (witnesses), so most generated trys have both
        where = 'both' if self.c03 else rng.choice(['first', 'last', 'both', 'both', 'both', 'both', 'both', 'both'])
        # try/finally without a handler: the body has no raise point of its own (an exception would leave the program),
        # so the statements after it run exactly when the body completed
        bare = rng.random() < 0.12
        if bare:
            where = 'none'
            force_finally = True
            self.features.add('try_finally_without_handler')
        pre = set(scope.definite)
        terminated = []

        def body():
            nonlocal where
            if where in ('first', 'both'):
                self.emit(ind + 1, raising)
            self.block(ind + 1, scope, depth + 1, in_loop)
            if self.lines[-1].strip().split(' ')[0] in ('return', 'raise', 'break', 'continue'):
                terminated.append(1)
                where = 'first' if where == 'both' else where
                if where == 'last':
                    return
            if where in ('last', 'both'):
                if where == 'both':
                    if not self.dec_ok():
                        where = 'first'
                    else:
                        self.decisions += 1
                if where != 'first':
                    self.emit(ind + 1, raising)
        d_body = self.branch(scope, body)
        form = rng.choice(['each', 'tuple', 'broad'])
        handlers = []

        def etype(e):
            # the type expression of a handler is evaluated when an exception arrives: it may read names, also ones
            # bound in the try body (c01 mode; they may be unbound when the exception comes from the first statement)
            if self.c01 and rng.random() < 0.08 and self.dec_ok():
                # a conditional expression with a walrus in its test inside the type expression of a handler
                self.decisions += 1
                t = rng.choice(VARS)
                self.features.add('handler_type_ifexp_walrus')
                scope.add(t, definite=False)
                return 'et(v(%s) if (%s := v()) else v(), %s)' % (t, t, e)
            if rng.random() < 0.25:
                tscope = Scope('handler-type', scope)
                tscope.definite = set(pre) if not self.c01 else set(d_body)
                self.features.add('handler_type_reads_name')
                return 'et(%s, %s)' % (self.readable(tscope), e)
            return e
        if bare:
            pass
        elif form == 'each' or len(excs) == 1:
            for e in excs:
                handlers.append('except %s' % etype(e))
        elif form == 'tuple':
            handlers.append('except (%s)' % ', '.join(excs))
        else:
            handlers.append('except %s' % excs[0])
            handlers.append('except Exception')
        outs = []
        for h in handlers:
            def hbody(h=h):
                if rng.random() < 0.5:
                    en = rng.choice(EXCNAMES)
                    self.emit(ind, '%s as %s:' % (h, en))
                    self.stmts += 1
                    self.emit(ind + 1, 'v(%s)' % en)       # the handler may read its own exception name
                    self.features.add('except_as')
                else:
                    self.emit(ind, h + ':')
                self.block(ind + 1, scope, depth + 1, in_loop)
                r = rng.random()
                if self.lines[-1].strip().split(' ')[0] in ('return', 'raise', 'break', 'continue'):
                    pass
                elif scope.kind == 'function' and r < 0.15 and not self.c03:
                    self.emit(ind + 1, 'return %s' % self.expr(scope))      # the handler leaves the function
                    self.features.add('handler_returns')
                elif self.c01 and r < 0.3:
                    self.emit(ind + 1, 'raise')                              # the handler re-raises
                    self.features.add('handler_reraises')
            outs.append(self.branch(scope, hbody))          # a handler starts from the state before the try
        if not bare and rng.random() < 0.3:
            scope.definite = set(d_body)
            self.emit(ind, 'else:')
            d_body = self.branch(scope, lambda: self.block(ind + 1, scope, depth + 1, in_loop))
            scope.definite = pre
            self.features.add('try_else')
        after = pre | set.intersection(d_body, *outs)
        if force_finally or rng.random() < (0.45 if self.c01 else 0.35):
            scope.definite = set(pre)
            self.emit(ind, 'finally:')
            saved, self.force = self.force, None        # the finally block does not re-bind the 'all paths' variable
            d_fin = self.branch(scope, lambda: self.block(ind + 1, scope, depth + 1, in_loop))
            self.force = saved
            after |= d_fin
            self.features.add('finally')
        scope.definite = after
        if bare and terminated:
            self.leaving = len(self.lines)     # nothing directly after this statement is reachable

    def s_with(self, ind, scope, depth, in_loop):
        rng = self.rng
        a = self.pick_var(scope)
        r = rng.random()
        if r < 0.1 and self.dec_ok():
            # the context expression binds a name in the test of a conditional expression (the with target is
            # registered for the body before the context expression is analysed)
            self.decisions += 1
            t = rng.choice([n for n in VARS if n != a])
            self.emit(ind, 'with cm(v(%s) if (%s := %s) else v()) as %s:' % (t, t, self.expr(scope, avoid=(t,)), a))
            scope.add(t)
            names = [a]
            self.features.add('with_item_ifexp_walrus')
        elif r < 0.5:
            self.emit(ind, 'with cm(%s) as %s:' % (self.readable(scope) if rng.random() < 0.5 else '', a))
            names = [a]
        elif r < 0.6:
            # three items chained through their targets; the first target may also be bound before the statement
            b, c = rng.sample([n for n in VARS if n != a], 2)
            self.emit(ind, 'with cm(%s) as %s, cm(%s) as %s, cm(%s, %s) as %s:' % (
                self.readable(scope) if rng.random() < 0.5 else '', a, a, b, a, b, c))
            names = [a, b, c]
            self.features.add('with_three_items')
        elif r < 0.85:
            b = self.pick_var(scope)
            if b == a:
                b = 'z' if a != 'z' else 'y'
            if rng.random() < 0.6:
                second = 'cm(%s)' % a
            else:
                second = 'cm(%s)' % self.readable(scope)
            self.emit(ind, 'with cm() as %s, %s as %s:' % (a, second, b))
            names = [a, b]
            self.features.add('with_multi')
        elif r < 0.93:
            b = self.pick_var(scope)
            if b == a:
                b = 'z' if a != 'z' else 'y'
            self.emit(ind, 'with cm((0, 0)) as (%s, %s):' % (a, b))
            names = [a, b]
            self.features.add('with_tuple')
        else:
            self.emit(ind, 'with cm(%s):' % self.readable(scope))
            names = []
        for n in names:
            scope.add(n)
        self.block(ind + 1, scope, depth + 1, in_loop)

    def params(self, scope, fname, annotate=True):
        """-> (text, names) with every parameter kind; defaults are fresh values."""
        rng = self.rng
        avoid = (fname,) if (fname and not self.c01) else ()
        parts = []
        names = []
        pool = list(PARAMS) + [rng.choice(VARS)]
        rng.shuffle(pool)

        def dflt():
            return self.expr(scope, avoid)

        def ann(p):
            if annotate and rng.random() < 0.2:
                return '%s: %s' % (p, self.readable(scope, avoid))
            return p
        if rng.random() < 0.3:
            p = pool.pop()
            names.append(p)
            parts.append(ann(p))
            if rng.random() < 0.5 and pool:
                p = pool.pop()
                names.append(p)
                parts.append(ann(p))
            parts.append('/')
            self.features.add('posonly')
        need_default = False
        for _ in range(rng.choice([0, 1, 1, 2])):
            if not pool:
                break
            p = pool.pop()
            names.append(p)
            if need_default or rng.random() < 0.35:
                parts.append('%s=%s' % (ann(p), dflt()))
                need_default = True
                self.features.add('default')
            else:
                parts.append(ann(p))
        star = False
        if rng.random() < 0.25 and pool:
            p = pool.pop()
            names.append(p)
            parts.append('*' + ann(p))
            star = True
            self.features.add('vararg')
        if rng.random() < 0.35 and pool:
            if not star:
                parts.append('*')
            p = pool.pop()
            names.append(p)
            if rng.random() < 0.6:
                parts.append('%s=%s' % (ann(p), dflt()))
                self.features.add('kwonly_default')
            else:
                parts.append(ann(p))
            self.features.add('kwonly')
        if rng.random() < 0.2 and pool:
            p = pool.pop()
            names.append(p)
            parts.append('**' + ann(p))
            self.features.add('kwarg')
        # a default after '/' needs later positional params to have defaults too: normalise
        text = ', '.join(parts)
        return text, names

    def s_def(self, ind, scope, depth, in_loop):
        rng = self.rng
        name = rng.choice(FUNCS) if rng.random() < 0.8 else rng.choice(VARS)
        avoid = (name,) if not self.c01 else ()
        for _ in range(rng.choice([0, 0, 0, 1, 2])):
            if rng.random() < 0.5:
                self.emit(ind, '@d')
            else:
                self.emit(ind, '@dd(%s)' % self.readable(scope, avoid))
            self.features.add('decorator')
        ptext, pnames = self.params(scope, name)
        ret = ''
        if rng.random() < 0.15:
            ret = ' -> %s' % self.readable(scope, avoid)
            self.features.add('return_annotation')
        try:
            compile('def _(%s): pass' % ptext.replace('\n', ' '), '<p>', 'exec')
        except SyntaxError:
            ptext, pnames = 'p', ['p']
        is_async = rng.random() < 0.08
        if is_async:
            self.features.add('async_def')     # never awaited: only its decorators / defaults / annotations run
        self.emit(ind, '%sdef %s(%s)%s:' % ('async ' if is_async else '', name, ptext, ret))
        fs = Scope('function', scope, name)
        fs.names = list(pnames)
        fs.definite = set(pnames)
        # global / nonlocal declarations
        r = rng.random()
        if r < 0.15:
            g = rng.choice(VARS)
            if g not in pnames:
                self.emit(ind + 1, 'global %s' % g)
                fs.declared.add(g)
                self.features.add('global')
                if rng.random() < 0.6:
                    self.emit(ind + 1, '%s = %s' % (g, self.expr(fs)))
                    fs.add(g)
        elif r < 0.3 and scope.enclosing_function() is not None:
            outer = scope.enclosing_function()
            cands = [n for n in outer.names if n not in pnames and n not in outer.declared]
            if cands:
                g = rng.choice(cands)
                self.emit(ind + 1, 'nonlocal %s' % g)
                fs.declared.add(g)
                self.features.add('nonlocal')
        self.block(ind + 1, fs, depth + 1, False)
        gb = [n for n in fs.names if n in fs.declared]
        call_after = None
        if gb and scope.kind == 'module':
            self.global_binders[name] = gb
            if rng.random() < 0.5 and self.dec_ok():
                call_after = gb[0]
        if rng.random() < 0.6 and not self.lines[-1].strip().startswith(('return', 'raise')):
            self.emit(ind + 1, 'return %s' % self.expr(fs))
        scope.add(name)
        if call_after:
            # the function binds a module-level name through its global declaration: call it, then read the name
            self.decisions += 1
            self.emit(ind, 'call(%s)' % name)
            scope.add(call_after, definite=False)
            self.emit(ind, 'v(%s)' % call_after)
            self.features.add('global_bound_by_call')

    def s_lambda(self, ind, scope, depth, in_loop):
        rng = self.rng
        n = self.pick_var(scope)
        ptext, pnames = self.params(scope, None, annotate=False)
        try:
            compile('lambda %s: 0' % ptext, '<p>', 'eval')
        except SyntaxError:
            ptext, pnames = 'p', ['p']
        ls = Scope('function', scope)
        ls.names = list(pnames)
        ls.definite = set(pnames)
        body = 'v(%s, %s)' % (self.readable(ls), self.readable(ls))
        self.emit(ind, '%s = lambda %s: %s' % (n, ptext, body))
        scope.add(n)
        self.features.add('lambda')

    def s_class(self, ind, scope, depth, in_loop):
        rng = self.rng
        name = rng.choice(CLASSES) if rng.random() < 0.8 else rng.choice(VARS)
        avoid = (name,) if not self.c01 else ()
        def hdr(what):
            # a class header expression may hold a comprehension that binds a name of the enclosing scope
            w = self.wcomp(scope, avoid) if rng.random() < 0.15 else None
            if w:
                self.features.add('walrus_comprehension_in_class_' + what)
                return '%s, %s' % (self.readable(scope, avoid), w)
            return self.readable(scope, avoid)
        if rng.random() < 0.3:
            self.emit(ind, '@dd(%s)' % hdr('decorator'))
            self.features.add('class_decorator')
        bases = []
        if rng.random() < 0.5:
            bases.append('kb(%s)' % hdr('base'))
            self.features.add('class_base')
        if rng.random() < 0.3:
            bases.append('metaclass=km(%s)' % hdr('keyword'))
            self.features.add('class_keyword')
        self.emit(ind, 'class %s%s:' % (name, '(%s)' % ', '.join(bases) if bases else ''))
        cs = Scope('class', scope, name)
        if rng.random() < 0.2:
            # a global declaration in a class body: the other names of the body still fall back to the outer ones
            g = rng.choice(VARS)
            self.emit(ind + 1, 'global %s' % g)
            cs.declared.add(g)
            self.features.add('global_in_class_body')
            o = rng.choice([n for n in VARS if n != g])
            if o in scope.visible_definite() and rng.random() < 0.6:
                # an outer name read and then rebound in the same body
                self.emit(ind + 1, '%s = v(%s)' % (o, o))
                cs.add(o)
                self.features.add('class_body_rebinds_outer_name_it_read')
        self.block(ind + 1, cs, depth + 1, False)
        scope.add(name)
        self.features.add('class')

    def s_import(self, ind, scope, depth, in_loop):
        rng = self.rng
        module_level = scope.kind == 'module'
        if rng.random() < 0.25 and self.stdlib_left:
            text, names = self.stdlib_left.pop()
            self.features.add('import_stdlib')
        else:
            cands = [i for i in IMPORTS_PROJECT if module_level or not i[2]]
            text, names, star = rng.choice(cands)
            if star:
                self.features.add('star_import')
            if text.startswith('from .'):
                self.features.add('relative_import')
        text = text.replace('{ind}', '    ' * ind)
        for i, l in enumerate(text.split('\n')):
            if i == 0:
                self.emit(ind, l)
            else:
                self.lines.append(l)
        for n in names:
            if n not in scope.declared:
                scope.add(n)

    def s_return(self, ind, scope, depth, in_loop):
        self.emit(ind, 'return %s' % self.expr(scope))
        self.features.add('return_mid')

    def s_break(self, ind, scope, depth, in_loop):
        self.emit(ind, 'break')
        self.features.add('break')

    def s_continue(self, ind, scope, depth, in_loop):
        self.emit(ind, 'continue')
        self.features.add('continue')

    def s_raise(self, ind, scope, depth, in_loop):
        self.emit(ind, 'raise %s' % self.rng.choice(EXCS))
        self.features.add('raise')

    def s_mcall(self, ind, scope, depth, in_loop):
        if not self.dec_ok():
            return self.s_assign(ind, scope, depth, in_loop)
        self.decisions += 1
        self.emit(ind, 'm(%s)' % self.rng.choice(EXCS))
        self.features.add('m_anywhere')

    def s_callf(self, ind, scope, depth, in_loop):
        vis = [n for n in scope.visible() if n in FUNCS]
        if not vis or not self.dec_ok():
            return self.s_use(ind, scope, depth, in_loop)
        self.decisions += 1
        f = self.rng.choice(vis)
        for g in self.global_binders.get(f, ()):
            # the call may bind module-level names through 'global' declarations of the function
            top = scope
            while top.parent is not None:
                top = top.parent
            top.add(g, definite=False)
            self.features.add('global_bound_by_call')
        if self.rng.random() < 0.5:
            n = self.pick_var(scope)
            self.emit(ind, '%s = call(%s)' % (n, f))
            scope.add(n)
        else:
            self.emit(ind, 'call(%s)' % f)
        self.features.add('call_stmt')

    # -- entry ---------------------------------------------------------------------------
    def program(self):
        top = Scope('module')
        top.names = ['v', 'q']
        top.definite = {'v', 'q'}
        while self.budget():
            self.stmt(0, top, 0, False)
        return HEADER + '\n'.join(self.lines) + '\n'


def generate(rng, mode='c02', size='small', risky=2):
    """-> dict(text, features)."""
    sizes = {'tiny': (8, 5, 3), 'small': (16, 7, 3), 'medium': (28, 10, 4), 'large': (40, 12, 4)}
    ms, md, mdep = sizes[size]
    for _ in range(20):
        g = Gen(rng, mode, ms, md, mdep, risky)
        text = g.program()
        try:
            compile(text, '<gen>', 'exec')
        except SyntaxError:
            continue
        return {'text': text, 'features': sorted(g.features), 'mode': mode, 'size': size}
    raise RuntimeError('generator produced no valid program in 20 attempts')
