"""G-scoping: generator of modules with deep def/class/lambda/comprehension nesting for C05.

Every identifier is drawn from a pool of 4 names (one of them a builtin) so that everything
shadows everything; global/nonlocal declarations appear at random depths (always at the start
of a function/class body, so they precede every use); every parameter kind is produced
(positional-only, plain, *args, keyword-only, **kwargs, with defaults and annotations that are
evaluated in the enclosing scope).  The programs are never executed: only their static scoping
matters.  A candidate that CPython's compiler rejects is discarded and regenerated (bounded).
"""
import collections
import os

BUILTIN_NAMES = ['len', 'id', 'max', 'str', 'int', 'print', 'list', 'dict', 'type', 'iter']
PLAIN_NAMES = ['a', 'b', 'c', 'x', 'y', 'v', 'w', 'k']
MAX_NEST = 6
SUPPORT_MODULE = 'vf_star_names'


def write_support(root):
    """a real module the generated 'from vf_star_names import *' can be resolved against."""
    with open(os.path.join(root, SUPPORT_MODULE + '.py'), 'w') as f:
        f.write(''.join('%s = %d\n' % (n, i) for i, n in enumerate(PLAIN_NAMES)) + 'len = 3\nid = 4\n')


class Ctx(object):
    def __init__(self, kind, parent, params=()):
        self.kind = kind            # module | function | class | lambda | comp
        self.parent = parent
        self.params = set(params)
        self.bound = set(params)
        self.g = set()
        self.nl = set()
        self.targets = set()        # comp
        self.is_async = False

    def noncomp(self):
        c = self
        while c.kind == 'comp':
            c = c.parent
        return c

    def bind(self, n):
        c = self.noncomp()
        if n not in c.g and n not in c.nl:
            c.bound.add(n)

    def nonlocal_candidates(self, pool):
        out = []
        for n in pool:
            if n in self.params or n in self.g or n in self.nl:
                continue
            c = self.parent
            while c is not None and c.kind != 'module':
                if c.kind in ('function', 'lambda') and n in c.bound:
                    out.append(n)
                    break
                c = c.parent
        return out


class Gen(object):
    def __init__(self, rng):
        self.rng = rng
        pool = rng.sample(PLAIN_NAMES, 3) + [rng.choice(BUILTIN_NAMES)]
        rng.shuffle(pool)
        self.pool = pool
        self.budget = rng.randint(14, 46)
        self.features = collections.Counter()
        self.max_depth = 0
        self.want_deep = rng.random() < 0.7

    # -- helpers ------------------------------------------------------------------------
    def n(self):
        return self.rng.choice(self.pool)

    def feat(self, k):
        self.features[k] += 1

    def seen_depth(self, d):
        if d > self.max_depth:
            self.max_depth = d

    # -- expressions ---------------------------------------------------------------------
    def expr(self, ctx, depth, size, no_walrus=False):
        rng = self.rng
        if size <= 0:
            return self.n()
        r = rng.random()
        nest_ok = depth < MAX_NEST
        if r < 0.30:
            return self.n()
        if r < 0.40:
            return '%s(%s)' % (self.n(), ', '.join(self.expr(ctx, depth, size - 1, no_walrus) for _ in range(rng.randint(0, 2))))
        if r < 0.45:
            return '%s.%s' % (self.n(), rng.choice(['real', 'attr', self.n()]))
        if r < 0.52:
            return '(%s %s %s)' % (self.expr(ctx, depth, size - 1, no_walrus), rng.choice(['+', 'and', 'or', '==', 'in', 'is not']),
                                   self.expr(ctx, depth, size - 1, no_walrus))
        if r < 0.56:
            return '(%s if %s else %s)' % (self.expr(ctx, depth, size - 1, no_walrus), self.n(), self.expr(ctx, depth, size - 1, no_walrus))
        if r < 0.60:
            return '[%s, %s]' % (self.expr(ctx, depth, size - 1, no_walrus), self.n())
        if r < 0.63:
            self.feat('f-string')
            return 'f"{%s}-{%s!r}"' % (self.n(), self.n())
        if r < 0.68 and not no_walrus:
            w = self.walrus(ctx, depth, size)
            if w:
                return w
        if r < 0.82 and nest_ok:
            return self.lambda_(ctx, depth, size, no_walrus)
        if nest_ok:
            return self.comp(ctx, depth, size, no_walrus)
        return self.n()

    def walrus(self, ctx, depth, size):
        # not in a class-level comprehension, never rebinding an iteration variable
        forbidden = set()
        c = ctx
        while c.kind == 'comp':
            forbidden |= c.targets
            c = c.parent
        if ctx.kind == 'comp' and c.kind == 'class':
            return None
        cands = [n for n in self.pool if n not in forbidden]
        if not cands:
            return None
        n = self.rng.choice(cands)
        self.feat('walrus' + ('-in-comprehension' if ctx.kind == 'comp' else ''))
        val = self.expr(ctx, depth, size - 1, True)
        ctx.bind(n)
        return '(%s := %s)' % (n, val)

    def params(self, ctx_outer, depth, size, is_lambda):
        """-> (text, names); defaults/annotations are generated in the enclosing context."""
        rng = self.rng
        names = list(self.pool)
        rng.shuffle(names)
        k = rng.choice([0, 1, 1, 2, 2, 3, 4])
        names = names[:k]
        kinds = []
        # ordered sections: posonly / plain / *vararg / kwonly / **kwarg
        sect = {'posonly': [], 'plain': [], 'vararg': [], 'kwonly': [], 'kwarg': []}
        for nm in names:
            sect[rng.choice(['posonly', 'posonly', 'plain', 'plain', 'vararg', 'kwonly', 'kwonly', 'kwarg'])].append(nm)
        for s in ('vararg', 'kwarg'):
            while len(sect[s]) > 1:
                sect['plain'].append(sect[s].pop())

        def one(nm, allow_default, need_default):
            t = nm
            if not is_lambda and rng.random() < 0.25:
                self.feat('annotation')
                t += ': ' + self.expr(ctx_outer, depth, min(size, 1), True)
            if allow_default and (need_default or rng.random() < 0.4):
                self.feat('default')
                d = self.expr(ctx_outer, depth, min(size, 2), True)
                t += (' = ' if ':' in t else '=') + d
                return t, True
            return t, False
        parts = []
        need = False
        for nm in sect['posonly']:
            t, had = one(nm, True, need)
            need = need or had
            parts.append(t)
            self.feat('param-posonly')
        if sect['posonly']:
            parts.append('/')
        for nm in sect['plain']:
            t, had = one(nm, True, need)
            need = need or had
            parts.append(t)
            self.feat('param-plain')
        if sect['vararg']:
            t, _ = one(sect['vararg'][0], False, False)
            parts.append('*' + t)
            self.feat('param-vararg')
        elif sect['kwonly']:
            parts.append('*')
        for nm in sect['kwonly']:
            t, _ = one(nm, True, False)
            parts.append(t)
            self.feat('param-kwonly')
        if sect['kwarg']:
            t, _ = one(sect['kwarg'][0], False, False)
            parts.append('**' + t)
            self.feat('param-kwarg')
        return ', '.join(parts), names

    def lambda_(self, ctx, depth, size, no_walrus):
        self.feat('lambda')
        ptxt, names = self.params(ctx, depth, size, True)
        c = Ctx('lambda', ctx, names)
        self.seen_depth(depth + 1)
        body = self.expr(c, depth + 1, size - 1, no_walrus)
        return '(lambda%s: %s)' % ((' ' + ptxt) if ptxt else '', body)

    def target(self, c):
        rng = self.rng
        if rng.random() < 0.8:
            n = self.n()
            c.targets.add(n)
            return n
        a, b = rng.sample(self.pool, 2)
        c.targets.update((a, b))
        return '%s, %s' % (a, b)

    def comp(self, ctx, depth, size, no_walrus):
        rng = self.rng
        kind = rng.choice(['listcomp', 'listcomp', 'setcomp', 'dictcomp', 'genexpr', 'genexpr'])
        self.feat(kind + ('-in-class-body' if ctx.noncomp().kind == 'class' else ''))
        self.seen_depth(depth + 1)
        first_iter = self.expr(ctx, depth, size - 1, True)      # evaluated in the enclosing scope
        c = Ctx('comp', ctx)
        t = self.target(c)
        clauses = ['for %s in %s' % (t, first_iter)]
        if rng.random() < 0.3:
            clauses.append('if %s' % self.expr(c, depth + 1, size - 1, no_walrus))
        if rng.random() < 0.3:
            self.feat('comprehension-second-generator')
            it = self.expr(c, depth + 1, size - 1, True)
            t2 = self.target(c)
            clauses.append('for %s in %s' % (t2, it))
        elt = self.expr(c, depth + 1, size - 1, no_walrus)
        tail = ' '.join(clauses)
        if kind == 'listcomp':
            return '[%s %s]' % (elt, tail)
        if kind == 'setcomp':
            return '{%s %s}' % (elt, tail)
        if kind == 'dictcomp':
            return '{%s: %s %s}' % (elt, self.expr(c, depth + 1, size - 1, no_walrus), tail)
        return '(%s %s)' % (elt, tail)

    # -- statements ----------------------------------------------------------------------
    def declarations(self, ctx, ind, out):
        rng = self.rng
        if rng.random() < 0.35:
            cands = [n for n in self.pool if n not in ctx.params]
            if cands:
                ns = rng.sample(cands, 2 if len(cands) > 1 and rng.random() < 0.3 else 1)
                for n in ns:
                    ctx.g.add(n)
                    ctx.bound.discard(n)
                self.feat('global-in-%s%s' % (ctx.kind, '-two-names' if len(ns) > 1 else ''))
                out.append('%sglobal %s' % (ind, ', '.join(ns)))
        if ctx.kind != 'module' and rng.random() < 0.45:
            cands = ctx.nonlocal_candidates(self.pool)
            if cands:
                ns = rng.sample(cands, 2 if len(cands) > 1 and rng.random() < 0.3 else 1)
                for n in ns:
                    ctx.nl.add(n)
                self.feat('nonlocal-in-%s%s' % (ctx.kind, '-two-names' if len(ns) > 1 else ''))
                out.append('%snonlocal %s' % (ind, ', '.join(ns)))

    def structured_del(self, ctx, ind, must=None):
        """del with parenthesised tuple / list / nested targets.  Inside a tuple or list only names are used that
        the scope declares global/nonlocal or already binds in another way (so that the deletion does not decide
        whether the name is local); plain components may be any name."""
        rng = self.rng
        c = ctx.noncomp()
        if c.kind in ('function', 'lambda'):
            elig = sorted(n for n in self.pool if n in c.g or n in c.nl or n in c.bound)
        else:
            elig = list(self.pool)
        if must is not None:
            elig = [n for n in elig if n != must]
        elif not elig:
            return None

        def pick():
            return rng.choice(elig) if elig else must
        first = must if must is not None else pick()
        form = rng.choice(['tuple', 'tuple1', 'list', 'nested', 'mixed'])
        if form == 'tuple':
            t = '(%s, %s)' % (first, pick())
        elif form == 'tuple1':
            t = '(%s,)' % first
        elif form == 'list':
            t = '[%s]' % first if rng.random() < 0.5 else '[%s, %s]' % (pick(), first)
        elif form == 'nested':
            t = '(%s, [%s, %s])' % (pick(), first, pick())
        else:
            plain = self.n()
            ctx.bind(plain)
            t = '%s, (%s), [%s]' % (plain, pick(), first)
        kinds = [k for k, names in (('global', c.g), ('nonlocal', c.nl)) if any(n in names for n in self.pool if n in t.replace(',', ' ').replace('(', ' ').replace(')', ' ').replace('[', ' ').replace(']', ' ').split())]
        self.feat('del-structured-%s%s' % (form, ''.join('-of-%s-declared' % k for k in kinds)))
        return '%sdel %s' % (ind, t)

    def body(self, ctx, depth, ind, nstmts, out):
        start = len(out)
        for _ in range(nstmts):
            if self.budget <= 0:
                break
            self.stmt(ctx, depth, ind, out)
        if len(out) == start:
            out.append('%spass' % ind)

    def func(self, ctx, depth, ind, out):
        rng = self.rng
        name = self.n()
        for _ in range(rng.choice([0, 0, 0, 1])):
            self.feat('decorator')
            out.append('%s@%s' % (ind, self.expr(ctx, depth, 1, True)))
        ptxt, names = self.params(ctx, depth, 2, False)
        is_async = rng.random() < 0.12
        ret = ''
        if rng.random() < 0.15:
            self.feat('annotation')
            ret = ' -> ' + self.expr(ctx, depth, 1, True)
        self.feat('async def' if is_async else 'def')
        out.append('%s%sdef %s(%s)%s:' % (ind, 'async ' if is_async else '', name, ptxt, ret))
        ctx.bind(name)
        c = Ctx('function', ctx, names)
        c.is_async = is_async
        self.seen_depth(depth + 1)
        self.declarations(c, ind + '    ', out)
        declared = sorted(c.g | c.nl)
        if declared and rng.random() < 0.3:
            k = len(out)
            self.body(c, depth + 1, ind + '    ', rng.randint(0, 2), out) if rng.random() < 0.5 else None
            if out[k:] == ['%s    pass' % ind]:
                del out[k:]
            out.append(self.structured_del(c, ind + '    ', must=rng.choice(declared)))
        self.body(c, depth + 1, ind + '    ', rng.randint(1, 5), out)

    def klass(self, ctx, depth, ind, out):
        rng = self.rng
        name = self.n()
        for _ in range(rng.choice([0, 0, 0, 1])):
            self.feat('decorator')
            out.append('%s@%s' % (ind, self.expr(ctx, depth, 1, True)))
        bases = []
        if rng.random() < 0.4:
            bases.append(self.expr(ctx, depth, 1, True))
        if rng.random() < 0.15:
            self.feat('class-keyword')
            bases.append('metaclass=%s' % self.expr(ctx, depth, 1, True))
        self.feat('class')
        out.append('%sclass %s%s:' % (ind, name, '(%s)' % ', '.join(bases) if bases else ''))
        ctx.bind(name)
        c = Ctx('class', ctx)
        self.seen_depth(depth + 1)
        self.declarations(c, ind + '    ', out)
        self.body(c, depth + 1, ind + '    ', rng.randint(1, 5), out)

    def stmt(self, ctx, depth, ind, out):
        rng = self.rng
        self.budget -= 1
        nest_ok = depth < MAX_NEST
        r = rng.random()
        deep_bias = 0.22 if (self.want_deep and nest_ok) else 0.0
        esize = 2
        if nest_ok and r < 0.16 + deep_bias:
            return self.func(ctx, depth, ind, out)
        r = rng.random()
        if nest_ok and r < 0.10 + deep_bias / 2:
            return self.klass(ctx, depth, ind, out)
        r = rng.random()
        if r < 0.26:
            n = self.n()
            v = self.expr(ctx, depth, esize)
            ctx.bind(n)
            self.feat('assign')
            return out.append('%s%s = %s' % (ind, n, v))
        if r < 0.30:
            a, b = rng.sample(self.pool, 2)
            v = self.expr(ctx, depth, 1)
            ctx.bind(a)
            ctx.bind(b)
            self.feat('tuple-assign')
            return out.append('%s%s, %s = %s' % (ind, a, b, v))
        if r < 0.42:
            self.feat('expr-stmt')
            return out.append('%s%s' % (ind, self.expr(ctx, depth, esize)))
        if r < 0.47 and ctx.kind == 'function':
            self.feat('return')
            return out.append('%sreturn %s' % (ind, self.expr(ctx, depth, esize)))
        if r < 0.53:
            self.feat('if')
            out.append('%sif %s:' % (ind, self.expr(ctx, depth, 1)))
            self.body(ctx, depth, ind + '    ', rng.randint(1, 2), out)
            if rng.random() < 0.5:
                out.append('%selse:' % ind)
                self.body(ctx, depth, ind + '    ', rng.randint(1, 2), out)
            return
        if r < 0.60:
            it = self.expr(ctx, depth, 1)
            n = self.n()
            ctx.bind(n)
            a = ctx.noncomp().is_async and ctx.kind == 'function' and rng.random() < 0.4
            self.feat('async for' if a else 'for')
            out.append('%s%sfor %s in %s:' % (ind, 'async ' if a else '', n, it))
            return self.body(ctx, depth, ind + '    ', rng.randint(1, 2), out)
        if r < 0.63:
            self.feat('while')
            out.append('%swhile %s:' % (ind, self.expr(ctx, depth, 1)))
            return self.body(ctx, depth, ind + '    ', rng.randint(1, 2), out)
        if r < 0.69:
            e = self.expr(ctx, depth, 1)
            n = self.n()
            ctx.bind(n)
            a = ctx.is_async and ctx.kind == 'function' and rng.random() < 0.4
            self.feat('async with' if a else 'with')
            out.append('%s%swith %s as %s:' % (ind, 'async ' if a else '', e, n))
            return self.body(ctx, depth, ind + '    ', rng.randint(1, 2), out)
        if r < 0.75:
            self.feat('try-except')
            out.append('%stry:' % ind)
            self.body(ctx, depth, ind + '    ', rng.randint(1, 2), out)
            n = self.n()
            e = self.expr(ctx, depth, 0)
            ctx.bind(n)
            out.append('%sexcept %s as %s:' % (ind, e, n))
            self.body(ctx, depth, ind + '    ', rng.randint(1, 2), out)
            if rng.random() < 0.3:
                out.append('%sfinally:' % ind)
                self.body(ctx, depth, ind + '    ', 1, out)
            return
        if r < 0.81:
            n = self.n()
            ctx.bind(n)
            self.feat('import')
            form = rng.random()
            if form < 0.4:
                return out.append('%simport %s' % (ind, n))
            if form < 0.7:
                return out.append('%simport os.path as %s' % (ind, n))
            return out.append('%sfrom os import path as %s' % (ind, n))
        if r < 0.87:
            n = self.n()
            v = self.expr(ctx, depth, 1)
            ctx.bind(n)
            self.feat('augassign')
            return out.append('%s%s += %s' % (ind, n, v))
        if r < 0.92:
            n = self.n()
            c = ctx.noncomp()
            if n in c.g or n in c.nl:
                self.feat('assign')
                return out.append('%s%s = %s' % (ind, n, self.expr(ctx, depth, 1)))
            ctx.bind(n)
            self.feat('annassign')
            return out.append('%s%s: %s = %s' % (ind, n, self.n(), self.expr(ctx, depth, 1)))
        if r < 0.95:
            if rng.random() < 0.5:
                d = self.structured_del(ctx, ind)
                if d:
                    return out.append(d)
            n = self.n()
            ctx.bind(n)
            self.feat('del')
            return out.append('%sdel %s' % (ind, n))
        self.feat('expr-stmt')
        return out.append('%s%s' % (ind, self.expr(ctx, depth, 3)))

    def module(self):
        out = []
        ctx = Ctx('module', None)
        if self.rng.random() < 0.12:
            self.feat('star-import')
            out.append('from %s import *' % SUPPORT_MODULE)
        if self.rng.random() < 0.05:
            n = self.n()
            ctx.g.add(n)
            self.feat('global-in-module')
            out.append('global %s' % n)
        while self.budget > 0:
            self.stmt(ctx, 0, '', out)
        return '\n'.join(out) + '\n'


def generate(rng):
    """-> (source text, {'discarded': n, 'features': {...}, 'max_depth': d})"""
    discarded = 0
    for _ in range(12):
        g = Gen(rng)
        try:
            text = g.module()
            compile(text, '<gen>', 'exec', dont_inherit=True)
        except (SyntaxError, RecursionError, ValueError):
            discarded += 1
            continue
        return text, {'discarded': discarded, 'features': dict(g.features), 'max_depth': g.max_depth}
    pool = 'abc'
    text = 'def %s(%s, /):\n    return %s\n' % (pool[0], pool[1], pool[1])
    return text, {'discarded': discarded, 'features': {'fallback': 1}, 'max_depth': 1}
