"""G-tree: generator of package directory trees spread over several source roots (C07).

A *tree* is a JSON-able dict::

    {'roots': [ {relpath: text, ...}, ... ]}      # one dict of files per source root

Domain restrictions enforced by construction (the property's quantifier):
  * every directory that holds files has an __init__.py (no PEP 420 namespace packages),
  * never a module file ``x.py`` next to a package directory ``x/`` in one directory,
  * no fake extension files (supp imports compiled modules).  Non-source modules are REAL ones:
    ``x.pyc`` = a sourceless module produced by py_compile from the text stored in the tree,
    ``x.@so`` = a link to the interpreter's own extension module ``x`` (materialised with its real
    suffix); both only as *shadowing decoys*: the check asks for names below them and for
    completions after them, never analyses them,
  * never two module files of the same stem in one directory,
  * *bare directories* (no __init__.py; empty or holding data files / stray .py files) are listed in
    ``tree['bare']`` as ``[root index, relative dir]`` -- decoys only: at top level always next to a
    REGULAR module/package of the same name in another root or in the standard library, so that
    for importlib the name is that regular module whatever the order of the roots (PEP 420 makes a
    namespace package of a bare directory only when nothing regular of that name is on the path);
    now and then one level down inside a regular package, where importlib does see a namespace
    package: the check's namespace filter takes those names out, they only have to do no harm.
    An empty directory is the key ``'dir/'``,
  * *odd names*: modules, packages and sub-packages called like soft keywords (match, type, case, _),
    with a keyword as prefix/suffix (classes, is_, not_), dunder-style (_private, __x, __future__2),
    like builtins (list, id), single letters, 60+ characters, and HARD keywords (class.py: on disk and
    importable through importlib, but not writable in an import statement -- never a required
    proposal and never put into a generated import statement),
  * *level decoys*: one module name placed in a deep package, in each of its ancestors and at top
    level, so that a relative import resolved at the wrong level lands on another existing file;
    every .py file ends with a line ``MARK_r<root>_<path> = 1``, a name no other file defines,
  * at most MAX_FILES files per tree, packages nested to depth MAX_DEPTH.

What the generator aims at: the same dotted name in different roots (module in one, package
in another, package in both with different children), deep nesting, and *decoy* source
modules/packages named after real compiled or pure stdlib modules.
All randomness comes from the ``random.Random`` passed in.
"""
import importlib.machinery
import itertools
import keyword
import os
import py_compile
import shutil
import sys

MAX_DEPTH = 4          # packages nested to depth 4 -> module names of up to 5 components
MAX_FILES = 25

TOP_POOL = ['pa', 'pb', 'pc', 'mx']
SUB_POOL = ['pa', 'pb', 'sa', 'sb', 'm', 'n', 'k']

# candidates; the check filters them at run time to names that PathFinder really resolves to an
# extension file (COMPILED) / a source file (STDLIB_*) through sys.path
COMPILED = ['_bisect', 'zlib', 'math', '_struct', '_json', 'select', 'array', '_heapq', 'binascii',
            'unicodedata', '_csv', '_datetime']
STDLIB_PKGS = {
    'json': ['decoder', 'encoder', 'scanner', 'tool'],
    'email': ['mime', 'mime.text', 'utils', 'mime.base'],
    'xml': ['dom', 'dom.minidom', 'etree', 'etree.ElementTree'],
    'logging': ['handlers', 'config'],
    'importlib': ['machinery', 'util', 'metadata'],
}
STDLIB_MODS = ['string', 'bisect', 'struct', 'heapq', 'textwrap', 'datetime']
# names that exist only in sys.modules (builtin / frozen / alias): no file behind them
LOADED_ONLY = ['sys', '_thread', 'time', 'itertools', 'posix', 'os.path', '_io', 'builtins', 'marshal']


def _count(shape):
    n = 0
    for v in shape.values():
        n += 1 if v == 'M' else 1 + _count(v)
    return n


def _random_shape(rng, depth, budget, pool, deep=False):
    """nested dict name -> 'M' (module) | dict (package); at most ``budget`` files."""
    out = {}
    if budget <= 0:
        return out
    k = rng.choice((1, 1, 2, 2, 3)) if depth else rng.choice((1, 2, 2, 3))
    names = rng.sample(pool, min(k, len(pool)))
    for i, name in enumerate(names):
        if budget <= 0:
            break
        want_pkg = depth < MAX_DEPTH and budget >= 2 and (rng.random() < (0.8 if deep and i == 0 else 0.45))
        if want_pkg:
            sub = _random_shape(rng, depth + 1, min(budget - 1, rng.choice((2, 3, 5, 8))), SUB_POOL, deep and i == 0)
            out[name] = sub
            budget -= 1 + _count(sub)
        else:
            out[name] = 'M'
            budget -= 1
    return out


def _variant(rng, shape, depth, budget):
    """a shape derived from ``shape``: same names, but dropped / flipped module<->package /
    with other children -- the overlaps that make root precedence matter."""
    out = {}
    for name, kind in shape.items():
        if budget <= 0:
            break
        r = rng.random()
        if r < 0.25:
            continue
        if kind == 'M':
            if r < 0.55 and depth < MAX_DEPTH and budget >= 2:
                sub = _random_shape(rng, depth + 1, min(budget - 1, 3), SUB_POOL)
                out[name] = sub
                budget -= 1 + _count(sub)
            else:
                out[name] = 'M'
                budget -= 1
        else:
            if r < 0.45:
                out[name] = 'M'
                budget -= 1
            else:
                sub = _variant(rng, kind, depth + 1, min(budget - 1, 8))
                out[name] = sub
                budget -= 1 + _count(sub)
    if budget > 0 and rng.random() < 0.7:
        pool = [n for n in (SUB_POOL if depth else TOP_POOL) if n not in out]
        extra = _random_shape(rng, depth, min(budget, 2), pool) if pool else {}
        out.update(extra)
    return out


def _packages(shape, prefix=()):
    for name, kind in shape.items():
        if kind != 'M':
            yield prefix + (name,), kind
            for x in _packages(kind, prefix + (name,)):
                yield x


def _add_decoy(rng, shapes):
    """a source module/package named after a real stdlib module, at top level of some root or
    inside one of its packages."""
    r = rng.random()
    if r < 0.45:
        name, children = rng.choice(COMPILED), None
    elif r < 0.8:
        name = rng.choice(sorted(STDLIB_PKGS))
        children = STDLIB_PKGS[name]
    else:
        name, children = rng.choice(STDLIB_MODS), None
    shape = rng.choice(shapes)
    where = shape
    pk = list(_packages(shape))
    if pk and rng.random() < 0.3:
        path, where = rng.choice(pk)
        if len(path) >= MAX_DEPTH:
            where = shape
    if name in where:
        return
    if rng.random() < 0.5 or where is not shape and rng.random() < 0.5:
        where[name] = 'M'
    else:
        sub = {}
        if children and rng.random() < 0.7:
            # some real child names (without their own children) and a name the real one lacks
            for c in rng.sample(children, rng.choice((1, 1, 2))):
                sub[c.split('.')[0]] = 'M'
        if rng.random() < 0.5:
            sub[rng.choice(SUB_POOL)] = 'M'
        where[name] = sub


def _flatten(shape, prefix, files):
    for name, kind in shape.items():
        rel = prefix + [name]
        dotted = '.'.join(rel)
        if kind == 'M':
            files['/'.join(rel) + '.py'] = 'NAME = %r\nattr_%s = 1\n' % (dotted, name.strip('_'))
        else:
            files['/'.join(rel) + '/__init__.py'] = 'NAME = %r\npkg_attr = 1\n' % dotted
            _flatten(kind, rel, files)


def gen_tree(rng, compiled=None):
    """one tree: 1-3 roots, <= MAX_FILES files in total (bounded retries, then a fixed small tree).
    ``compiled``: names of extension modules this interpreter really has (default: COMPILED)."""
    for _ in range(20):
        tree = _gen_tree(rng, compiled)
        try:
            check_domain(tree)
        except AssertionError:
            continue
        return tree
    return {'roots': [{'pa/__init__.py': 'NAME = "pa"\n', 'pa/m.py': 'NAME = "pa.m"\n'}, {'pa.py': 'NAME = "pa"\n'}]}


def _gen_tree(rng, compiled=None):
    nroots = rng.choice((1, 2, 2, 2, 3, 3))
    deep = rng.random() < 0.5
    budget = MAX_FILES - 2
    shapes = []
    for i in range(nroots):
        share = max(2, budget // (nroots - i))
        if i and rng.random() < 0.8:
            s = _variant(rng, rng.choice(shapes), 0, share)
        else:
            s = _random_shape(rng, 0, share, TOP_POOL, deep)
        if not s:
            s = {rng.choice(TOP_POOL): 'M'}
        budget -= _count(s)
        shapes.append(s)
    for _ in range(rng.choice((0, 1, 1, 2))):
        if sum(_count(s) for s in shapes) < MAX_FILES:
            _add_decoy(rng, shapes)
    roots = []
    for s in shapes:
        files = {}
        _flatten(s, [], files)
        roots.append(files)
    if rng.random() < 0.45:
        for _ in range(rng.choice((1, 1, 2))):
            _add_nonsource(rng, roots, compiled if compiled is not None else COMPILED)
    bare = []
    if rng.random() < 0.45:
        for _ in range(rng.choice((1, 1, 2))):
            _add_bare_dir(rng, roots, bare, compiled if compiled is not None else COMPILED)
    if rng.random() < 0.45:
        _add_level_decoys(rng, roots, bare)
    if rng.random() < 0.55:
        _add_odd_names(rng, roots, bare)
    for i, files in enumerate(roots):
        for rel in files:
            if rel.endswith('.py'):
                files[rel] += '%s = 1\n' % marker_of(i, rel)
    tree = {'roots': roots}
    if bare:
        tree['bare'] = bare
    return tree


ODD_NAMES = {
    'soft-keyword': ['match', 'type', 'case', '_'],
    'keyword-affix': ['classes', 'is_', 'not_', 'async_', 'def_', 'inner_in', 'importlib2', 'lambda_', '_class', 'subclass',
                      'None_', 'in_'],
    'dunder-style': ['__future__2', '_private', '__x', '__main2__', '___'],
    'builtin-name': ['list', 'id', 'print', 'len'],
    'single-letter': ['a', 'x', 'q', 'Z'],
    'long': ['very_long_module_name_' + 'x' * 44],
    'hard-keyword': ['class', 'in', 'not', 'async', 'None', 'def'],
}
_ODD_OF = {n: k for k, v in ODD_NAMES.items() for n in v}


def name_category(name):
    """which odd-name family a module name belongs to ('plain' for the ordinary pools)"""
    if name in _ODD_OF:
        return _ODD_OF[name]
    if keyword.iskeyword(name):
        return 'hard-keyword'
    if name in getattr(keyword, 'softkwlist', ()):
        return 'soft-keyword'
    return 'plain'


def has_hard_keyword(dotted):
    """a dotted (possibly relative) name one of whose components cannot be written in an import statement"""
    return any(keyword.iskeyword(c) for c in dotted.strip('.').split('.') if c)


def _add_odd_names(rng, roots, bare):
    """1-3 oddly named modules / packages / sub-packages, at top level or inside existing packages."""
    cats = ['soft-keyword'] * 4 + ['keyword-affix'] * 2 + ['dunder-style', 'builtin-name', 'single-letter', 'long',
                                                          'hard-keyword', 'hard-keyword']
    for _ in range(rng.choice((1, 2, 2, 3))):
        total = sum(len(f) for f in roots)
        if total >= MAX_FILES - 1:
            return
        name = rng.choice(ODD_NAMES[rng.choice(cats)])
        i = rng.randrange(len(roots))
        files = roots[i]
        skip = [b for k, b in bare if k == i]
        pkdirs = sorted({rel.rsplit('/', 1)[0] for rel in files if rel.endswith('/__init__.py')
                         and not any(rel.startswith(b + '/') for b in skip)})
        d = '' if not pkdirs or rng.random() < 0.4 else rng.choice(pkdirs)
        if name in _stems_in(files, d) or (not d and name in [b for b in skip]):
            continue
        pre = d + '/' if d else ''
        depth = d.count('/') + 1 if d else 0
        dotted = (pre + name).replace('/', '.')
        if rng.random() < 0.45 and depth < MAX_DEPTH and total <= MAX_FILES - 3:
            files[pre + name + '/__init__.py'] = 'NAME = %r\npkg_attr = 1\n' % dotted
            child = rng.choice(SUB_POOL + ODD_NAMES['soft-keyword'] + ['classes', '_private', 'class'])
            files[pre + name + '/' + child + '.py'] = 'NAME = %r\nattr_%s = 1\n' % (dotted + '.' + child, child.strip('_'))
        else:
            files[pre + name + '.py'] = 'NAME = %r\nattr_%s = 1\n' % (dotted, name.strip('_'))


def marker_of(root, rel):
    return 'MARK_r%d_%s' % (root, rel[:-3].replace('/', '__'))


def _stems_in(files, d):
    """names taken in directory ``d`` ('' = top level) of one root"""
    pre = d + '/' if d else ''
    return {rel[len(pre):].split('/')[0].split('.')[0] for rel in files if rel.startswith(pre)}


def _add_level_decoys(rng, roots, bare):
    """the same module name in a deep package, in every ancestor package and at top level."""
    i = rng.randrange(len(roots))
    files = roots[i]
    skip = [b for k, b in bare if k == i]
    chains = sorted({rel.rsplit('/', 1)[0] for rel in files if rel.endswith('/__init__.py')
                     and not any(rel.startswith(b + '/') for b in skip)},
                    key=lambda d: (-d.count('/'), d))
    if not chains:
        return
    deep = [d for d in chains if d.count('/') == chains[0].count('/')]
    d = rng.choice(deep)
    name = rng.choice(SUB_POOL + ['x', 'x'])
    parts = d.split('/')
    total = sum(len(f) for f in roots)
    for k in range(len(parts), -1, -1):
        anc = '/'.join(parts[:k])
        if total >= MAX_FILES - 1:
            break
        if name in _stems_in(files, anc):
            continue
        rel = (anc + '/' if anc else '') + name + '.py'
        files[rel] = 'NAME = %r\nattr_%s = 1\n' % (rel[:-3].replace('/', '.'), name)
        total += 1


def _add_bare_dir(rng, roots, bare, compiled):
    """a directory WITHOUT __init__.py named like a regular package/module that another root (or the
    standard library) has: importlib skips it in favour of the regular one, before or after it."""
    i = rng.randrange(len(roots))
    here = _top_names(roots[i])
    others = [j for j in range(len(roots)) if j != i]
    r = rng.random()
    if r < 0.1:
        # one level down inside a regular package of this root (a PEP 420 portion for importlib)
        pkdirs = sorted({rel.rsplit('/', 1)[0] for rel in roots[i]
                         if rel.endswith('/__init__.py') and rel.count('/') < MAX_DEPTH - 1
                         and not any(rel.startswith(b + '/') for k, b in bare if k == i)})
        if not pkdirs:
            return
        d = rng.choice(pkdirs)
        stems = {rel[len(d) + 1:].split('/')[0].split('.')[0] for rel in roots[i] if rel.startswith(d + '/')}
        cands = [n for n in SUB_POOL + ['data'] if n not in stems]
        if not cands:
            return
        name = d + '/' + rng.choice(cands)
        roots[i][name + '/' + rng.choice(('notes.txt', 'x.py'))] = 'X = 1\n'
        bare.append([i, name])
        return
    pk = sorted({rel.split('/')[0] for j in others for rel in roots[j]
                 if rel.count('/') == 1 and rel.endswith('/__init__.py')} - here)
    mods = sorted({rel[:-3] for j in others for rel in roots[j] if '/' not in rel and rel.endswith('.py')} - here)
    std = [n for n in sorted(STDLIB_PKGS) + list(compiled) + STDLIB_MODS if n not in here]
    if pk and r < 0.65:
        name, kids = rng.choice(pk), None
        kids = sorted({rel.split('/')[1].split('.')[0] for j in others for rel in roots[j]
                       if rel.startswith(name + '/') and rel.count('/') >= 1} - {'__init__'})
        if not kids:
            # give the regular package something to find below it
            j = next(j for j in others if name + '/__init__.py' in roots[j])
            roots[j][name + '/inner.py'] = 'NAME = %r\nattr_inner = 1\n' % (name + '.inner')
            kids = ['inner']
    elif mods and r < 0.75:
        name, kids = rng.choice(mods), []
    elif std:
        name = rng.choice(std)
        kids = [c.split('.')[0] for c in STDLIB_PKGS.get(name, [])]
    else:
        return
    c = rng.random()
    if c < 0.25:
        roots[i][name + '/'] = ''                                  # empty directory
    elif c < 0.55:
        roots[i][name + '/notes.txt'] = 'not python\n'
        if rng.random() < 0.4:
            roots[i][name + '/data/table.csv'] = 'a,b\n'
    else:
        # stray .py files, one of them named like a real child of the regular package
        if kids and rng.random() < 0.7:
            roots[i][name + '/' + rng.choice(kids) + '.py'] = 'NAME = "stray"\n'
        if not kids or rng.random() < 0.6:
            roots[i][name + '/helper.py'] = 'NAME = "stray"\n'
        if rng.random() < 0.3:
            roots[i][name + '/notes.txt'] = 'not python\n'
    bare.append([i, name])


def _top_names(files):
    return {rel.split('/')[0].split('.')[0] for rel in files}


def _add_nonsource(rng, roots, compiled):
    """a sourceless .pyc module or a real extension module at the top level of one root, preferably
    with a PACKAGE of the same name in another root (importlib: the first match is not a package, so
    nothing below the name is importable when that root comes first)."""
    use_so = bool(compiled) and rng.random() < 0.3
    suffix = '.@so' if use_so else '.pyc'
    i = rng.randrange(len(roots))
    here = _top_names(roots[i])
    others = [j for j in range(len(roots)) if j != i]
    if use_so:
        cands = [n for n in compiled if n not in here]
        if not cands:
            return
        name = rng.choice(cands)
    else:
        # a package name of another root that this root does not have
        pk = sorted({rel.split('/')[0] for j in others for rel in roots[j]
                     if rel.count('/') == 1 and rel.endswith('/__init__.py')} - here)
        if pk and rng.random() < 0.75:
            name = rng.choice(pk)
        else:
            cands = [n for n in TOP_POOL + ['pq', 'bc'] if n not in here]
            if not cands:
                return
            name = rng.choice(cands)
    roots[i][name + suffix] = '' if use_so else 'NAME = %r\nsourceless = 1\n' % name
    # make sure some other root has a package of that name (most of the time)
    if others and rng.random() < 0.8:
        j = rng.choice(others)
        if name not in _top_names(roots[j]):
            roots[j][name + '/__init__.py'] = 'NAME = %r\npkg_attr = 1\n' % name
            roots[j][name + '/inner.py'] = 'NAME = %r\nattr_inner = 1\n' % (name + '.inner')
            if rng.random() < 0.4:
                roots[j][name + '/sub/__init__.py'] = 'NAME = %r\npkg_attr = 1\n' % (name + '.sub')
                roots[j][name + '/sub/leaf.py'] = 'NAME = %r\nattr_leaf = 1\n' % (name + '.sub.leaf')
    # occasionally also a sourceless module inside a package (a module-not-package prefix of another kind)
    if not use_so and rng.random() < 0.25:
        pkdirs = sorted({rel.rsplit('/', 1)[0] for rel in roots[i] if '/' in rel and rel.count('/') < MAX_DEPTH})
        if pkdirs:
            d = rng.choice(pkdirs)
            stems = {rel[len(d) + 1:].split('/')[0].split('.')[0] for rel in roots[i] if rel.startswith(d + '/')}
            cands = [n for n in SUB_POOL + ['bc'] if n not in stems]
            if cands:
                n = rng.choice(cands)
                roots[i][d + '/' + n + '.pyc'] = 'NAME = %r\nsourceless = 1\n' % (d.replace('/', '.') + '.' + n)


def check_domain(tree):
    """the generator's own sanity check (AssertionError = generator bug, never a supp alarm)."""
    total = 0
    known_std = set(STDLIB_PKGS) | set(COMPILED) | set(STDLIB_MODS)
    for idx, files in enumerate(tree['roots']):
        total += len(files)
        dirs = set()
        stems = set()
        bares = [b for k, b in tree.get('bare', []) if k == idx]
        for rel in files:
            assert not rel.startswith('/') and '..' not in rel, rel
            parts = rel.rstrip('/').split('/')
            assert len(parts) <= MAX_DEPTH + 1, rel
            if under_bare(tree, idx, rel):
                # anything but an __init__ module may lie in a bare directory
                assert not any(x.split('.')[0] == '__init__' for x in parts), rel
                continue
            assert rel.endswith(SUFFIXES), rel
            for i in range(1, len(parts)):
                dirs.add('/'.join(parts[:i]))
            stem = strip_suffix(rel)
            assert stem not in stems, ('two module files of one stem', rel)
            stems.add(stem)
            assert rel.endswith('.py') or not stem.endswith('__init__'), rel
        for d in dirs:
            assert d + '/__init__.py' in files, ('namespace dir', d)
            assert d not in stems, ('module next to package', d)
        for b in bares:
            assert b not in dirs and b not in stems, ('bare directory next to a module/package of its name', b)
            assert any(under_bare(tree, idx, rel) for rel in files), ('bare directory without an entry', b)
            if '/' in b:
                assert b.rsplit('/', 1)[0] in dirs, ('bare directory not inside a regular package', b)
            else:
                # something regular of that name elsewhere: never a top-level namespace package
                elsewhere = any(b + sfx in f or b + '/__init__.py' in f
                                for k, f in enumerate(tree['roots']) if k != idx for sfx in SUFFIXES)
                assert elsewhere or b in known_std, ('top-level bare directory would be a namespace package', b)
    assert 0 < total <= MAX_FILES, total


def under_bare(tree, idx, rel):
    """is the entry ``rel`` of root ``idx`` (a file, or 'dir/' for an empty directory) inside a bare directory?"""
    for k, b in tree.get('bare', ()):
        if k == idx and (rel.startswith(b + '/')):
            return True
    return False


SUFFIXES = ('.py', '.pyc', '.@so')


def strip_suffix(rel):
    for sfx in SUFFIXES:
        if rel.endswith(sfx):
            return rel[:-len(sfx)]
    raise ValueError(rel)


def orders(tree):
    """every order of the roots."""
    return [list(p) for p in itertools.permutations(range(len(tree['roots'])))]


def write_tree(tree, base):
    """materialise under ``base``; returns the root directories (index-aligned with tree['roots'])."""
    dirs = []
    for i, files in enumerate(tree['roots']):
        rd = os.path.join(base, 'r%d' % i)
        os.makedirs(rd)
        for rel, text in sorted(files.items()):
            if rel.endswith('/'):
                os.makedirs(os.path.join(rd, *rel.rstrip('/').split('/')), exist_ok=True)
                continue
            fn = os.path.join(rd, *rel.split('/'))
            os.makedirs(os.path.dirname(fn), exist_ok=True)
            if rel.endswith('.pyc'):
                # a real sourceless module: compile the text, keep only the .pyc
                src = os.path.join(base, '_pyc_src_%d.py' % len(dirs))
                with open(src, 'w') as f:
                    f.write(text)
                py_compile.compile(src, cfile=fn, doraise=True)
                os.unlink(src)
            elif rel.endswith('.@so'):
                # the interpreter's own extension module of that name, under its real suffix
                name = os.path.basename(rel)[:-4]
                spec = importlib.machinery.PathFinder.find_spec(name, list(sys.path))
                if spec is None or not isinstance(spec.loader, importlib.machinery.ExtensionFileLoader):
                    raise TreeNotWritable('no extension module %r in this interpreter' % name)
                dest = os.path.join(os.path.dirname(fn), os.path.basename(spec.origin))
                try:
                    os.symlink(spec.origin, dest)
                except OSError:
                    shutil.copyfile(spec.origin, dest)
            else:
                with open(fn, 'w') as f:
                    f.write(text)
        dirs.append(rd)
    return dirs


class TreeNotWritable(Exception):
    """the tree names something this interpreter does not have: the case is discarded, not reported"""


# ---------------------------------------------------------------------------------------
# names

def dotted_of(rel):
    """'pa/pb/m.py' -> ('pa.pb.m', 'module'); 'pa/pb/__init__.py' -> ('pa.pb', 'package');
    'x.pyc' -> ('x', 'sourceless'); 'x.@so' -> ('x', 'compiled-link')."""
    parts = strip_suffix(rel).split('/')
    if rel.endswith('.pyc'):
        return '.'.join(parts), 'sourceless'
    if rel.endswith('.@so'):
        return '.'.join(parts), 'compiled-link'
    if parts[-1] == '__init__':
        return '.'.join(parts[:-1]), 'package'
    return '.'.join(parts), 'module'


def package_of(rel):
    """__package__ of the module a file is when it is imported from its root: the dotted path of
    its directory (every directory of a generated tree is a regular package)."""
    parts = rel.split('/')
    return '.'.join(parts[:-1])


def file_backed(tree):
    """dotted name -> list of (root index, relpath, kind) over all roots."""
    out = {}
    for i, files in enumerate(tree['roots']):
        for rel in sorted(files):
            if under_bare(tree, i, rel):
                # stray .py files of a bare directory: their would-be names are asked for (importlib does
                # not find them there), data files and empty directories have no name
                if rel.endswith('.py'):
                    out.setdefault(dotted_of(rel)[0], []).append((i, rel, 'under-bare-directory'))
                continue
            name, kind = dotted_of(rel)
            out.setdefault(name, []).append((i, rel, kind))
    return out


def misspell(rng, name):
    """single-character misspelling of one component."""
    parts = name.split('.')
    i = rng.randrange(len(parts))
    c = parts[i]
    op = rng.choice(('sub', 'del', 'ins', 'dup'))
    j = rng.randrange(len(c))
    if op == 'del' and len(c) > 1:
        c = c[:j] + c[j + 1:]
    elif op == 'ins':
        c = c[:j] + rng.choice('qxz') + c[j:]
    elif op == 'dup':
        c = c[:j] + c[j] + c[j:]
    else:
        c = c[:j] + rng.choice([x for x in 'abmnpqsz' if x != c[j]]) + c[j + 1:]
    parts[i] = c
    return '.'.join(parts)


def absolute_names(rng, tree, compiled, stdlib_pkgs, stdlib_mods):
    """list of (kind, dotted name): everything the property quantifies over for one tree."""
    fb = file_backed(tree)
    out = []
    seen = set()

    def add(kind, name):
        if name and name not in seen and '..' not in name and not name.startswith('.') and not name.endswith('.'):
            seen.add(name)
            out.append((kind, name))

    names = sorted(fb)
    for n in names:
        add('file-backed', n)
    modules = [n for n in names if any(k in ('module', 'sourceless', 'compiled-link') for _, _, k in fb[n])]
    packages = [n for n in names if any(k == 'package' for _, _, k in fb[n])]
    leafs = sorted({n.rpartition('.')[2] for n in names})
    # prefixes that are modules, not packages (in at least one root)
    for n in modules:
        add('module-prefix', n + '.' + rng.choice(leafs))
        add('module-prefix', n + '.zq')
    # children that exist under the same package name in another root, absent children
    for n in packages:
        add('absent-child', n + '.zq_absent')
        add('dunder-init', n + '.__init__')
    for n in names:
        add('misspelt', misspell(rng, n))
        if rng.random() < 0.5:
            add('misspelt', misspell(rng, n))
    add('absent', 'zq_absent')
    add('absent', 'zq_absent.m')
    add('absent', rng.choice(TOP_POOL) + '_zq.m')
    # real compiled / stdlib names, and their behaviour behind decoys
    for n in compiled:
        add('compiled', n)
    for n in rng.sample(compiled, min(2, len(compiled))):
        add('compiled-child', n + '.m')
    for n in stdlib_mods:
        add('stdlib-module', n)
    for p in sorted(stdlib_pkgs):
        add('stdlib-package', p)
        for c in stdlib_pkgs[p]:
            add('stdlib-submodule', p + '.' + c)
    tops = {n for n in names if '.' not in n}
    for n in sorted(tops):
        if n in STDLIB_PKGS:
            for c in STDLIB_PKGS[n]:
                add('stdlib-submodule', n + '.' + c)
    for n in LOADED_ONLY:
        add('loaded-only', n)
    return out


def relative_specs(rng, tree, root, rel):
    """relative specifiers of level 1..depth+2 from one file (depth = number of packages the file
    lies in; level depth+1 climbs out of the top-level package)."""
    pkg = package_of(rel)
    depth = len(pkg.split('.')) if pkg else 0
    fb = file_backed(tree)
    leafs = sorted({n.rpartition('.')[2] for n in fb})
    out = []
    for level in range(1, depth + 3):
        dots = '.' * level
        out.append(dots)
        base = pkg.split('.')[:max(0, depth - (level - 1))] if pkg else []
        # names that exist below the target package somewhere in the tree
        prefix = '.'.join(base)
        kids = sorted({n[len(prefix) + 1:] for n in fb if prefix and n.startswith(prefix + '.')})
        if kids:
            for k in rng.sample(kids, min(2, len(kids))):
                out.append(dots + k)
        out.append(dots + rng.choice(leafs))
        out.append(dots + 'zq_absent')
    return out


def toplevel_names(text):
    """names a module text binds at top level (generated texts: plain assignments)"""
    import ast
    out = set()
    try:
        body = ast.parse(text).body
    except SyntaxError:
        return out
    for st in body:
        if isinstance(st, ast.Assign):
            for t in st.targets:
                if isinstance(t, ast.Name):
                    out.add(t.id)
        elif isinstance(st, (ast.FunctionDef, ast.ClassDef, ast.AsyncFunctionDef)):
            out.add(st.name)
    return out


def use_queries(rng, tree, root, rel, limits=(14, 8, 8, 6)):
    """Import statements for one importing file, each followed by a USE of the bound name.

    -> list of dicts {'form', 'kind': 'from'|'import', 'module', 'name', 'alias', 'use'}:
       from-dots-only   'from <dots> import sub'            levels 1..depth+2 (>= 4 where depth allows)
       from-dots-pkg    'from <dots>pkg import sub'
       import-dotted    'import a.b.c'  (use: a.b.c, or a prefix of it)
       from-abs-as      'from a.b import c as d'
    The candidate names are those that exist (as module or package) at ANY level of the importing
    file's ancestry or at top level, so a wrong level finds something else; plus an absent name and
    an attribute of the package's __init__."""
    fb = file_backed(tree)
    pkg = package_of(rel)
    parts = pkg.split('.') if pkg else []
    depth = len(parts)
    names = sorted(fb)
    kids_of = {}
    for n in names:
        par, _, leaf = n.rpartition('.')
        kids_of.setdefault(par, set()).add(leaf)
    anc = ['.'.join(parts[:k]) for k in range(depth, -1, -1)]          # own package ... '' (top level)
    pool = set()
    for a in anc:
        pool |= kids_of.get(a, set())
    multi = sorted(n for n in pool if sum(1 for a in anc if n in kids_of.get(a, ())) > 1)
    pool = sorted(pool)
    a_dots, a_pkg, a_imp, a_as = [], [], [], []
    if depth:
        for level in range(1, depth + 3):
            dots = '.' * level
            base = '.'.join(parts[:depth - (level - 1)]) if level <= depth else None
            cands = list(multi) + (rng.sample(pool, min(2, len(pool))) if pool else [])
            if base is not None:
                here = sorted(kids_of.get(base, ()))
                cands += rng.sample(here, min(2, len(here)))
            cands += ['zq_absent', 'pkg_attr']
            seen = set()
            for c in cands:
                if c in seen:
                    continue
                seen.add(c)
                a_dots.append({'form': 'from-dots-only', 'kind': 'from', 'module': dots, 'name': c, 'alias': None, 'use': c})
            if base is not None:
                for sub in sorted(kids_of.get(base, ())):
                    full = (base + '.' + sub) if base else sub
                    for c in sorted(kids_of.get(full, ())):
                        a_pkg.append({'form': 'from-dots-pkg', 'kind': 'from', 'module': dots + sub, 'name': c,
                                      'alias': None, 'use': c})
    for n in names:
        if '.' in n:
            a_imp.append({'form': 'import-dotted', 'kind': 'import', 'module': n, 'name': None, 'alias': None, 'use': n})
            pre = n.rpartition('.')[0]
            if rng.random() < 0.3:
                a_imp.append({'form': 'import-dotted', 'kind': 'import', 'module': n, 'name': None, 'alias': None, 'use': pre})
            if rng.random() < 0.3:
                a_imp.append({'form': 'import-dotted', 'kind': 'import', 'module': n, 'name': None, 'alias': 'w', 'use': 'w'})
            par, _, leaf = n.rpartition('.')
            a_as.append({'form': 'from-abs-as', 'kind': 'from', 'module': par, 'name': leaf, 'alias': 'd', 'use': 'd'})
    a_imp.append({'form': 'import-dotted', 'kind': 'import', 'module': 'zq_absent.m', 'name': None, 'alias': None, 'use': 'zq_absent.m'})
    if names:
        n = rng.choice(names)
        a_imp.append({'form': 'import-dotted', 'kind': 'import', 'module': n + '.zq_absent', 'name': None, 'alias': None,
                      'use': n + '.zq_absent'})
        a_as.append({'form': 'from-abs-as', 'kind': 'from', 'module': n, 'name': 'zq_absent', 'alias': 'd', 'use': 'd'})
        a_as.append({'form': 'from-abs-as', 'kind': 'from', 'module': n, 'name': 'NAME', 'alias': 'd', 'use': 'd'})
    # a hard keyword cannot be written in an import statement
    for group in (a_dots, a_pkg, a_imp, a_as):
        group[:] = [q for q in group if not has_hard_keyword(q['module']) and not (q['name'] and keyword.iskeyword(q['name']))
                    and not has_hard_keyword(q['use'])]
    out = []
    # level >= 2 first: that is where a collapsed level shows
    high = [q for q in a_dots if len(q['module']) >= 2]
    low = [q for q in a_dots if len(q['module']) < 2]
    pick = rng.sample(high, min(limits[0] - 3, len(high)))
    pick += rng.sample(low, min(limits[0] - len(pick), len(low)))
    out += pick
    for group, lim in ((a_pkg, limits[1]), (a_imp, limits[2]), (a_as, limits[3])):
        out += rng.sample(group, min(lim, len(group)))
    return out


def statement_of(q):
    if q['kind'] == 'from':
        return 'from %s import %s%s' % (q['module'], q['name'], ' as ' + q['alias'] if q['alias'] else '')
    return 'import %s%s' % (q['module'], ' as ' + q['alias'] if q['alias'] else '')
