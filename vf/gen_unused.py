"""G-unused (C10): modules that cover binding kind x scope kind x name shape.

Every identifier is decided once as "read" or "never read"; a never-read identifier gets no
Name(Load) anywhere in the module.  The generator only has to produce *valid, diverse* code:
the oracle in vf/props/c10.py re-derives everything (bindings, kinds, scopes, never-read) from
the text, so a generator bug can at worst lower coverage, never cause a false alarm.
"""

STMT_KINDS = ['assign', 'assign-unpack', 'assign-star', 'annassign', 'for', 'with', 'except', 'def', 'asyncdef',
              'class', 'import', 'import-as', 'import-dotted', 'from', 'from-as']
EXPR_KINDS = ['walrus', 'comp']
PARAM_KINDS = ['param', 'param-posonly', 'param-kwonly', 'param-vararg', 'param-kwarg']
SHAPES = ['plain', 'under', 'dunder', 'bare_']
IMPORTS = ('import', 'import-as', 'import-dotted', 'from', 'from-as')
FUTURES = ['annotations', 'division', 'print_function', 'generator_stop', 'unicode_literals']


def feasible_cells():
    cells = set()
    block_scopes = ['module', 'class', 'class-in-func', 'function', 'method', 'nested-func']
    func_scopes = ['function', 'method', 'nested-func']
    lambda_scopes = ['lambda-in-module', 'lambda-in-class', 'lambda-in-func']
    for sh in SHAPES:
        for sc in block_scopes:
            for k in STMT_KINDS + EXPR_KINDS:
                cells.add('%s|%s|%s' % (k, sc, sh))
        for sc in func_scopes:
            for k in STMT_KINDS + ['walrus']:
                if k != 'annassign':
                    cells.add('%s|%s+global|%s' % (k, sc, sh))
        for sc in ('class', 'class-in-func'):
            for k in STMT_KINDS + ['walrus']:
                if k != 'annassign' and k not in IMPORTS:
                    cells.add('%s|%s+global|%s' % (k, sc, sh))
        for k in STMT_KINDS + ['walrus']:
            if k != 'annassign':
                cells.add('%s|nested-func+nonlocal|%s' % (k, sh))
                cells.add('%s|method+nonlocal|%s' % (k, sh))
                cells.add('%s|module+global|%s' % (k, sh))
        for sc in lambda_scopes:
            for k in EXPR_KINDS + PARAM_KINDS:
                cells.add('%s|%s|%s' % (k, sc, sh))
        for sc in func_scopes:
            for k in PARAM_KINDS:
                cells.add('%s|%s|%s' % (k, sc, sh))
    cells.add('future|module|plain')
    cells.add('future|module|under')
    return sorted(cells)


class Ctx(object):
    def __init__(self, kind, parent=None, is_async=False):
        self.kind = kind                  # module / class / function / lambda
        self.parent = parent
        self.is_async = is_async
        self.gl = []
        self.nl = []
        self.bound = set()
        self.params = set()
        self.depth = 0 if parent is None else parent.depth + 1

    def enclosing_function(self):
        p = self.parent
        while p is not None:
            if p.kind == 'function':
                return p
            if p.kind == 'module':
                return None
            p = p.parent
        return None


class E(object):
    """expression context"""
    def __init__(self, ctx, walrus_ok=True, comp_targets=(), in_comp=False):
        self.ctx = ctx
        self.walrus_ok = walrus_ok
        self.comp_targets = frozenset(comp_targets)
        self.in_comp = in_comp


class G(object):
    def __init__(self, rng):
        self.r = rng
        self.decided = {}
        self.counter = 0
        self.lines = []
        self.budget = rng.randint(18, 60)
        self.p_read = rng.choice([0.15, 0.3, 0.3, 0.5])
        self.deviant = rng.random() < 0.5      # allow constructs supp is known to skip (kw-default lambdas, ...)
        # never-read outer binding + nested class body / function that rebinds it conditionally and calls locals()
        self.p_shadow = rng.choice([0.0, 0.04, 0.08, 0.15])

    # -- identifiers ----------------------------------------------------------------------
    def ident(self, avoid=(), reuse=0.2):
        r = self.r
        for _ in range(20):
            if self.decided and r.random() < reuse:
                id = r.choice(sorted(self.decided))
            else:
                x = r.random()
                self.counter += 1
                if x < 0.50:
                    id = 'n%d' % self.counter
                elif x < 0.70:
                    id = '_n%d' % self.counter
                elif x < 0.82:
                    id = '__n%d__' % self.counter
                elif x < 0.93:
                    id = '_'
                else:
                    id = r.choice(['sa', 'sb', 'v1', 'v2', 'sf'])
            if id not in avoid and id not in ('use', 'it', 'cm', 'Err', 'self'):
                break
        else:
            self.counter += 1
            id = 'n%d' % self.counter
        if id not in self.decided:
            self.decided[id] = r.random() < self.p_read
        return id

    def tid(self, ctx, kind, avoid=()):
        """identifier for a statement-level binding in ctx (may be one declared global/nonlocal there)"""
        r = self.r
        if kind != 'annassign':
            if ctx.gl and r.random() < 0.3:
                return r.choice(ctx.gl)
            if ctx.nl and r.random() < 0.4:
                return r.choice(ctx.nl)
            id = self.ident(avoid)
        else:
            id = self.ident(tuple(avoid) + tuple(ctx.gl) + tuple(ctx.nl))
        if id not in ctx.gl:
            ctx.bound.add(id)
        return id

    def emit(self, ind, s):
        self.lines.append('    ' * ind + s)

    def reads(self, ctx, ind, ids):
        rd = [i for i in ids if self.decided.get(i)]
        if rd and self.r.random() < 0.6:
            self.emit(ind, 'use(%s)' % ', '.join(rd))

    # -- expressions ------------------------------------------------------------------------
    def atom(self, e):
        r = self.r
        x = r.random()
        rd = [i for i in self.decided if self.decided[i]]
        if x < 0.3 and rd:
            return r.choice(sorted(rd))
        if x < 0.5:
            return 'it()'
        return r.choice(['0', '1', 'None', '()', "'s'"])

    def ex(self, e, d):
        r = self.r
        if d <= 0:
            return self.atom(e)
        x = r.random()
        if x < 0.28:
            return self.atom(e)
        if x < 0.38:
            return 'use(%s, %s)' % (self.ex(e, d - 1), self.ex(e, d - 1))
        if x < 0.55:
            return self.lam(e, d - 1)
        if x < 0.72:
            return self.comp(e, d - 1)
        if x < 0.82:
            if e.walrus_ok:
                return self.walrus(e, d - 1)
            return self.atom(e)
        return self.composite(e, d)

    def composite(self, e, d):
        """operators, displays, subscripts, attribute bases, call arguments, f-strings hosting sub-expressions"""
        r = self.r
        sub = lambda: self.ex(e, d - 1)
        k = r.choice(['list', 'tuple', 'dict', 'set', 'binop', 'ifexp', 'boolop', 'not', 'cmp', 'neg', 'index',
                      'slice', 'attr', 'kwarg', 'starargs', 'fstr', 'fstr2', 'star-display', 'dictsplat'])
        if k == 'list':
            return '[%s, %s]' % (sub(), sub())
        if k == 'tuple':
            return '(%s, %s)' % (sub(), sub())
        if k == 'dict':
            return '{%s: %s}' % (sub(), sub())
        if k == 'set':
            return '{%s, 0}' % sub()
        if k == 'binop':
            return '(%s %s %s)' % (sub(), r.choice(['+', '-', '*', '|', '@', '//', '<<']), sub())
        if k == 'ifexp':
            return '(%s if %s else %s)' % (sub(), sub(), sub())
        if k == 'boolop':
            return '(%s %s %s)' % (sub(), r.choice(['and', 'or']), sub())
        if k == 'not':
            return '(not %s)' % sub()
        if k == 'cmp':
            return '(%s %s %s)' % (sub(), r.choice(['<', '==', '!=', 'in', 'not in']), sub())
        if k == 'neg':
            return '(-%s)' % sub()
        if k == 'index':
            return 'it()[%s]' % sub()
        if k == 'slice':
            return 'it()[%s:%s]' % (sub(), sub())
        if k == 'attr':
            return r.choice(['use(%s).a', '(%s).a']) % sub()
        if k == 'kwarg':
            return 'use(0, k=%s)' % sub()
        if k == 'starargs':
            return 'use(*%s, **%s)' % (sub(), sub())
        if k == 'fstr':
            return "f'a{ %s }b'" % sub()
        if k == 'fstr2':
            return "f'{ %s!r:>{ %s }}'" % (sub(), sub())
        if k == 'star-display':
            return '[*%s, 0]' % sub()
        return '{**%s}' % sub()

    def bx(self, e, d=2):
        """an expression that most of the time *is* a binding construct (lambda, comprehension, walrus)"""
        x = self.r.random()
        if x < 0.3:
            return self.lam(e, 1)
        if x < 0.6:
            return self.comp(e, 1)
        if x < 0.75 and e.walrus_ok:
            return self.walrus(e, 1)
        return self.ex(e, d)

    def host_stmt(self, ctx, ind):
        """statements whose expression positions host binding constructs: augmented assignments (name /
        attribute / subscript targets), subscript and attribute stores, del, raise, assert, with items, handler
        types, match subject and guard, annotations, f-strings, class keywords, decorators, call arguments,
        defaults, return / yield / await operands, loop and branch conditions"""
        r = self.r
        e = E(ctx)
        ea = E(ctx, walrus_ok=False)          # annotations
        b = lambda: self.bx(e)
        kinds = ['aug-name', 'aug-name', 'aug-attr', 'aug-sub', 'aug-sub2', 'aug-attr2', 'store-sub', 'store-attr',
                 'del', 'raise', 'assert2', 'withitem', 'handler', 'match', 'annonly', 'annassign', 'fstr', 'classkw',
                 'deco', 'callargs', 'slice', 'signature', 'lamsig', 'foriter', 'whilecond', 'ifelif', 'starval',
                 'lambody', 'exprstmt']
        if ctx.kind == 'function':
            kinds += ['return', 'return']
            if ctx.is_async:
                kinds += ['await', 'await']
            else:
                kinds += ['yield', 'yield-assign', 'yieldfrom']
        if ind >= 5:
            kinds = [k for k in kinds if k not in ('withitem', 'handler', 'match', 'classkw', 'deco', 'signature',
                                                   'foriter', 'whilecond', 'ifelif')]
        k = r.choice(kinds)
        op = r.choice(['+=', '-=', '|=', '*=', '//=', '@=', '>>=', '&=', '**=', '^=', '%='])
        if k == 'aug-name':
            self.emit(ind, '%s %s %s' % (self.ident(tuple(ctx.gl) if ctx.kind == 'module' else ()), op, b()))
        elif k == 'aug-attr':
            self.emit(ind, '%s %s %s' % (r.choice(['it().a', 'self.a', 'cm.b']), op, b()))
        elif k == 'aug-attr2':
            self.emit(ind, 'use(%s).a %s %s' % (b(), op, b()))
        elif k == 'aug-sub':
            self.emit(ind, 'it()[0] %s %s' % (op, b()))
        elif k == 'aug-sub2':
            self.emit(ind, 'it()[%s] %s %s' % (b(), op, b()))
        elif k == 'store-sub':
            self.emit(ind, 'it()[%s] = %s' % (b(), b()))
        elif k == 'store-attr':
            self.emit(ind, 'use(%s).a = %s' % (b(), b()))
        elif k == 'del':
            self.emit(ind, r.choice(['del it()[%s]', 'del use(%s).a', 'del (it()[%s]), it().b']) % b())
        elif k == 'raise':
            if r.random() < 0.5:
                self.emit(ind, 'raise Err(%s)' % b())
            else:
                self.emit(ind, 'raise use(%s) from %s' % (b(), b()))
        elif k == 'assert2':
            self.emit(ind, 'assert %s, %s' % (b(), b()))
        elif k == 'withitem':
            pre = 'async ' if ctx.kind == 'function' and ctx.is_async and r.random() < 0.4 else ''
            x = r.random()
            if x < 0.4:
                t = self.tid(ctx, 'with')
                self.emit(ind, '%swith use(%s) as %s:' % (pre, b(), t))
            elif x < 0.7:
                self.emit(ind, '%swith cm(), use(%s):' % (pre, b()))
            else:
                self.emit(ind, '%swith use(%s) as it().a, cm() as it()[%s]:' % (pre, b(), b()))
            self.suite(ctx, ind + 1, 1)
        elif k == 'handler':
            self.emit(ind, 'try:')
            self.suite(ctx, ind + 1, 1)
            if r.random() < 0.5:
                self.emit(ind, 'except use(%s) as %s:' % (b(), self.tid(ctx, 'except')))
            else:
                self.emit(ind, 'except (Err, use(%s)):' % b())
            self.suite(ctx, ind + 1, 1)
        elif k == 'match':
            self.emit(ind, 'match %s:' % b())
            self.emit(ind + 1, 'case 1 if %s:' % b())
            self.suite(ctx, ind + 2, 1)
            self.emit(ind + 1, 'case _:')
            self.emit(ind + 2, 'pass')
        elif k == 'annonly':
            self.emit(ind, '%s: %s' % (self.ident(tuple(ctx.gl) + tuple(ctx.nl)), self.bx(ea)))
        elif k == 'annassign':
            self.emit(ind, '%s: %s = %s' % (self.tid(ctx, 'annassign'), self.bx(ea), b()))
        elif k == 'fstr':
            self.emit(ind, r.choice(["use(f'{ %s }')" % b(), "f'x{ %s!r}y{ %s :>{ %s }}'" % (b(), b(), b())]))
        elif k == 'classkw':
            name = self.tid(ctx, 'class')
            self.emit(ind, r.choice(['class %s(Err, metaclass=%s):', 'class %s(k=%s):', 'class %s(use(%s)):',
                                     'class %s(*%s):']) % (name, b()))
            self.body(Ctx('class', ctx), ind + 1, 1)
        elif k == 'deco':
            self.emit(ind, '@use(%s)' % b())
            if r.random() < 0.3:
                self.emit(ind, '@%s' % self.lam(e, 1))
            if r.random() < 0.5:
                self.emit(ind, 'def %s():' % self.tid(ctx, 'def'))
            else:
                self.emit(ind, 'class %s:' % self.tid(ctx, 'class'))
            self.emit(ind + 1, 'pass')
        elif k == 'callargs':
            self.emit(ind, 'use(%s, *%s, k=%s, **%s)' % (b(), b(), b(), b()))
        elif k == 'slice':
            self.emit(ind, 'it()[%s:%s:%s]' % (b(), b(), b()))
        elif k == 'signature':
            self.signature(ctx, ind, e, ea)
        elif k == 'lamsig':
            self.emit(ind, 'use(lambda %s=%s, /, %s=%s, *, %s=%s: %s)' % (
                self.fresh_any(), b(), self.fresh_any(), b(), self.fresh_any(), b(), '0'))
        elif k == 'foriter':
            pre = 'async ' if ctx.kind == 'function' and ctx.is_async and r.random() < 0.4 else ''
            self.emit(ind, '%sfor %s in %s:' % (pre, r.choice([self.tid(ctx, 'for'), 'it().a', 'it()[%s]' % b()]), b()))
            self.suite(ctx, ind + 1, 1)
        elif k == 'whilecond':
            self.emit(ind, 'while %s:' % b())
            self.suite(ctx, ind + 1, 1)
            self.emit(ind, 'else:')
            self.suite(ctx, ind + 1, 1)
        elif k == 'ifelif':
            self.emit(ind, 'if %s:' % b())
            self.suite(ctx, ind + 1, 1)
            self.emit(ind, 'elif %s:' % b())
            self.suite(ctx, ind + 1, 1)
        elif k == 'starval':
            self.emit(ind, '%s = *%s, 0' % (self.tid(ctx, 'assign'), b()))
        elif k == 'lambody':
            self.emit(ind, '%s = lambda: %s' % (self.tid(ctx, 'assign'), b()))
        elif k == 'exprstmt':
            self.emit(ind, b())
        elif k == 'return':
            self.emit(ind, 'return %s' % b())
        elif k == 'await':
            self.emit(ind, r.choice(['await %s', 'use(await use(%s))']) % b())
        elif k == 'yield':
            self.emit(ind, 'yield %s' % b())
        elif k == 'yield-assign':
            self.emit(ind, '%s = yield %s' % (self.tid(ctx, 'assign'), b()))
        else:
            self.emit(ind, 'yield from %s' % b())

    def fresh_any(self):
        self.counter += 1
        id = 'n%d' % self.counter
        self.decided[id] = self.r.random() < self.p_read
        return id

    def signature(self, ctx, ind, e, ea):
        """a def whose every annotation / default / return annotation may host a binding construct"""
        r = self.r
        name = self.tid(ctx, 'def')
        inner = Ctx('function', ctx, r.random() < 0.2)

        def prm(star='', default=True):
            id = self.fresh_any()
            inner.params.add(id)
            s_ = star + id
            has_ann = r.random() < 0.5
            if has_ann:
                s_ += ': ' + self.bx(ea)
            if default and r.random() < 0.6:
                s_ += (' = ' if has_ann else '=') + self.bx(e)
            elif default:
                s_ += (' = ' if has_ann else '=') + '0'
            return s_
        parts = []
        if r.random() < 0.4:
            parts += [prm(), '/']
        parts.append(prm())
        if r.random() < 0.5:
            parts.append(prm('*', default=False))
        else:
            parts.append('*')
        parts.append(prm())
        if r.random() < 0.4:
            parts.append(prm('**', default=False))
        ret = ' -> %s' % self.bx(ea) if r.random() < 0.5 else ''
        self.emit(ind, '%sdef %s(%s)%s:' % ('async ' if inner.is_async else '', name, ', '.join(parts), ret))
        inner.bound.update(inner.params)
        if ctx.depth >= 3:
            self.emit(ind + 1, 'pass')
        else:
            self.body(inner, ind + 1, r.choice([1, 2]))

    def walrus(self, e, d):
        ctx = e.ctx
        avoid = set(e.comp_targets) | ctx.params
        if ctx.kind in ('function', 'class') and not e.in_comp and (ctx.gl or ctx.nl) and self.r.random() < 0.4:
            id = self.r.choice(ctx.gl + ctx.nl)
            if id in avoid:
                id = self.ident(avoid)
        else:
            id = self.ident(avoid)
        if id not in ctx.gl and not e.in_comp:
            ctx.bound.add(id)
        return '(%s := %s)' % (id, self.ex(e, d))

    def lam(self, e, d):
        inner = Ctx('lambda', e.ctx)
        ps = self.params(inner, E(e.ctx, e.walrus_ok, e.comp_targets, e.in_comp), method=False, is_lambda=True, d=d)
        ie = E(inner)
        rd = [p for p in sorted(inner.params) if self.decided.get(p)]
        body = self.ex(ie, d)
        if rd and self.r.random() < 0.7:
            body = 'use(%s, %s)' % (', '.join(rd), body)
        return '(lambda%s: %s)' % ((' ' + ps) if ps else '', body)

    def comp(self, e, d):
        r = self.r
        ctx = e.ctx
        ngen = 1 if r.random() < 0.75 else 2
        if r.random() < 0.3:
            d = max(d, 2)                 # now and then host further binding constructs inside the comprehension
        targets = set(e.comp_targets)
        parts = []
        wok = e.walrus_ok and ctx.kind != 'class'
        for gi in range(ngen):
            it_e = E(ctx, False, targets, e.in_comp or gi > 0)
            itx = self.ex(it_e, d - 1) if r.random() < 0.4 else 'it()'
            if r.random() < 0.75:
                ids = [self.ident(targets, reuse=0.15)]
                t = ids[0]
            else:
                a = self.ident(targets)
                b = self.ident(targets | {a})
                ids = [a, b]
                t = r.choice(['%s, %s', '(%s, %s)', '[%s, *%s]']) % (a, b)
            targets.update(ids)
            s = 'for %s in %s' % (t, itx)
            if r.random() < 0.3:
                s += ' if %s' % self.ex(E(ctx, wok, targets, True), d - 1)
            parts.append(s)
        ee = E(ctx, wok, targets, True)
        rd = [i for i in sorted(targets - set(e.comp_targets)) if self.decided.get(i)]
        elt = self.ex(ee, d - 1)
        if rd and r.random() < 0.7:
            elt = 'use(%s, %s)' % (', '.join(rd), elt)
        k = r.choice(['list', 'list', 'set', 'gen', 'dict'])
        tail = ' '.join(parts)
        if k == 'list':
            return '[%s %s]' % (elt, tail)
        if k == 'set':
            return '{%s %s}' % (elt, tail)
        if k == 'gen':
            return 'use(%s %s)' % (elt, tail) if r.random() < 0.5 else '(%s %s)' % (elt, tail)
        return '{%s: %s %s}' % (self.ex(ee, 1 if r.random() < 0.3 else 0), elt, tail)

    def params(self, inner, oe, method, is_lambda, d=1):
        """parameter list text; declares the names in inner.params"""
        r = self.r
        used = set()
        out = []

        def nm():
            id = self.ident(used, reuse=0.15)
            used.add(id)
            return id

        def default(kw=False):
            if kw:
                if self.deviant and r.random() < 0.08:
                    return self.ex(oe, 1)
                return r.choice(['0', 'None', 'it()'])
            if r.random() < 0.15:
                return self.ex(oe, min(d, 1))
            return r.choice(['0', 'None', 'it()'])

        def ann():
            if is_lambda or r.random() > 0.12:
                return ''
            return ': ' + r.choice(['int', 'str', "'T'", 'use'])

        have_default = False
        if method and r.random() < 0.8:
            used.add('self')
            out.append('self')
        npos = r.choice([1, 2]) if self.deviant and r.random() < 0.15 else 0
        for _ in range(npos):
            s = nm() + ann()
            if have_default or r.random() < 0.2:
                have_default = True
                s += '=' + default() if ':' not in s else ' = ' + default()
            out.append(s)
        if npos or (out and r.random() < 0.05):
            out.append('/')
        for _ in range(r.choice([0, 1, 1, 2, 3])):
            s = nm() + ann()
            if have_default or r.random() < 0.3:
                have_default = True
                s += '=' + default() if ':' not in s else ' = ' + default()
            out.append(s)
        star = False
        if r.random() < 0.3:
            out.append('*' + nm() + ann())
            star = True
        nkw = r.choice([0, 0, 1, 2])
        if nkw and not star:
            out.append('*')
        for _ in range(nkw):
            s = nm() + ann()
            if r.random() < 0.6:
                s += '=' + default(True) if ':' not in s else ' = ' + default(True)
            out.append(s)
        if r.random() < 0.3:
            out.append('**' + nm() + ann())
        if out and out[-1] == '/' and len(out) == 1:
            out = []
        inner.params = set(used)
        inner.bound.update(inner.params)
        return ', '.join(out)

    # -- statements --------------------------------------------------------------------------
    def body(self, ctx, ind, n):
        before = len(self.lines)
        for _ in range(n):
            if self.budget <= 0:
                break
            self.stmt(ctx, ind)
        if len(self.lines) == before:
            self.emit(ind, 'pass')

    def suite(self, ctx, ind, n=None):
        self.body(ctx, ind, self.r.choice([1, 1, 2, 3]) if n is None else n)

    def stmt(self, ctx, ind):
        r = self.r
        self.budget -= 1
        x = r.random()
        deep = ind >= 5
        if not deep and ctx.kind in ('module', 'function') and ctx.depth <= 2 and r.random() < self.p_shadow:
            return self.locals_shadow(ctx, ind)
        if ctx.kind in ('class', 'function') and ctx.depth >= 1 and r.random() < 0.03:
            return self.locals_stmt(ind)
        if r.random() < 0.15:
            return self.host_stmt(ctx, ind)
        if not deep and ctx.depth <= 2 and r.random() < 0.05:
            return self.import_family(ctx, ind)
        if r.random() < 0.04:
            return self.import_list(ctx, ind)
        if x < 0.66:
            kinds = list(STMT_KINDS)
            if deep:
                kinds = [k for k in kinds if k not in ('def', 'asyncdef', 'class', 'for', 'with', 'except')]
            return self.bind(ctx, ind, r.choice(kinds))
        if x < 0.80:
            e = E(ctx)
            return self.emit(ind, r.choice(['%s', 'use(%s)', 'if %s: pass', 'assert %s']) % self.ex(e, 2))
        if x < 0.88 and not deep:
            k = r.choice(['if', 'while', 'tryfin', 'ifelse'])
            if k == 'if':
                self.emit(ind, 'if %s:' % self.ex(E(ctx), 1))
                self.suite(ctx, ind + 1)
            elif k == 'ifelse':
                self.emit(ind, 'if it():')
                self.suite(ctx, ind + 1)
                self.emit(ind, 'else:')
                self.suite(ctx, ind + 1)
            elif k == 'while':
                self.emit(ind, 'while %s:' % self.ex(E(ctx), 1))
                self.suite(ctx, ind + 1)
            else:
                self.emit(ind, 'try:')
                self.suite(ctx, ind + 1)
                self.emit(ind, 'finally:')
                self.suite(ctx, ind + 1)
            return
        return self.noise(ctx, ind)

    # -- locals() next to conditional rebinding of an outer, never-read identifier ---------------
    def fresh_unread(self):
        r = self.r
        self.counter += 1
        x = r.random()
        if x < 0.8:
            id = 'n%d' % self.counter
        elif x < 0.9:
            id = '_n%d' % self.counter
        else:
            id = r.choice(['sa', 'sb', 'v1', 'v2', 'sf'])
            if self.decided.get(id):
                id = 'n%d' % self.counter
        self.decided[id] = False
        return id

    def locals_stmt(self, ind):
        r = self.r
        self.emit(ind, r.choice(['locals()', 'use(locals())', 'ns = locals()', 'if locals(): pass',
                                 'use(0, locals())', 'ns = dict(locals())', 'assert locals()',
                                 'use(locals().get(0))']))

    def bind_simple(self, ctx, ind, id):
        """one binding of id in ctx, of a random kind"""
        r = self.r
        k = r.choice(['import', 'import', 'import-as', 'from', 'from-as', 'dotted', 'assign', 'assign', 'ann',
                      'for', 'with', 'def', 'class', 'except', 'unpack', 'walrus'])
        if id in ctx.gl or id in ctx.nl:
            k = 'assign'
        e = ind
        if k == 'import':
            self.emit(e, 'import %s' % id)
        elif k == 'import-as':
            self.emit(e, 'import %s as %s' % (r.choice(['pm', 'pk.sub', 'json']), id))
        elif k == 'from':
            self.emit(e, 'from %s import %s' % (r.choice(['pm', 'os', 'pk']), id))
        elif k == 'from-as':
            self.emit(e, 'from pm import sa as %s' % id)
        elif k == 'dotted':
            self.emit(e, 'import %s.sub' % id)
        elif k == 'assign':
            self.emit(e, '%s = %s' % (id, r.choice(['0', 'it()', '{}', 'None'])))
        elif k == 'ann':
            self.emit(e, '%s: int = 0' % id)
        elif k == 'for':
            self.emit(e, 'for %s in it():' % id)
            self.emit(e + 1, 'pass')
        elif k == 'with':
            self.emit(e, 'with cm() as %s:' % id)
            self.emit(e + 1, 'pass')
        elif k == 'def':
            self.emit(e, 'def %s():' % id)
            self.emit(e + 1, 'pass')
        elif k == 'class':
            self.emit(e, 'class %s:' % id)
            self.emit(e + 1, 'pass')
        elif k == 'except':
            self.emit(e, 'try:')
            self.emit(e + 1, 'pass')
            self.emit(e, 'except Err as %s:' % id)
            self.emit(e + 1, 'pass')
        elif k == 'unpack':
            self.emit(e, '%s, _ = it()' % id)
        else:
            self.emit(e, 'use((%s := it()))' % id)
        if id not in ctx.gl:
            ctx.bound.add(id)

    def rebind_conditionally(self, ind, id, allow_import=True):
        r = self.r
        forms = ['if', 'ifelse', 'elif', 'try', 'exceptas', 'for', 'while', 'withif', 'forelse', 'tryelse']
        if allow_import:
            forms += ['ifimport', 'tryimport']
        k = r.choice(forms)
        v = r.choice(['0', 'None', 'it()', "'s'"])
        if k == 'if':
            self.emit(ind, 'if it():')
            self.emit(ind + 1, '%s = %s' % (id, v))
        elif k == 'ifelse':
            self.emit(ind, 'if it():')
            self.emit(ind + 1, '%s = %s' % (id, v))
            self.emit(ind, 'else:')
            self.emit(ind + 1, 'pass')
        elif k == 'elif':
            self.emit(ind, 'if it():')
            self.emit(ind + 1, 'pass')
            self.emit(ind, 'elif it():')
            self.emit(ind + 1, '%s = %s' % (id, v))
        elif k == 'try':
            self.emit(ind, 'try:')
            self.emit(ind + 1, '%s = it()' % id)
            self.emit(ind, 'except Err:')
            self.emit(ind + 1, 'pass')
        elif k == 'exceptas':
            self.emit(ind, 'try:')
            self.emit(ind + 1, 'it()')
            self.emit(ind, 'except Err as %s:' % id)
            self.emit(ind + 1, 'pass')
        elif k == 'for':
            self.emit(ind, 'for %s in it():' % id)
            self.emit(ind + 1, 'pass')
        elif k == 'while':
            self.emit(ind, 'while it():')
            self.emit(ind + 1, '%s = %s' % (id, v))
        elif k == 'withif':
            self.emit(ind, 'with cm():')
            self.emit(ind + 1, 'if it():')
            self.emit(ind + 2, '%s: int = 0' % id)
        elif k == 'forelse':
            self.emit(ind, 'for _ in it():')
            self.emit(ind + 1, 'pass')
            self.emit(ind, 'else:')
            self.emit(ind + 1, '%s = %s' % (id, v))
        elif k == 'tryelse':
            self.emit(ind, 'try:')
            self.emit(ind + 1, 'it()')
            self.emit(ind, 'except Err:')
            self.emit(ind + 1, '%s = %s' % (id, v))
            self.emit(ind, 'else:')
            self.emit(ind + 1, 'pass')
        elif k == 'ifimport':
            self.emit(ind, 'if it():')
            self.emit(ind + 1, r.choice(['import %s', 'import pm as %s', 'from pm import %s']) % id)
        else:
            self.emit(ind, 'try:')
            self.emit(ind + 1, 'import %s' % id)
            self.emit(ind, 'except ImportError:')
            self.emit(ind + 1, 'pass')

    def locals_shadow(self, ctx, ind):
        r = self.r
        self.budget -= 3
        ids = [self.fresh_unread() for _ in range(r.choice([1, 1, 2, 3]))]
        if ctx.kind == 'function':
            ps = [p for p in sorted(ctx.params) if p != 'self' and self.decided.get(p) is False
                  and p not in ctx.gl and p not in ctx.nl]
            if ps and r.random() < 0.5:
                ids.append(r.choice(ps))
        outer_first = r.random() < 0.75
        fresh = [i for i in ids if i not in ctx.params]
        if outer_first:
            for id in fresh:
                self.bind_simple(ctx, ind, id)
        inner_class = r.random() < 0.7
        name = self.tid(ctx, 'class' if inner_class else 'def', avoid=ids)
        if inner_class:
            self.emit(ind, 'class %s%s:' % (name, r.choice(['', '', '(object)', '(Err)'])))
            inner = Ctx('class', ctx)
        else:
            inner = Ctx('function', ctx)
            self.emit(ind, 'def %s(%s):' % (name, r.choice(['', '', 'a0', 'a0, *a1', '*, k0=0'])))
        if r.random() < 0.3:
            self.stmt(inner, ind + 1)
        if r.random() < 0.15:
            self.locals_stmt(ind + 1)
        for id in ids:
            if r.random() < 0.85:
                self.rebind_conditionally(ind + 1, id)
            else:
                self.emit(ind + 1, '%s = 0' % id)
        if r.random() < 0.2:
            self.emit(ind + 1, 'if it():')
            self.locals_stmt(ind + 2)
        else:
            self.locals_stmt(ind + 1)
        for _ in range(r.choice([0, 0, 1, 2])):
            self.stmt(inner, ind + 1)
        if not outer_first:
            for id in fresh:
                self.bind_simple(ctx, ind, id)
        self.reads(ctx, ind, [name])

    def noise(self, ctx, ind):
        r = self.r
        k = r.choice(['aug', 'del', 'locals', 'annonly', 'match', 'ret', 'pass', 'attr'])
        if k == 'aug' and self.decided:
            id = r.choice(sorted(self.decided))
            if id not in ctx.params or True:
                self.emit(ind, '%s += 1' % id)
        elif k == 'del' and self.decided:
            self.emit(ind, 'del %s' % r.choice(sorted(self.decided)))
        elif k == 'locals' and r.random() < 0.4:
            self.emit(ind, 'use(locals())')
        elif k == 'annonly':
            self.emit(ind, '%s: int' % self.ident(tuple(ctx.gl) + tuple(ctx.nl)))
        elif k == 'match':
            a = self.ident()
            b = self.ident((a,))
            self.emit(ind, 'match it():')
            self.emit(ind + 1, 'case [%s, *%s]:' % (a, b) if a != '_' and b != '_' and a != b else 'case 1:')
            self.suite(ctx, ind + 2, 1)
        elif k == 'ret' and ctx.kind == 'function':
            self.emit(ind, 'return %s' % self.ex(E(ctx), 1))
        elif k == 'attr':
            self.emit(ind, 'it().%s = 0' % self.ident())
        else:
            self.emit(ind, 'pass')

    def bind(self, ctx, ind, kind):
        r = self.r
        e = E(ctx)
        if kind == 'assign':
            a = self.tid(ctx, kind)
            if r.random() < 0.15:
                b = self.tid(ctx, kind)
                self.emit(ind, '%s = %s = %s' % (a, b, self.ex(e, 1)))
                self.reads(ctx, ind, [a, b])
            else:
                self.emit(ind, '%s = %s' % (a, self.ex(e, 2)))
                self.reads(ctx, ind, [a])
        elif kind == 'assign-unpack':
            a = self.tid(ctx, kind)
            b = self.tid(ctx, kind, (a,))
            c = self.tid(ctx, kind, (a, b))
            t = r.choice(['%s, %s, %s', '(%s, (%s, %s))', '[%s, %s], %s', '%s, \\\n        %s, %s']) % (a, b, c)
            self.emit(ind, '%s = it()' % t)
            self.reads(ctx, ind, [a, b, c])
        elif kind == 'assign-star':
            a = self.tid(ctx, kind)
            b = self.tid(ctx, kind, (a,))
            self.emit(ind, r.choice(['%s, *%s = it()', '*%s, %s = it()', '[*%s], %s = it()']) % (a, b))
            self.reads(ctx, ind, [a, b])
        elif kind == 'annassign':
            a = self.tid(ctx, kind)
            self.emit(ind, '%s: %s = %s' % (a, r.choice(['int', "'T'", 'it()']), self.ex(e, 1)))
            self.reads(ctx, ind, [a])
        elif kind == 'for':
            a = self.tid(ctx, kind)
            ids = [a]
            t = a
            if r.random() < 0.3:
                b = self.tid(ctx, kind, (a,))
                ids.append(b)
                t = r.choice(['%s, %s', '(%s, *%s)']) % (a, b)
            pre = 'async ' if ctx.kind == 'function' and ctx.is_async and r.random() < 0.5 else ''
            self.emit(ind, '%sfor %s in %s:' % (pre, t, self.ex(e, 1)))
            self.reads(ctx, ind + 1, ids)
            self.suite(ctx, ind + 1)
            if r.random() < 0.15:
                self.emit(ind, 'else:')
                self.suite(ctx, ind + 1, 1)
        elif kind == 'with':
            a = self.tid(ctx, kind)
            ids = [a]
            x = r.random()
            pre = 'async ' if ctx.kind == 'function' and ctx.is_async and r.random() < 0.5 else ''
            if x < 0.6:
                self.emit(ind, '%swith cm() as %s:' % (pre, a))
            elif x < 0.8:
                b = self.tid(ctx, kind, (a,))
                ids.append(b)
                self.emit(ind, '%swith cm() as %s, cm() as %s:' % (pre, a, b))
            else:
                b = self.tid(ctx, kind, (a,))
                ids.append(b)
                self.emit(ind, '%swith cm() as (%s, %s):' % (pre, a, b))
            self.reads(ctx, ind + 1, ids)
            self.suite(ctx, ind + 1)
        elif kind == 'except':
            a = self.tid(ctx, kind)
            self.emit(ind, 'try:')
            self.suite(ctx, ind + 1, 1)
            star = self.deviant and r.random() < 0.04
            self.emit(ind, 'except%s %s as %s:' % ('*' if star else '', r.choice(['Err', '(Err, ValueError)']), a))
            self.reads(ctx, ind + 1, [a])
            self.suite(ctx, ind + 1, 1)
            if r.random() < 0.2:
                b = self.tid(ctx, kind)
                self.emit(ind, 'except%s KeyError as %s:' % ('*' if star else '', b))
                self.suite(ctx, ind + 1, 1)
            if r.random() < 0.15:
                self.emit(ind, 'else:')
                self.suite(ctx, ind + 1, 1)
        elif kind in ('def', 'asyncdef'):
            self.fdef(ctx, ind, kind == 'asyncdef')
        elif kind == 'class':
            self.cdef(ctx, ind)
        else:
            self.imp(ctx, ind, kind)

    def imp(self, ctx, ind, kind):
        r = self.r
        a = self.tid(ctx, kind)
        ids = [a]
        if kind == 'import':
            if r.random() < 0.25:
                b = self.tid(ctx, kind, (a,))
                ids.append(b)
                self.emit(ind, 'import %s, %s' % (a, b))
            else:
                self.emit(ind, 'import %s' % a)
        elif kind == 'import-as':
            m = r.choice(['pm', 'pk.sub', 'os.path', 'pk'])
            x = r.random()
            if x < 0.75:
                self.emit(ind, 'import %s as %s' % (m, a))
            elif x < 0.85:
                self.emit(ind, 'import %s \\' % m)
                self.emit(ind, '        as %s' % a)
            elif x < 0.93:
                self.emit(ind, 'import %s as \\' % m)
                self.emit(ind, '    %s' % a)
            else:
                b = self.tid(ctx, kind, (a,))
                ids.append(b)
                self.emit(ind, 'import %s as %s, pk.sub2 \\' % (m, a))
                self.emit(ind, '  as \\')
                self.emit(ind, '      %s' % b)
        elif kind == 'import-dotted':
            self.emit(ind, 'import %s.%s' % (a, r.choice(['sub', 'sub.deep', 'path'])))
        elif kind == 'from':
            mod = r.choice(['pm', 'pk', 'pk.sub', '.', '.sub', '..x', 'os'])
            if r.random() < 0.3:
                b = self.tid(ctx, kind, (a,))
                c = self.tid(ctx, 'from-as', (a, b))
                ids += [b, c]
                if r.random() < 0.5:
                    self.emit(ind, 'from %s import (%s,' % (mod, a))
                    self.emit(ind, '        %s,  # note' % b)
                    self.emit(ind, '        sa as %s)' % c)
                else:
                    self.emit(ind, 'from %s import %s, %s, sb as %s' % (mod, a, b, c))
            else:
                self.emit(ind, 'from %s import %s' % (mod, a))
        else:
            m, mem = r.choice(['pm', 'pk.sub', '.']), r.choice(['sa', 'sb', 'z'])
            x = r.random()
            if x < 0.7:
                self.emit(ind, 'from %s import %s as %s' % (m, mem, a))
            elif x < 0.8:
                self.emit(ind, 'from %s import (%s as' % (m, mem))
                self.emit(ind, '    %s)' % a)
            elif x < 0.88:
                self.emit(ind, 'from %s import (%s' % (m, mem))
                self.emit(ind, '        as %s,' % a)
                self.emit(ind, ')')
            elif x < 0.94:
                self.emit(ind, 'from %s import %s as \\' % (m, mem))
                self.emit(ind, '  %s' % a)
            else:
                b = self.tid(ctx, kind, (a,))
                ids.append(b)
                self.emit(ind, 'from %s import (  # %s' % (m, a))
                self.emit(ind, '    %s as %s, sb' % (mem, a))
                self.emit(ind, '    as')
                self.emit(ind, '        %s)' % b)
        self.reads(ctx, ind, ids)

    def import_list(self, ctx, ind):
        """one import statement listing 2-4 dotted names of the same package, mixed with other packages and with
        `as` aliases; the package name is read, never read, or read only through one of the dotted paths"""
        r = self.r
        self.budget -= 1
        mode = r.choice(['never', 'never', 'top', 'one-path', 'all-paths'])
        if r.random() < 0.4:
            P = r.choice(['xml', 'pk', 'os', 'logging', 'email'])
            if self.decided.get(P):
                mode = 'top' if mode == 'never' else mode
        else:
            self.counter += 1
            P = r.choice(['n%d', 'n%d', '_n%d']) % self.counter
        self.decided[P] = self.decided.get(P, False) or mode != 'never'
        subs = ['dom', 'sax', 'etree', 'sub', 'sub2', 'path', 'config', 'handlers', 'sub.deep']
        r.shuffle(subs)
        mine = subs[:r.choice([2, 2, 3, 4])]
        items = ['%s.%s' % (P, x) for x in mine]
        if r.random() < 0.25:
            items.append(P)
        for _ in range(r.choice([0, 0, 1, 2])):
            x = r.random()
            if x < 0.35:
                items.append('%s.%s as %s' % (P, r.choice(subs), self.tid(ctx, 'import-as')))
            elif x < 0.6:
                items.append('%s.%s' % (r.choice(['os', 'pm2', 'json']), r.choice(['path', 'sub', 'tool'])))
            elif x < 0.8:
                items.append('pm as %s' % self.tid(ctx, 'import-as'))
            else:
                items.append(self.tid(ctx, 'import'))
        r.shuffle(items)
        x = r.random()
        if x < 0.75 or len(items) < 3:
            self.emit(ind, 'import ' + ', '.join(items))
        else:
            self.emit(ind, 'import %s, \\' % ', '.join(items[:2]))
            self.emit(ind, '    ' + ', '.join(items[2:]))
        if P not in ctx.gl:
            ctx.bound.add(P)
        if mode == 'top':
            self.emit(ind, 'use(%s)' % P)
        elif mode == 'one-path':
            self.emit(ind, 'use(%s.%s.z)' % (P, mine[-1]))
        elif mode == 'all-paths':
            self.emit(ind, 'use(%s)' % ', '.join('%s.%s' % (P, m) for m in mine))

    def import_family(self, ctx, ind):
        """one package imported several ways: a dotted import whose top-level name is read through the full path,
        through the top-level name only, or not at all, next to plain / aliased / from / dotted-aliased imports of
        the same package and of its sub-packages, in this scope and in a nested class body / function"""
        r = self.r
        self.budget -= 3
        mode = r.choice(['full', 'full', 'top', 'none'])
        if r.random() < 0.5:
            P = r.choice(['pk', 'pk', 'logging', 'os', 'xml'])
            if mode == 'none' and self.decided.get(P):
                mode = 'top'
        else:
            self.counter += 1
            P = 'n%d' % self.counter
        self.decided[P] = self.decided.get(P, False) or mode != 'none'
        subs = ['sub', 'sub2', 'config', 'handlers', 'path', 'dom']
        s1 = r.choice(subs)
        forms = ['dotted', 'from', 'from-sub-as', 'as', 'dotted-as', 'from-deep', 'from-deep-as', 'from-multi',
                 'dotted2', 'plain']
        chosen = ['dotted'] + [r.choice(forms) for _ in range(r.choice([1, 2, 3, 4]))]
        r.shuffle(chosen)
        places = {'here': [], 'class': [], 'def': []}
        for f in chosen:
            places[r.choice(['here', 'here', 'here', 'class', 'def'])].append(f)

        def one(c, i, f):
            q = lambda: self.tid(c, 'from-as')
            if f == 'dotted':
                self.emit(i, 'import %s.%s' % (P, s1))
            elif f == 'dotted2':
                self.emit(i, 'import %s.%s' % (P, r.choice(subs)))
            elif f == 'plain':
                self.emit(i, 'import %s' % P)
            elif f == 'from':
                self.emit(i, 'from %s import %s' % (P, q()))
            elif f == 'from-sub-as':
                self.emit(i, 'from %s import %s as %s' % (P, r.choice(subs), q()))
            elif f == 'as':
                self.emit(i, 'import %s as %s' % (P, q()))
            elif f == 'dotted-as':
                self.emit(i, 'import %s.%s as %s' % (P, r.choice(subs), q()))
            elif f == 'from-deep':
                self.emit(i, 'from %s.%s import %s' % (P, r.choice(subs), q()))
            elif f == 'from-deep-as':
                self.emit(i, 'from %s.%s import z as %s' % (P, r.choice(subs), q()))
            else:
                self.emit(i, 'from %s import (%s,' % (P, q()))
                self.emit(i, '    %s as %s)' % (r.choice(subs), q()))
            if f in ('dotted', 'dotted2', 'plain') and P not in c.gl:
                c.bound.add(P)

        def read(i):
            if mode == 'full':
                self.emit(i, 'use(%s.%s.z)' % (P, s1))
            elif mode == 'top':
                self.emit(i, r.choice(['use(%s)', 'use(%s.z)']) % P)
        read_at = r.choice(['here', 'here', 'def', 'end'])
        for f in places['here']:
            one(ctx, ind, f)
        if read_at == 'here':
            read(ind)
        if places['class']:
            self.emit(ind, 'class %s:' % self.tid(ctx, 'class'))
            inner = Ctx('class', ctx)
            for f in places['class']:
                one(inner, ind + 1, f)
            if r.random() < 0.3:
                read(ind + 1)
        if places['def'] or read_at == 'def':
            inner = Ctx('function', ctx)
            self.emit(ind, 'def %s():' % self.tid(ctx, 'def'))
            for f in places['def']:
                one(inner, ind + 1, f)
            if read_at == 'def' or not places['def']:
                read(ind + 1) if mode != 'none' else self.emit(ind + 1, 'pass')
        if read_at == 'end':
            read(ind)

    def declare(self, inner, ind):
        """global / nonlocal declarations at the start of a function or class body"""
        r = self.r
        if r.random() < (0.35 if inner.kind == 'function' else 0.2):
            for _ in range(r.choice([1, 1, 2])):
                id = self.ident(inner.params | set(inner.gl), reuse=0.0 if inner.kind == 'module' else 0.2)
                if id not in inner.params and id not in inner.gl:
                    inner.gl.append(id)
            if inner.gl:
                self.emit(ind, 'global %s' % ', '.join(inner.gl))
        f = inner.enclosing_function()
        if f is not None and r.random() < (0.5 if inner.kind == 'function' else (0.1 if self.deviant else 0)):
            cands = sorted((f.bound | f.params) - set(f.gl) - set(f.nl) - inner.params - set(inner.gl))
            r.shuffle(cands)
            inner.nl = cands[:r.choice([1, 1, 2])]
            if inner.nl:
                self.emit(ind, 'nonlocal %s' % ', '.join(inner.nl))

    def fdef(self, ctx, ind, is_async):
        r = self.r
        name = self.tid(ctx, 'def')
        e = E(ctx)
        if r.random() < 0.15:
            self.emit(ind, '@' + r.choice(['use', 'use(%s)' % self.ex(e, 1), 'staticmethod']))
        inner = Ctx('function', ctx, is_async)
        ps = self.params(inner, e, method=(ctx.kind == 'class'), is_lambda=False)
        ret = ' -> %s' % r.choice(['int', "'T'"]) if r.random() < 0.1 else ''
        sp = r.choice([' ', ' ', ' ', '  '])
        self.emit(ind, '%sdef%s%s(%s)%s:' % ('async ' if is_async else '', sp, name, ps, ret))
        if ctx.depth >= 3:
            self.emit(ind + 1, 'pass')
        else:
            before = len(self.lines)
            self.declare(inner, ind + 1)
            rd = [p for p in sorted(inner.params) if self.decided.get(p)]
            if rd and r.random() < 0.7:
                self.emit(ind + 1, 'use(%s)' % ', '.join(rd))
            self.body(inner, ind + 1, r.choice([1, 2, 3, 4, 6]))
            if len(self.lines) == before:
                self.emit(ind + 1, 'pass')
        self.reads(ctx, ind, [name])

    def cdef(self, ctx, ind):
        r = self.r
        name = self.tid(ctx, 'class')
        e = E(ctx)
        x = r.random()
        if x < 0.5:
            bases = ''
        elif x < 0.8:
            bases = '(%s)' % r.choice(['Err', 'object', 'it()'])
        elif x < 0.95 or not self.deviant:
            bases = '(%s)' % self.ex(e, 1)
        else:
            bases = '(object, metaclass=%s)' % self.ex(e, 2)
        if r.random() < 0.1:
            self.emit(ind, '@use')
        self.emit(ind, 'class %s%s:' % (name, bases))
        inner = Ctx('class', ctx)
        if ctx.depth >= 3:
            self.emit(ind + 1, 'pass')
        else:
            self.declare(inner, ind + 1)
            self.body(inner, ind + 1, r.choice([1, 2, 3, 5]))
        self.reads(ctx, ind, [name])

    # -- module ------------------------------------------------------------------------------
    def module(self):
        r = self.r
        ctx = Ctx('module')
        if r.random() < 0.3:
            if r.random() < 0.5:
                self.emit(0, '"""doc"""')
            feats = r.sample(FUTURES, r.choice([1, 1, 2]))
            parts = []
            for f in feats:
                if r.random() < 0.4:
                    a = self.ident()
                    parts.append('%s as %s' % (f, a))
                else:
                    parts.append(f)
            self.emit(0, 'from __future__ import %s' % ', '.join(parts))
        self.emit(0, 'from pm import use, it, cm, Err')
        star_at = r.randint(0, 6) if r.random() < 0.4 else -1
        n = r.randint(5, 12)
        for i in range(n):
            if i == star_at:
                if r.random() < 0.25:
                    self.emit(0, 'if it():')
                    self.emit(1, 'from %s import *' % r.choice(['ps', 'pm']))
                else:
                    self.emit(0, 'from %s import *' % r.choice(['ps', 'ps', 'pm', 'pk', 'nosuchmod']))
            if r.random() < 0.12:
                self.declare(ctx, 0) if not ctx.gl else None
            self.stmt(ctx, 0)
        rd = sorted(i for i in self.decided if self.decided[i])
        if rd:
            self.emit(0, 'use(%s)' % ', '.join(rd))
        return '\n'.join(self.lines) + '\n'


def generate(rng):
    return G(rng).module()
