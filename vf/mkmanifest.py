"""Regenerates /verif/MANIFEST.json from the table below (python3 -m vf.mkmanifest)."""
import importlib
import json
import os

VERIF = os.path.dirname(os.path.dirname(os.path.abspath(__file__)))

NOTE_COMMON = ('Trusted base: CPython 3.12 (/venv/bin/python) and its stdlib as oracle; the harness code under /verif/vf. '
               'The code under test is imported from /repo\'s working tree (PYTHONPATH), nothing is modelled. '
               'Runtime monitoring decides only the executions produced: held means held on the cases counted in the evidence file.')

CHECKS = {
    'C01': dict(
        technique='runtime monitor over real executions: generated programs run under CPython on every decision vector (DFS) with observation-only AST instrumentation; each successful identifier read is checked against lint() and assist()',
        text='Every identifier read that CPython executed successfully in the enumerated executions of the generated programs is an obligation on lint (no E02/E42) and assist (offers it) for the same text; a violation carries the program and the read. Held = held on the programs and paths counted in the evidence.',
        design='2, 3/C01', engine='E1-dynexec'),
    'C02': dict(
        technique='runtime monitor with value tagging: every object a binding produces is tagged with its site, so each read event names the binding CPython delivered; compared with supp names_at alternatives, lint W01/W02 and location()',
        text='For every (read, delivering same-scope binding site) pair observed in the enumerated executions, the site must be among the definitions supp lists on a fresh analysis, must not be reported unused, and must be listed by go-to-definition.',
        design='2, 3/C02', engine='E1-dynexec'),
    'C03': dict(
        technique='runtime monitor over completely enumerated decision trees: per program every oracle decision sequence is executed (loops bounded at 2 trips), so "delivered on no path" / "unbound on some path" are decided and compared with supp alternatives, undefined markers and E02',
        text='On programs whose decision tree was enumerated completely, every same-scope alternative supp lists must have been delivered on some path, the possibly-undefined marker must agree with the existence of an unbound arrival, and reads unbound on every path must carry E02.',
        design='2, 3/C03', engine='E1-dynexec'),
    'C04': dict(
        technique='history monitor: every read site of one analysed module is queried under permutations / forward / reverse / inside-out / repeated histories and as part of lint(), each answer compared with the first-query answer on a fresh analysis; request histories on one Project vs fresh Projects',
        text='Answers (alternatives of the identifier as binding sites, set of visible names, lint resolution, request replies) observed under many query histories on one analysis state must equal the answer the same site gets as first query on a fresh analysis. Complete over all permutations for tiny modules (<= 6 reads), sampled otherwise.',
        design='3/C04', engine=''),
    'C05': dict(
        technique='differential runtime monitor: for every identifier read of real stdlib/repo files and deep-scoping generated modules, the owner scope of each alternative the real extractor returns is compared with the compiler symbol table (symtable), cross-checked against the load instruction the compiler emitted',
        text='Every read whose resolution supp returns is compared with CPython\'s own symbol table for the same source; a binding owned by a scope other than the compiler\'s is a violation with the file text as witness. Both named sub-claims are counted separately.',
        design='3/C05', engine=''),
    'C06': dict(
        technique='differential runtime monitor: generated class-hierarchy projects are imported and inspected by a child CPython (MRO, vars(), instance __dict__ after calling every method); assist()/location() of the real library on the same files are compared with it',
        text='For every query expression of the generated projects the proposals must contain every source-defined attribute the real object has and go-to-definition must land on the definition Python\'s lookup selects, as observed in a real interpreter.',
        design='3/C06', engine=''),
    'C07': dict(
        technique='differential runtime monitor: Project.get_module / norm_package / assist on import lines run on generated multi-root package trees and compared with importlib (PathFinder walk, resolve_name, pkgutil), the walk itself cross-checked by real imports in a child interpreter',
        text='For every dotted and relative name of every generated tree and roots order the file supp analyses, the ImportError cases and the sub-module proposals must agree with what importlib finds for roots + sys.path.',
        design='3/C07', engine=''),
    'C08': dict(
        technique='totality monitor: lint/assist/location of the real library are driven over real files, typing-state mutations, generated programs at every cursor position and a hostile input list; result shapes, the E01<->ast.parse relation, allowed exceptions (SyntaxError only when the independently marked text does not parse) and a deterministic interpreter-line-event budget (sys.monitoring) are checked; worker death is a violation',
        text='Every call made must return a well-formed result or raise SyntaxError exactly when the cursor-marked text does not parse, within B(n) line events; lint must carry exactly CPython\'s SyntaxError as E01 iff the text does not parse.',
        design='3/C08, 1.4', engine=''),
    'C09': dict(
        technique='history monitor: edit/request histories on a temp project are applied to one long-lived Project; every request under check_changes() is compared with the same request on a Project created at that moment; exhaustive over short histories on two fixed import chains, random long histories on random projects',
        text='After every enumerated or generated history of create/rewrite/touch operations (mtimes strictly increasing) each request on the long-lived project must equal the fresh project\'s answer; complete for all histories up to the stated length on the fixed chains.',
        design='3/C09', engine=''),
    'C11': dict(
        technique='runtime monitor with a text oracle: every position reported by lint(), location() and the module binding enumeration is checked against the tokenised text (must start the NAME token of the identifier, or the except keyword), on real files and generated layouts',
        text='Every reported binding position on the real files and the generated layouts (continuations, comments, tabs, form feeds, aliases equal to module names, multi-line imports, several statements per line) must point at the identifier token, and all entry points must agree.',
        design='3/C11', engine=''),
    'C12': dict(
        technique='differential runtime monitor: assist() at sampled and spliced cursor positions compared with a regex prefix oracle and with a second, unmarked analysis of the same text (names_at keys / attr_list of the evaluated expression)',
        text='At every sampled cursor the prefix must be the identifier run left of the cursor, proposals sorted/unique/identifiers/without the marker, and equal to what the unmarked analysis makes visible there.',
        design='3/C12', engine=''),
    'C13': dict(
        technique='metamorphic runtime monitor: each text is re-rendered by a layout-only printer (AST identity checked per pair) and the real lint()/names_at answers of both layouts are compared through identifier-token ordinals',
        text='For every pair of AST-identical layouts (ast.unparse normal form and random re-layouts) of real files and generated programs, diagnostics and visible names/alternatives at corresponding reads must be equal.',
        design='3/C13', engine=''),
    'C17': dict(
        technique='runtime monitor across processes: the same requests are evaluated twice in one process and in fresh child interpreters that differ in PYTHONHASHSEED and in the amount of garbage allocated before importing supp (shifting object addresses); canonical JSON compared byte-wise, plus a source-order predicate on alternative lists',
        text='Every selected request (answers with more than one alternative / member) must give byte-identical results in all child processes and passes, and every list of alternative definitions must be in source order.',
        design='3/C17', engine=''),
    'C16': dict(
        technique='controlled-scheduler runtime monitor: the real Environment code runs on real threads under a line-granularity cooperative scheduler (sys.settrace) with fake Popen/Client counting launches; stateless DFS over schedules with sleep sets and preemption bounds, random/PCT schedules; plus real-subprocess runs for close/disconnect/launch failure',
        text='Every explored interleaving of prepare()/call/close() scripts of up to three threads must launch exactly one server per session, raise no handshake exception, answer every call and not deadlock; real child processes must exit after close() and after the client end disappears. Exhaustive for 1- and 2-client scripts (up to reordering of independent steps).',
        design='3/C16', engine=''),
    'C10': dict(
        technique='differential runtime monitor: lint() output on generated modules (binding-kind x scope-kind x name-shape matrix with a random never-read subset) and real files compared with a purely syntactic reference of the W01/W02 exemption rules',
        text='For every binding whose identifier has no read occurrence in the file, the real lint() must report it iff the syntactic rule says so, once, with the right code and message; the matrix cells covered are counted in the evidence.',
        design='3/C10', engine=''),
    'C15': dict(
        technique='history monitor against a real server subprocess: request histories with faults injected at every index are sent through supp.remote.Environment and each reply is compared with an in-process mirror (same Project history); pid/liveness and request-reply pairing tokens observed at the client boundary',
        text='Every reply of the real server process must equal the in-process result for the same request history (after transport normalisation); failing requests must surface as exceptions with the server message and leave later replies and the server pid unchanged.',
        design='3/C15', engine=''),
    'C14': dict(
        technique='differential runtime monitor: every dumps/loads call on the real codec compared with a reference decoder/encoder written from the MessagePack spec; exhaustive boundary enumeration + random nested values',
        text='Every dumps()/loads() of the real supp.umsgpack on the enumerated boundary integers, lengths, first bytes and cut points (complete for those finite sets) and on random nested values is compared with an independent reference codec; a disagreement is a violation with the byte stream as witness.',
        design='3/C14', engine='msgpack-ref'),
}

PENDING = {}


def main():
    props = [json.loads(l) for l in open(os.path.join(VERIF, 'properties.jsonl'))]
    checks = []
    na = []
    for p in props:
        pid = p['id']
        c = CHECKS.get(pid)
        if not c or not os.path.exists(os.path.join(VERIF, 'vf', 'props', pid.lower() + '.py')):
            na.append({'property_id': pid, 'reason': PENDING.get(pid, 'check not built yet in this revision (runtime monitor planned, see DESIGN.md section 3/%s)' % pid)})
            continue
        checks.append({
            'property_id': pid,
            'quick_cmd': './check %s --tier quick' % pid,
            'thorough_cmd': './check %s --tier thorough' % pid,
            'evidence_file': '/verif/evidence/%s.json' % pid,
            'replay_cmd_template': './check %s --replay {path}' % pid,
            'engine': c.get('engine', ''),
            'level_claimed': {'category': 'exploration', 'text': c['text'], 'design_ref': c['design']},
            'level_note': c.get('note', NOTE_COMMON),
            'technique': c['technique'],
        })
    man = {
        'version': 1,
        'setup_cmd': './setup.sh',
        'hooks': {
            'guard': 'SUPP_VERIF',
            'enable': 'no source hooks: monitors wrap supp attributes from the harness (PYTHONPATH=/repo, SUPP_VERIF=1 exported by ./check but read by nothing in /repo)',
            'baseline_off_cmd': 'cd /repo && env -u SUPP_VERIF /venv/bin/python -m pytest -q -p no:cacheprovider --timeout=900',
            'source_commits': [],
            'add_only': True,
        },
        'engines': [
            {'name': 'E1-dynexec', 'path': 'vf/dynexec.py', 'serves_properties': ['C01', 'C02', 'C03'],
             'kind_free_text': 'executes generated programs under CPython with observation-only instrumentation and a decision-vector DFS; compares delivered bindings with supp'},
            {'name': 'msgpack-ref', 'path': 'vf/msgpack_ref.py', 'serves_properties': ['C14'],
             'kind_free_text': 'spec-derived reference MessagePack codec'},
        ],
        'checks': checks,
        'not_applicable': na,
        'notes': 'All checks: ./check <ID> --tier quick|thorough; VERIF_SEED honoured; exit 0 held / 1 VIOLATION / 2 INCONCLUSIVE. Known findings: known_findings.json.',
    }
    with open(os.path.join(VERIF, 'MANIFEST.json'), 'w') as f:
        json.dump(man, f, indent=1)
        f.write('\n')


if __name__ == '__main__':
    main()
