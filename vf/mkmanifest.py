"""Regenerates /verif/MANIFEST.json from the table below (python3 -m vf.mkmanifest)."""
import importlib
import json
import os

VERIF = os.path.dirname(os.path.dirname(os.path.abspath(__file__)))

NOTE_COMMON = ('Trusted base: CPython 3.12 (/venv/bin/python) and its stdlib as oracle; the harness code under /verif/vf. '
               'The code under test is imported from /repo\'s working tree (PYTHONPATH), nothing is modelled. '
               'Runtime monitoring decides only the executions produced: held means held on the cases counted in the evidence file.')

CHECKS = {
    'C01': dict(
        technique='runtime monitor over real executions: generated programs run under CPython on every decision vector (DFS) with observation-only AST instrumentation; each successful identifier read is checked against lint() and assist()',
        text='Every identifier read that CPython executed successfully in the enumerated executions of the generated programs is an obligation on lint (no E02/E42) and assist (offers it) for the same text; a violation carries the program and the read. Held = held on the programs and paths counted in the evidence.',
        design='2, 3/C01', engine='E1-dynexec'),
    'C02': dict(
        technique='runtime monitor with value tagging: every object a binding produces is tagged with its site, so each read event names the binding CPython delivered; compared with supp names_at alternatives, lint W01/W02 and location()',
        text='For every (read, delivering same-scope binding site) pair observed in the enumerated executions, the site must be among the definitions supp lists on a fresh analysis, must not be reported unused, and must be listed by go-to-definition.',
        design='2, 3/C02', engine='E1-dynexec'),
    'C03': dict(
        technique='runtime monitor over completely enumerated decision trees: per program every oracle decision sequence is executed (loops bounded at 2 trips), so "delivered on no path" / "unbound on some path" are decided and compared with supp alternatives, undefined markers and E02',
        text='On programs whose decision tree was enumerated completely, every same-scope alternative supp lists must have been delivered on some path, the possibly-undefined marker must agree with the existence of an unbound arrival, and reads unbound on every path must carry E02.',
        design='2, 3/C03', engine='E1-dynexec'),
    'C04': dict(
        technique='history monitor: every read site of one analysed module is queried under permutations / forward / reverse / inside-out / repeated histories and as part of lint(), each answer compared with the first-query answer on a fresh analysis; request histories on one Project vs fresh Projects',
        text='Answers (alternatives of the identifier as binding sites, set of visible names, lint resolution, request replies) observed under many query histories on one analysis state must equal the answer the same site gets as first query on a fresh analysis. Complete over all permutations for tiny modules (<= 6 reads), sampled otherwise.',
        design='3/C04', engine=''),
    'C10': dict(
        technique='differential runtime monitor: lint() output on generated modules (binding-kind x scope-kind x name-shape matrix with a random never-read subset) and real files compared with a purely syntactic reference of the W01/W02 exemption rules',
        text='For every binding whose identifier has no read occurrence in the file, the real lint() must report it iff the syntactic rule says so, once, with the right code and message; the matrix cells covered are counted in the evidence.',
        design='3/C10', engine=''),
    'C15': dict(
        technique='history monitor against a real server subprocess: request histories with faults injected at every index are sent through supp.remote.Environment and each reply is compared with an in-process mirror (same Project history); pid/liveness and request-reply pairing tokens observed at the client boundary',
        text='Every reply of the real server process must equal the in-process result for the same request history (after transport normalisation); failing requests must surface as exceptions with the server message and leave later replies and the server pid unchanged.',
        design='3/C15', engine=''),
    'C14': dict(
        technique='differential runtime monitor: every dumps/loads call on the real codec compared with a reference decoder/encoder written from the MessagePack spec; exhaustive boundary enumeration + random nested values',
        text='Every dumps()/loads() of the real supp.umsgpack on the enumerated boundary integers, lengths, first bytes and cut points (complete for those finite sets) and on random nested values is compared with an independent reference codec; a disagreement is a violation with the byte stream as witness.',
        design='3/C14', engine='msgpack-ref'),
}

PENDING = {}


def main():
    props = [json.loads(l) for l in open(os.path.join(VERIF, 'properties.jsonl'))]
    checks = []
    na = []
    for p in props:
        pid = p['id']
        c = CHECKS.get(pid)
        if not c or not os.path.exists(os.path.join(VERIF, 'vf', 'props', pid.lower() + '.py')):
            na.append({'property_id': pid, 'reason': PENDING.get(pid, 'check not built yet in this revision (runtime monitor planned, see DESIGN.md section 3/%s)' % pid)})
            continue
        checks.append({
            'property_id': pid,
            'quick_cmd': './check %s --tier quick' % pid,
            'thorough_cmd': './check %s --tier thorough' % pid,
            'evidence_file': '/verif/evidence/%s.json' % pid,
            'replay_cmd_template': './check %s --replay {path}' % pid,
            'engine': c.get('engine', ''),
            'level_claimed': {'category': 'exploration', 'text': c['text'], 'design_ref': c['design']},
            'level_note': c.get('note', NOTE_COMMON),
            'technique': c['technique'],
        })
    man = {
        'version': 1,
        'setup_cmd': './setup.sh',
        'hooks': {
            'guard': 'SUPP_VERIF',
            'enable': 'no source hooks: monitors wrap supp attributes from the harness (PYTHONPATH=/repo, SUPP_VERIF=1 exported by ./check but read by nothing in /repo)',
            'baseline_off_cmd': 'cd /repo && env -u SUPP_VERIF /venv/bin/python -m pytest -q -p no:cacheprovider --timeout=900',
            'source_commits': [],
            'add_only': True,
        },
        'engines': [
            {'name': 'E1-dynexec', 'path': 'vf/dynexec.py', 'serves_properties': ['C01', 'C02', 'C03'],
             'kind_free_text': 'executes generated programs under CPython with observation-only instrumentation and a decision-vector DFS; compares delivered bindings with supp'},
            {'name': 'msgpack-ref', 'path': 'vf/msgpack_ref.py', 'serves_properties': ['C14'],
             'kind_free_text': 'spec-derived reference MessagePack codec'},
        ],
        'checks': checks,
        'not_applicable': na,
        'notes': 'All checks: ./check <ID> --tier quick|thorough; VERIF_SEED honoured; exit 0 held / 1 VIOLATION / 2 INCONCLUSIVE. Known findings: known_findings.json.',
    }
    with open(os.path.join(VERIF, 'MANIFEST.json'), 'w') as f:
        json.dump(man, f, indent=1)
        f.write('\n')


if __name__ == '__main__':
    main()
