"""Reference MessagePack decoder/encoder written from the specification.

Shares no code with supp.umsgpack.  Values are represented in a canonical, type-exact
form so that bool/int/float are kept apart and floats compare by bit pattern:

    ('nil',) ('bool', b) ('int', n) ('float', 8 bytes big-endian IEEE754 double)
    ('str', s) ('bin', b) ('arr', [..]) ('map', [(k, v), ..] in stream order) ('ext', t, data)
"""
import struct


class RefError(Exception):
    pass


class RefShort(RefError):
    pass


def _take(buf, pos, n):
    if pos + n > len(buf):
        raise RefShort()
    return buf[pos:pos + n], pos + n


def _uint(buf, pos, n):
    b, pos = _take(buf, pos, n)
    return int.from_bytes(b, 'big'), pos


def _sint(buf, pos, n):
    b, pos = _take(buf, pos, n)
    return int.from_bytes(b, 'big', signed=True), pos


def decode_at(buf, pos=0):
    b, pos = _take(buf, pos, 1)
    c = b[0]
    if c <= 0x7f:
        return ('int', c), pos
    if c >= 0xe0:
        return ('int', c - 256), pos
    if 0x80 <= c <= 0x8f:
        return _map(buf, pos, c & 0x0f)
    if 0x90 <= c <= 0x9f:
        return _arr(buf, pos, c & 0x0f)
    if 0xa0 <= c <= 0xbf:
        return _str(buf, pos, c & 0x1f)
    if c == 0xc0:
        return ('nil',), pos
    if c == 0xc1:
        raise RefError('reserved code 0xc1')
    if c == 0xc2:
        return ('bool', False), pos
    if c == 0xc3:
        return ('bool', True), pos
    if c in (0xc4, 0xc5, 0xc6):
        n, pos = _uint(buf, pos, 1 << (c - 0xc4))
        d, pos = _take(buf, pos, n)
        return ('bin', bytes(d)), pos
    if c in (0xc7, 0xc8, 0xc9):
        n, pos = _uint(buf, pos, 1 << (c - 0xc7))
        t, pos = _sint(buf, pos, 1)
        d, pos = _take(buf, pos, n)
        return ('ext', t, bytes(d)), pos
    if c == 0xca:
        d, pos = _take(buf, pos, 4)
        return ('float', struct.pack('>d', struct.unpack('>f', d)[0])), pos
    if c == 0xcb:
        d, pos = _take(buf, pos, 8)
        return ('float', bytes(d)), pos
    if 0xcc <= c <= 0xcf:
        v, pos = _uint(buf, pos, 1 << (c - 0xcc))
        return ('int', v), pos
    if 0xd0 <= c <= 0xd3:
        v, pos = _sint(buf, pos, 1 << (c - 0xd0))
        return ('int', v), pos
    if 0xd4 <= c <= 0xd8:
        t, pos = _sint(buf, pos, 1)
        d, pos = _take(buf, pos, 1 << (c - 0xd4))
        return ('ext', t, bytes(d)), pos
    if c in (0xd9, 0xda, 0xdb):
        n, pos = _uint(buf, pos, 1 << (c - 0xd9))
        return _str(buf, pos, n)
    if c in (0xdc, 0xdd):
        n, pos = _uint(buf, pos, 2 << (c - 0xdc))
        return _arr(buf, pos, n)
    if c in (0xde, 0xdf):
        n, pos = _uint(buf, pos, 2 << (c - 0xde))
        return _map(buf, pos, n)
    raise AssertionError(c)


def _str(buf, pos, n):
    d, pos = _take(buf, pos, n)
    try:
        return ('str', bytes(d).decode('utf-8')), pos
    except UnicodeDecodeError:
        raise RefError('invalid utf-8')


def _arr(buf, pos, n):
    out = []
    for _ in range(n):
        v, pos = decode_at(buf, pos)
        out.append(v)
    return ('arr', out), pos


def _map(buf, pos, n):
    out = []
    for _ in range(n):
        k, pos = decode_at(buf, pos)
        v, pos = decode_at(buf, pos)
        out.append((k, v))
    return ('map', out), pos


def decode(buf):
    v, pos = decode_at(buf, 0)
    return v, pos


# ---------------------------------------------------------------------------------------
# canonical form of Python values (what umsgpack takes / returns)

def canon(x, ext_cls):
    if x is None:
        return ('nil',)
    if isinstance(x, bool):
        return ('bool', x)
    if isinstance(x, int):
        return ('int', x)
    if isinstance(x, float):
        return ('float', struct.pack('>d', x))
    if isinstance(x, str):
        return ('str', x)
    if isinstance(x, bytes):
        return ('bin', x)
    if isinstance(x, (list, tuple)):
        return ('arr', [canon(e, ext_cls) for e in x])
    if isinstance(x, dict):
        return ('map', [(canon(k, ext_cls), canon(v, ext_cls)) for k, v in x.items()])
    if isinstance(x, ext_cls):
        return ('ext', x.type, x.data)
    raise TypeError('not in the data model: %r' % type(x))


def unordered(c):
    """maps compared as multisets of pairs (a decoder may legitimately reorder)."""
    t = c[0]
    if t == 'arr':
        return ('arr', [unordered(e) for e in c[1]])
    if t == 'map':
        return ('map', sorted(((unordered(k), unordered(v)) for k, v in c[1]), key=repr))
    return c


# ---------------------------------------------------------------------------------------
# reference encoder: canonical form -> bytes, choosing any legal format

def int_formats(n):
    """all legal encodings of integer n (spec: any int format that can hold it)."""
    out = []
    if 0 <= n <= 0x7f:
        out.append(bytes([n]))
    if -32 <= n < 0:
        out.append(bytes([n + 256]))
    for i, size in enumerate((1, 2, 4, 8)):
        if 0 <= n < (1 << (8 * size)):
            out.append(bytes([0xcc + i]) + n.to_bytes(size, 'big'))
        if -(1 << (8 * size - 1)) <= n < (1 << (8 * size - 1)):
            out.append(bytes([0xd0 + i]) + n.to_bytes(size, 'big', signed=True))
    return out


def len_headers(kind, n):
    """all legal headers for a str/bin/arr/map of length n."""
    out = []
    if kind == 'str':
        if n <= 31:
            out.append(bytes([0xa0 | n]))
        for i, size in enumerate((1, 2, 4)):
            if n < (1 << (8 * size)):
                out.append(bytes([0xd9 + i]) + n.to_bytes(size, 'big'))
    elif kind == 'bin':
        for i, size in enumerate((1, 2, 4)):
            if n < (1 << (8 * size)):
                out.append(bytes([0xc4 + i]) + n.to_bytes(size, 'big'))
    elif kind == 'arr':
        if n <= 15:
            out.append(bytes([0x90 | n]))
        for i, size in enumerate((2, 4)):
            if n < (1 << (8 * size)):
                out.append(bytes([0xdc + i]) + n.to_bytes(size, 'big'))
    elif kind == 'map':
        if n <= 15:
            out.append(bytes([0x80 | n]))
        for i, size in enumerate((2, 4)):
            if n < (1 << (8 * size)):
                out.append(bytes([0xde + i]) + n.to_bytes(size, 'big'))
    return out


def ext_headers(t, n):
    tb = t.to_bytes(1, 'big', signed=True)
    out = []
    for i, fixed in enumerate((1, 2, 4, 8, 16)):
        if n == fixed:
            out.append(bytes([0xd4 + i]) + tb)
    for i, size in enumerate((1, 2, 4)):
        if n < (1 << (8 * size)):
            out.append(bytes([0xc7 + i]) + n.to_bytes(size, 'big') + tb)
    return out


def encode(c, choose):
    """choose(list_of_alternatives) -> one of them; minimal encoder passes `lambda a: a[0]`
    after sorting by length."""
    t = c[0]
    if t == 'nil':
        return b'\xc0'
    if t == 'bool':
        return b'\xc3' if c[1] else b'\xc2'
    if t == 'int':
        return choose(int_formats(c[1]))
    if t == 'float':
        alts = [b'\xcb' + c[1]]
        d = struct.unpack('>d', c[1])[0]
        try:
            f4 = struct.pack('>f', d)
            if struct.pack('>d', struct.unpack('>f', f4)[0]) == c[1]:
                alts.append(b'\xca' + f4)
        except (OverflowError, struct.error):
            pass
        return choose(alts)
    if t == 'str':
        raw = c[1].encode('utf-8')
        return choose(len_headers('str', len(raw))) + raw
    if t == 'bin':
        return choose(len_headers('bin', len(c[1]))) + c[1]
    if t == 'arr':
        return choose(len_headers('arr', len(c[1]))) + b''.join(encode(e, choose) for e in c[1])
    if t == 'map':
        return choose(len_headers('map', len(c[1]))) + b''.join(
            encode(k, choose) + encode(v, choose) for k, v in c[1])
    if t == 'ext':
        return choose(ext_headers(c[1], len(c[2]))) + c[2]
    raise AssertionError(t)


def minimal(alts):
    return min(alts, key=len)
