"""C01 - names bound at run time are visible (no false E02/E42; completion offers them).

Engine E1: generated programs are executed by CPython on every decision vector (DFS); every successful identifier
read is an obligation for supp's lint() and assist() on the same text."""
from vf.props import e1common

RULE = ('case = one generated program (full C01 grammar, mode c01; plus structured c02-mode programs), executed on all decision '
        'vectors up to the path cap; obligation = every identifier read CPython executed successfully on some path '
        '(also after earlier failed reads): lint must not report E02/E42 there, assist at the end of the identifier '
        'must offer it.  non-trivial = program with >= 5 distinct successfully-read sites and >= 2 executed paths; '
        'distinct by (seed, mode, size, index).  Out of the domain and not generated: match, PEP 695, except*, del, '
        'exec/eval/globals()/locals()/setattr, AugAssign, async constructs, yield.')


def main(run):
    q = run.quick
    plan = [
        {'mode': 'c01', 'size': 'medium', 'n': 420 if q else 9000, 'max_paths': 200 if q else 1500, 'risky': 99},
        {'mode': 'c01', 'size': 'large', 'n': 100 if q else 3000, 'max_paths': 200 if q else 1500, 'risky': 99},
        {'mode': 'c02', 'size': 'small', 'n': 200 if q else 5000, 'max_paths': 200 if q else 1500, 'risky': 2},
    ]
    return e1common.run(run, plan, RULE,
                        require=('C01_successful_read_sites', 'C01_assist_checked', 'paths_executed'),
                        assumptions=['the opaque helpers (vf/dynrt.py) only supply decisions and fresh values; the program text supp analyses is the text CPython runs',
                                     'assist is asked at up to 60 read sites per program (the first ones in source order); lint covers all',
                                     'exceptions raised by assist/lint themselves are counted and left to C08'])


replay = e1common.replay
