"""C01 - names bound at run time are visible (no false E02/E42; completion offers them).

Engine E1: generated programs are executed by CPython on every decision vector (DFS); every successful identifier
read is an obligation for supp's lint() and assist() on the same text."""
from vf.props import e1common

RULE = ('case = one generated program (full C01 grammar, mode c01; plus structured c02-mode programs), executed on all decision '
        'vectors up to the path cap; obligation = every identifier read CPython executed successfully on some path '
        '(also after earlier failed reads): lint must not report E02/E42 there, assist at the end of the identifier '
        'must offer it.  non-trivial = program with >= 5 distinct successfully-read sites and >= 2 executed paths; '
        'distinct by (seed, mode, size, index).  Out of the domain and not generated: match, PEP 695, except*, del, '
        'exec/eval/globals()/locals()/setattr, AugAssign, async constructs, yield.  Import mode: real stdlib / repository modules '
        'are executed in a child interpreter with every identifier read wrapped in an observer; reads that succeeded there are the '
        'same obligation (names created dynamically - not bound syntactically anywhere in the module and not builtins - are outside '
        'the domain and counted).')


def main(run):
    q = run.quick
    plan = [
        {'mode': 'c01', 'size': 'medium', 'n': 420 if q else 9000, 'max_paths': 200 if q else 1500, 'risky': 99},
        {'mode': 'c01', 'size': 'large', 'n': 100 if q else 3000, 'max_paths': 200 if q else 1500, 'risky': 99},
        {'mode': 'c02', 'size': 'small', 'n': 200 if q else 5000, 'max_paths': 200 if q else 1500, 'risky': 2},
    ]
    jobs = import_jobs(run)
    rng = run.rng('import-mode')
    rng.shuffle(jobs)
    if q:
        jobs = jobs[:64]
    extra = [('vf.props.c01:work_import', {'jobs': jobs[i:i + 8], 'assist_per_module': 8 if q else 20}) for i in range(0, len(jobs), 8)]
    return e1common.run(run, plan, RULE, extra_jobs=extra,
                        require=('C01_successful_read_sites', 'C01_assist_checked', 'paths_executed'),
                        assumptions=['the opaque helpers (vf/dynrt.py) only supply decisions and fresh values; the program text supp analyses is the text CPython runs',
                                     'assist is asked at up to 60 read sites per program (the first ones in source order); lint covers all',
                                     'exceptions raised by assist/lint themselves are counted and left to C08'])


replay = e1common.replay


# ---------------------------------------------------------------------------------------------------------
# "import mode": real modules of the standard library and of the repository are executed (their module bodies,
# class bodies, decorators, defaults, annotations, and whatever import calls) in a child interpreter with every
# identifier read wrapped in an observer; every read that succeeded there is the same obligation as above.

IMPORT_EXCLUDE = ('antigravity', 'this', 'idlelib', 'tkinter', 'turtledemo', 'turtle', 'lib2to3', 'ensurepip', 'venv',
                  'pydoc_data', 'site', 'sitecustomize', 'usercustomize', '__phello__', '__hello__', 'msilib', 'test',
                  '_pyrepl', 'pip', 'setuptools', 'curses', 'dbm', 'webbrowser', 'nturl2path', 'winreg')


def import_jobs(run):
    import os
    from vf import corpus, core
    root = corpus.stdlib_root()
    jobs = []
    for path in corpus.stdlib_files():
        rel = os.path.relpath(path, root)[:-3].split(os.sep)
        if rel[-1] == '__init__':
            rel = rel[:-1]
        if not rel or rel[-1] == '__main__' or rel[0] in IMPORT_EXCLUDE or not all(p.isidentifier() for p in rel):
            continue
        if any(p.startswith('win') or p.endswith('_win32') or 'windows' in p or p.startswith('_osx') or p == 'mbcs' or p == 'oem' for p in rel):
            continue
        jobs.append({'name': '.'.join(rel), 'path': path})
    for path in corpus.repo_files():
        rel = os.path.relpath(path, core.REPO)[:-3].split(os.sep)
        if rel[0] == 'supp' and rel[-1] not in ('server', 'linter', 'conftest'):
            if rel[-1] == '__init__':
                rel = rel[:-1]
            jobs.append({'name': '.'.join(rel), 'path': path})
    return jobs


def work_import(arg):
    import ast
    import builtins
    import json
    import os
    import shutil
    import subprocess
    import symtable
    import tempfile
    from vf import core
    from supp import linter, assistant
    from supp.project import Project
    part = core.Part()
    tmp = tempfile.mkdtemp(prefix='vf-c01i-')
    try:
        jf, of = os.path.join(tmp, 'jobs.json'), os.path.join(tmp, 'out.json')
        with open(jf, 'w') as f:
            json.dump(arg['jobs'], f)
        env = core.child_env({'HOME': tmp, 'PYTHONWARNINGS': 'ignore'})
        try:
            subprocess.run([core.PY, '-B', '-m', 'vf.c01_child', jf, of], cwd=tmp, env=env, timeout=240,
                           stdout=subprocess.DEVNULL, stderr=subprocess.DEVNULL, stdin=subprocess.DEVNULL)
        except subprocess.TimeoutExpired:
            part.count('import_mode_batches_timed_out(partial results used)')
        try:
            results = json.load(open(of))
        except Exception:
            results = []
        part.count('import_mode_modules_attempted', len(arg['jobs']))
        bnames = set(dir(builtins))
        for r in results:
            if 'skip' in r:
                part.hist('import_mode_skipped', r['skip'].split(':')[0])
                continue
            text, path = r['text'], r['path']
            part.count('import_mode_modules_executed')
            part.count('import_mode_successful_read_sites', len(r['success']))
            part.case('import:' + r['name'], nontrivial=len(r['success']) >= 20)
            project = Project([os.path.dirname(path)])
            try:
                rows = linter.lint(project, text, path)
            except Exception as e:
                part.count('lint_raised(C08 business)')
                continue
            bad = {(x[2], x[3]): x for x in rows if x[0] in ('E02', 'E42')}
            ok = {(l, c): n for l, c, n in r['success']}
            hits = [(pos, bad[pos]) for pos in ok if pos in bad and bad[pos][1].endswith(': ' + ok[pos])]
            part.count('C01_successful_read_sites', len(ok))
            # domain: the identifier is bound syntactically somewhere in the module, or is a builtin; names created through
            # globals().update(...), setattr(module, ...) and the like, and PEP 695 type parameters, are outside it
            bound = set()

            def walk(t):
                for sy in t.get_symbols():
                    if sy.is_assigned() or sy.is_imported() or sy.is_parameter() or sy.is_namespace():
                        bound.add(sy.get_name())
                for c in t.get_children():
                    walk(c)
            try:
                walk(symtable.symtable(text, path, 'exec'))
                tree = ast.parse(text)
            except Exception:
                part.count('import_mode_symtable_failed')
                continue
            typeparams = set()
            for n in ast.walk(tree):
                for tp in getattr(n, 'type_params', None) or ():
                    typeparams.add(tp.name)
            star = 'star-import-in-module' if any(isinstance(n, ast.ImportFrom) and n.names[0].name == '*' for n in ast.walk(tree)) else 'no-star'

            def in_domain(name):
                if name in typeparams:
                    part.count('import_mode_reads_of_type_parameters(outside the domain)')
                    return False
                if name not in bound and name not in bnames:
                    part.count('import_mode_reads_of_dynamically_created_names(outside the domain)')
                    return False
                return True
            for pos, row in hits:
                name = ok[pos]
                if in_domain(name):
                    part.violation('unclassified:import-mode:%s:%s:%s' % (row[0], 'builtin' if name not in bound else 'bound-in-module', star),
                                   '%s: lint reports %s %r at %s but importing the module read %s successfully' % (r['name'], row[0], row[1], pos, name),
                                   {'module': r['name'], 'path': path, 'read': [pos[0], pos[1], name], 'text': text if len(text) < 60000 else None})
            # assist on a sample
            sample = sorted(ok)[::max(1, len(ok) // arg.get('assist_per_module', 12))][:arg.get('assist_per_module', 12)]
            for pos in sample:
                name = ok[pos]
                try:
                    prefix, props = assistant.assist(project, text, (pos[0], pos[1] + len(name)), path)
                except Exception:
                    part.count('assist_raised(C08 business)')
                    continue
                part.count('C01_assist_checked')
                if name not in props and in_domain(name):
                    part.violation('unclassified:import-mode:assist-missing:%s' % star, '%s: assist at end of %s %s does not offer it' % (r['name'], name, pos),
                                   {'module': r['name'], 'path': path, 'read': [pos[0], pos[1], name]})
    finally:
        shutil.rmtree(tmp, ignore_errors=True)
    return part.dump()
