"""C02 - the definition actually read is reported (names_at alternatives, no false W01/W02, go-to-definition complete).

Engine E1 with value tagging: every object a binding produces is tagged with its binding site, so a read event
identifies the unique site whose value CPython delivered."""
from vf.props import e1common

RULE = ('case = one generated program of the structured fragment (mode c02: no break/continue, raising calls only as first/last '
        'statement of a try body and always caught, comprehension inner expressions do not read a name the enclosing statement '
        'rebinds), executed on all decision vectors up to the path cap; obligation = every (read, delivered same-scope binding '
        'site) pair observed before any failed read on the path: the site must be among supp\'s alternatives for that read on a '
        'fresh analysis, lint must not report the binding unused, location() from the read must list it.  non-trivial = program '
        'with at least one read that observed >= 2 distinct delivering sites.  Programs raising a foreign exception are skipped.')


def main(run):
    q = run.quick
    plan = [
        {'mode': 'c02', 'size': 'small', 'n': 450 if q else 12000, 'max_paths': 256 if q else 2048, 'risky': 2},
        {'mode': 'c02', 'size': 'medium', 'n': 250 if q else 6000, 'max_paths': 256 if q else 2048, 'risky': 2},
    ]
    return e1common.run(run, plan, RULE,
                        require=('C02_read_site_pairs', 'C02_reads_with_2+_observed_sites', 'C02_location_checked',
                                 'C02_delivered_bindings_checked_against_lint'),
                        assumptions=['every binding execution produces a fresh object (generator discipline), so the tag identifies the delivering site',
                                     'same scope = same innermost def/lambda/class/module body, comprehensions transparent; names declared global/nonlocal there are skipped',
                                     'supp binding objects are mapped to sites by AST node (stamped at creation), not by declared_at found by text search'])


replay = e1common.replay
