"""C03 - no phantom definitions; 'possibly undefined' exact; never-bound names flagged.

Engine E1 on programs whose decision tree was enumerated completely, so 'on no path' is decided, not sampled."""
from vf.props import e1common

RULE = ('case = one generated program of the C02 fragment (additionally: comprehension variables / except names / a function\'s own '
        'name are not read outside their construct; at most one read of a name that is not bound on every path) whose decision tree '
        '(if/while 2-way, for/comprehension 0..2 trips, raise-which-or-none, optional-arguments yes/no) was enumerated completely; '
        'obligations per reached read: (a) every same-scope alternative supp lists was delivered on some path, (b) supp\'s '
        'possibly-undefined marker agrees with "some path reached the read unbound", (c) a read unbound on every path has an E02. '
        'Universal verdicts (a, b+, c) are only taken when no other read failed first on any path (a failing read ends its path). '
        'non-trivial = exhaustively enumerated program with >= 3 such obligations.')


def main(run):
    q = run.quick
    plan = [
        # mode c03 = c02 without mid-block return and with raising calls at both ends of every try body: the two
        # constructs that only ever reproduce the two open findings (their witnesses and the c02 share cover them)
        {'mode': 'c03', 'size': 'tiny', 'n': 450 if q else 13000, 'max_paths': 600 if q else 4096, 'risky': 0},
        {'mode': 'c03', 'size': 'small', 'n': 300 if q else 9000, 'max_paths': 600 if q else 4096, 'risky': 0},
        {'mode': 'c03', 'size': 'tiny', 'n': 250 if q else 8000, 'max_paths': 600 if q else 4096, 'risky': 1},
        {'mode': 'c03', 'size': 'small', 'n': 200 if q else 6000, 'max_paths': 600 if q else 4096, 'risky': 1},
        {'mode': 'c02', 'size': 'small', 'n': 100 if q else 3000, 'max_paths': 600 if q else 4096, 'risky': 0},
    ]
    return e1common.run(run, plan, RULE,
                        require=('programs_exhaustive', 'C03_alternatives_checked', 'C03_definedness_checked', 'C03_never_bound_reads'),
                        assumptions=['two loop trips suffice for reaching definitions (decisions are free, so every CFG path is feasible)',
                                     'reads in class bodies are not used for (b)/(c): an unbound class-local falls through to the module namespace',
                                     'names declared global/nonlocal anywhere in the program and scopes with a star-import are not used for (b)/(c)'])


replay = e1common.replay
