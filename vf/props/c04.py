"""C04 - answers do not depend on which positions were queried before.

Monitor: the same read sites of one analysed module are queried under many histories (permutations, forward / reverse /
inside-out, repeated, and as part of a whole-file lint) on ONE analysis state, and every answer is compared with the
answer that site gets as the FIRST query on a FRESH analysis.  Request-level histories on one long-lived Project are
compared with fresh Projects."""
import ast
import hashlib
import itertools
import json
import os
import random
import shutil
import tempfile

from vf import core, corpus


def _canon_name(nm):
    from vf import suppview
    if nm is None:
        return None
    out = []
    for a in suppview.alternatives(nm):
        k = suppview.site_key(a)
        if k is None:
            k = ('?', type(a).__name__, getattr(a, 'name', None), getattr(a, 'location', None))
        out.append(repr(k))
    return sorted(out)


def _answer(node):
    """canonical answer for one read on the current analysis state: (alternatives of its identifier, visible names)."""
    from supp.util import np
    if not hasattr(node, 'flow'):
        return ('unvisited',)
    names = node.flow.names_at(np(node))
    vis = sorted(names)
    return (_canon_name(names.get(node.id)), hashlib.md5(' '.join(vis).encode()).hexdigest()[:10], len(vis))


def _in_loop_positions(tree):
    out = set()
    for n in ast.walk(tree):
        if isinstance(n, (ast.For, ast.While, ast.AsyncFor)):
            for c in ast.walk(n):
                if isinstance(c, ast.Name) and isinstance(c.ctx, ast.Load):
                    out.add((c.lineno, c.col_offset))
    return out


def check_module(part, text, filename, project, rng, key, nperm, oracle_cap, small_exhaustive=6):
    from vf import suppview
    from supp import linter, assistant, scope as sscope
    try:
        an = suppview.Analysis(text, filename, project)
    except (SyntaxError, ValueError, RecursionError):
        part.count('modules_not_parsed')
        return
    positions = sorted(an.reads)
    if not positions:
        return
    part.count('modules')
    loops = _in_loop_positions(an.tree)
    # --- oracle: each site as the first query on a fresh analysis ---------------------------------
    if len(positions) > oracle_cap:
        inl = [p for p in positions if p in loops]
        rest = [p for p in positions if p not in loops]
        rng.shuffle(inl)
        rng.shuffle(rest)
        chosen = sorted(inl[:oracle_cap * 2 // 3] + rest[:oracle_cap - min(len(inl), oracle_cap * 2 // 3)])
    else:
        chosen = positions
    oracle = {}
    try:
        for p in chosen:
            an.fresh_scope()
            oracle[p] = _answer(an.reads[p])
    except Exception as e:
        part.count('analysis_raised(C08 business)')
        part.hist('analysis_exceptions', type(e).__name__)
        return
    part.count('oracle_first_queries', len(oracle))
    multi = sum(1 for a in oracle.values() if a[0] and isinstance(a[0], list) and len(a[0]) >= 2)
    part.count('sites_with_2+_alternatives', multi)
    part.case(key, nontrivial=multi >= 1 and any(p in loops for p in chosen))

    def compare(hist_name, order, repeat=False):
        an.fresh_scope()
        part.count('histories')
        part.hist('history_kind', hist_name)
        for p in order:
            node = an.reads[p]
            for rep in range(2 if repeat else 1):
                got = _answer(node)
                if p in oracle:
                    part.count('answers_compared')
                    if got != oracle[p]:
                        which = 'alternatives' if got[0] != oracle[p][0] else 'visible-names'
                        inl = 'in-loop' if p in loops else 'no-loop'
                        part.violation('names_at-order-dependent:%s:%s' % (which, inl),
                                       '%s: read %s at %s answers %s after history %s (%d queries), but %s as first query on a fresh analysis' % (
                                           key, node.id, p, got, hist_name, len(order), oracle[p]),
                                       {'text': text, 'filename': filename, 'read': list(p), 'history': hist_name,
                                        'order': [list(x) for x in order[:400]], 'got': got, 'oracle': oracle[p]})
                        return False
        return True

    ok = True
    if len(positions) <= small_exhaustive:
        for perm in itertools.permutations(positions):
            ok = compare('permutation-exhaustive', list(perm)) and ok
        part.count('modules_all_permutations')
    else:
        ok = compare('forward', positions) and ok
        ok = compare('reverse', positions[::-1]) and ok
        mid = len(positions) // 2
        inside_out = [x for pair in itertools.zip_longest(positions[mid:], positions[:mid][::-1]) for x in pair if x is not None]
        ok = compare('inside-out', inside_out) and ok
        ok = compare('twice-in-a-row', positions, repeat=True) and ok
        for i in range(nperm):
            perm = positions[:]
            rng.shuffle(perm)
            ok = compare('random-permutation', perm) and ok
            if not ok:
                break
        # chosen sites first in random order, then all
        ch = list(oracle)
        rng.shuffle(ch)
        ok = compare('oracle-sites-shuffled', ch) and ok

    # --- lint as a history: what each read resolved to inside lint() ------------------------------
    seen = {}
    orig = sscope.Flow.names_at
    calls = [0]

    def rec(self, loc):
        r = orig(self, loc)
        calls[0] += 1
        seen.setdefault(tuple(loc), r)
        return r
    sscope.Flow.names_at = rec
    try:
        try:
            rows = linter.lint(project, text, filename)
        except Exception as e:
            part.count('lint_raised(C08 business)')
            part.hist('lint_exceptions', type(e).__name__)
            rows = None
    finally:
        sscope.Flow.names_at = orig
    if rows is not None:
        part.count('names_at_calls_inside_lint', calls[0])
        for p, want in oracle.items():
            if p not in seen or want == ('unvisited',):
                continue
            node = an.reads[p]
            got = _canon_name(seen[p].get(node.id))
            part.count('lint_answers_compared')
            if got != want[0]:
                inl = 'in-loop' if p in loops else 'no-loop'
                part.violation('lint-resolves-differently:%s' % inl,
                               '%s: inside lint() the read %s at %s resolved to %s, as a first query to %s' % (key, node.id, p, got, want[0]),
                               {'text': text, 'filename': filename, 'read': list(p), 'got': got, 'oracle': want[0]})
                break
        # API level: a binding location() lists for a read must not be reported unused by lint of the same text
        unused = {(r[2], r[3]): r for r in rows if r[0] in ('W01', 'W02')}
        if unused:
            cand = [p for p in chosen if p in loops][:12] + [p for p in chosen if p not in loops][:6]
            for p in cand:
                node = an.reads[p]
                try:
                    locs = assistant.location(project, text, (p[0], p[1] + len(node.id)), filename)
                except Exception:
                    part.count('location_raised(C08 business)')
                    continue
                part.count('location_vs_lint_checked')
                flat = []
                for l in locs:
                    flat.extend(l if isinstance(l, list) else [l])
                for l in flat:
                    if l.get('file') == filename and l.get('loc') and tuple(l['loc']) in unused:
                        r = unused[tuple(l['loc'])]
                        if r[1].endswith(': ' + node.id):
                            part.violation('lint-unused-vs-location',
                                           '%s: lint reports %r at %s, location() from the read at %s lists that binding' % (key, r[1], tuple(l['loc']), p),
                                           {'text': text, 'filename': filename, 'read': list(p), 'row': list(r[:4])})
                            break


def work_generated(arg):
    from vf import dynexec, gen_prog
    from supp.project import Project
    part = core.Part()
    proj = dynexec.Project()
    try:
        project = Project([proj.root])
        for i in range(arg['start'], arg['start'] + arg['count']):
            rng = random.Random('%s:C04:%s:%d' % (arg['seed'], arg['size'], i))
            p = gen_prog.generate(rng, arg['mode'], arg['size'], 3)
            proj.write_main(p['text'])
            check_module(part, p['text'], proj.filename, project, rng, 'gen/%s/%s/%s/%d' % (arg['seed'], arg['mode'], arg['size'], i),
                         arg['nperm'], 10 ** 6)
    finally:
        proj.close()
    return part.dump()


def work_tiny(arg):
    """hand-shaped tiny modules (<= 6 reads): every permutation."""
    from supp.project import Project
    part = core.Part()
    root = tempfile.mkdtemp(prefix='vf-c04-')
    try:
        project = Project([root])
        for i in range(arg['start'], arg['start'] + arg['count']):
            rng = random.Random('%s:C04:tiny:%d' % (arg['seed'], i))
            text = tiny_module(rng)
            check_module(part, text, os.path.join(root, 't.py'), project, rng, 'tiny/%s/%d' % (arg['seed'], i), 0, 10 ** 6)
    finally:
        shutil.rmtree(root, ignore_errors=True)
    return part.dump()


def tiny_module(rng):
    """a loop (possibly nested / in a function) with a loop-carried name read from nested statements: <= 6 reads."""
    names = ['a', 'b', 'c']
    x, y = rng.sample(names, 2)
    loop = rng.choice(['for i in ():', 'while c0:', 'for i in ():\n        for j in ():'])
    ind = '    ' * (2 if '\n' in loop else 1)
    body = []
    reads = 0
    kinds = ['if', 'plain', 'try', 'with', 'else']
    for _ in range(rng.randint(2, 4)):
        k = rng.choice(kinds)
        n = rng.choice([x, y])
        if reads >= 4:
            k = 'bind'
        if k == 'if':
            body.append('if %s:\n%s    %s' % (n, '{I}', rng.choice([x, y])))
            reads += 2
        elif k == 'plain':
            body.append(n)
            reads += 1
        elif k == 'try':
            body.append('try:\n{I}    %s\n{I}except E:\n{I}    %s = 0' % (n, rng.choice([x, y])))
            reads += 1
        elif k == 'with':
            body.append('with %s as %s:\n{I}    pass' % (n, rng.choice([x, y])))
            reads += 1
        else:
            body.append('%s = 1' % rng.choice([x, y]))
    body.append('%s = 2' % rng.choice([x, y]))
    lines = ['%s = 0' % x, loop]
    for b in body:
        lines.append(ind + b.replace('{I}', ind))
    lines.append(rng.choice([x, y]))
    text = '\n'.join(lines) + '\n'
    if rng.random() < 0.5:
        text = 'def f(c0, E):\n' + ''.join('    ' + l + '\n' for l in text.splitlines())
    return text


def work_files(arg):
    from supp.project import Project
    part = core.Part()
    project = Project([core.REPO])
    for path in arg['files']:
        text = corpus.read_text(path)
        if text is None or len(text) > 400000:
            part.count('files_skipped')
            continue
        rng = random.Random('%s:C04:file:%s' % (arg['seed'], path))
        check_module(part, text, path, project, rng, 'file:' + os.path.relpath(path, '/'), arg['nperm'], arg['oracle_cap'])
    return part.dump()


def work_requests(arg):
    """request-level histories on one Project vs fresh Projects."""
    from vf import dynexec, gen_prog
    from supp.project import Project
    from supp import linter, assistant
    part = core.Part()
    proj = dynexec.Project()
    try:
        for i in range(arg['start'], arg['start'] + arg['count']):
            rng = random.Random('%s:C04:req:%d' % (arg['seed'], i))
            texts = [gen_prog.generate(rng, 'c02', 'small', 3)['text'] for _ in range(2)]
            files = [proj.filename, os.path.join(proj.root, 'app', 'other.py')]
            reqs = []
            for t, f in zip(texts, files):
                tree = ast.parse(t)
                reads = [n for n in ast.walk(tree) if isinstance(n, ast.Name) and isinstance(n.ctx, ast.Load)]
                rng.shuffle(reads)
                reqs.append(('lint', t, f, None))
                for n in reads[:4]:
                    reqs.append(('assist', t, f, (n.lineno, n.col_offset + len(n.id))))
                    reqs.append(('location', t, f, (n.lineno, n.col_offset + len(n.id))))

            def do(project, r):
                kind, t, f, pos = r
                try:
                    with project.check_changes():
                        if kind == 'lint':
                            return json.dumps([list(x[:4]) for x in linter.lint(project, t, f)])
                        if kind == 'assist':
                            return json.dumps(assistant.assist(project, t, pos, f))
                        return json.dumps(assistant.location(project, t, pos, f), sort_keys=True)
                except Exception as e:
                    return 'EXC:' + type(e).__name__
            fresh = {}
            for j, r in enumerate(reqs):
                fresh[j] = do(Project([proj.root]), r)
            part.count('fresh_project_answers', len(reqs))
            part.case('req/%s/%d' % (arg['seed'], i), nontrivial=len(reqs) >= 6)
            for h in range(arg['nhist']):
                order = list(range(len(reqs)))
                kind = ['forward', 'reverse', 'shuffled', 'each-thrice'][h % 4]
                if kind == 'reverse':
                    order.reverse()
                elif kind == 'shuffled':
                    rng.shuffle(order)
                elif kind == 'each-thrice':
                    order = [j for j in order for _ in range(3)]
                project = Project([proj.root])
                part.count('request_histories')
                part.hist('request_history_kind', kind)
                bad = False
                for j in order:
                    got = do(project, reqs[j])
                    part.count('request_answers_compared')
                    if got != fresh[j]:
                        part.violation('request-history-dependent:%s' % reqs[j][0],
                                       '%s request #%d answers differently after history %s than on a fresh Project' % (reqs[j][0], j, kind),
                                       {'requests': [[r[0], r[1], r[2], r[3]] for r in reqs], 'order': order, 'index': j,
                                        'got': got[:2000], 'fresh': fresh[j][:2000]})
                        bad = True
                        break
                if bad:
                    break
    finally:
        proj.close()
    return part.dump()


def gen_callgraph(rng):
    """a module of single-return functions calling each other (cycles included), some ending in a class instance,
    a literal or a multiply-bound result variable - evaluating f().attr walks the evaluator's in-progress guard and
    its memo layers"""
    n = rng.randint(3, 6)
    lines = ['class N0(object):', '    def __init__(self):', '        self.a0 = 1', '        self.b0 = []', '',
             'class N1(N0):', '    def __init__(self):', '        self.a1 = 2', '    def m1(self):', '        return N0()', '']
    leaves = ['N0()', 'N1()', "'s'", '[]', 'N1().m1()']
    for i in range(n):
        def callee():
            return 'f%d(t)' % rng.randrange(n)
        form = rng.choice(['branch', 'branch', 'direct', 'chain'])
        lines.append('def f%d(t):' % i)
        if form == 'direct':
            lines.append('    return %s' % (callee() if rng.random() < 0.6 else rng.choice(leaves)))
        elif form == 'chain':
            lines.append('    r = %s' % callee())
            lines.append('    return r')
        else:
            a, b = rng.choice(leaves), callee()
            if rng.random() < 0.5:
                a, b = b, a
            lines += ['    if not t:', '        r = %s' % a, '    else:', '        r = %s' % b, '    return r']
        lines.append('')
    return '\n'.join(lines), n


def work_requests_eval(arg):
    """request-level histories that exercise attribute evaluation across project modules: G-class projects plus a
    call-graph module; one long-lived Project against fresh Projects."""
    from vf import gen_class
    from supp.project import Project
    from supp import linter, assistant
    part = core.Part()
    for i in range(arg['start'], arg['start'] + arg['count']):
        rng = random.Random('%s:C04:reqeval:%d' % (arg['seed'], i))
        root = tempfile.mkdtemp(prefix='vf-c04e-')
        try:
            proj = gen_class.gen_project(rng, {'max_queries': 10})
            for rel, text in proj['files'].items():
                pth = os.path.join(root, rel)
                os.makedirs(os.path.dirname(pth), exist_ok=True)
                with open(pth, 'w') as f:
                    f.write(text)
            cg, n = gen_callgraph(rng)
            with open(os.path.join(root, 'vfcg.py'), 'w') as f:
                f.write(cg)
            reqs = []
            for q in proj['queries'][:8]:
                text, pos = gen_class.query_text(proj, q, None)
                reqs.append(('assist', text, os.path.join(root, q['file']), tuple(pos)))
            main = os.path.join(root, 'vfmain.py')
            for k in range(n):
                text = 'import vfcg\nx%d = vfcg.f%d([])\nx%d.\n' % (k, k, k)
                reqs.append(('assist', text, main, (3, len('x%d.' % k))))
                text = 'import vfcg\nvfcg.f%d([]).a0\n' % k
                reqs.append(('location', text, main, (2, len('vfcg.f%d([]).a0' % k))))
            reqs.append(('lint', 'import vfcg\nvfcg.f0([])\n', main, None))
            # a nested package whose modules use relative imports of several levels from one directory
            # (the package path of a relative name is memoised per Project)
            nreq = len(reqs)
            pk = {'vfp/__init__.py': 'top_%d = 1\n' % i,
                  'vfp/util.py': 'util_%d = 1\nclass U:\n    ua_%d = 1\n' % (i, i),
                  'vfp/sub/__init__.py': 'sub_%d = 1\n' % i,
                  'vfp/sub/sibling.py': 'sib_%d = 1\n' % i,
                  'vfp/sub/util.py': 'subutil_%d = 1\n' % i,
                  'vfp/sub/deep/__init__.py': 'deep_%d = 1\n' % i,
                  'vfp/sub/deep/sibling.py': 'deepsib_%d = 1\n' % i,
                  'vfp/sub/mod.py': '', 'vfp/sub/deep/mod.py': ''}
            for rel, text in pk.items():
                pth = os.path.join(root, rel)
                os.makedirs(os.path.dirname(pth), exist_ok=True)
                with open(pth, 'w') as f:
                    f.write(text)
            for rel, maxlevel in (('vfp/sub/mod.py', 2), ('vfp/sub/deep/mod.py', 3)):
                f = os.path.join(root, rel)
                for level in range(1, maxlevel + 1):
                    dots = '.' * level
                    for name in ('sibling', 'util', 'sub', 'deep'):
                        text = 'from %s import %s\n%s.' % (dots, name, name)
                        reqs.append(('assist', text, f, (2, len(name) + 1)))
                    reqs.append(('assist', 'from %s import ' % dots, f, (1, len('from %s import ' % dots))))
                    reqs.append(('lint', 'from %sutil import *\nprint(util_%d, subutil_%d, U)\n' % (dots, i, i), f, None))
                    reqs.append(('location', 'from %ssibling import sib_%d, deepsib_%d\nsib_%d\ndeepsib_%d\n' % (dots, i, i, i, i),
                                 f, (rng.choice([2, 3]), 3)))
            pkreqs = list(range(nreq, len(reqs)))
            rng.shuffle(pkreqs)
            del_idx = set(pkreqs[10:])                  # keep the history length bounded
            reqs = [r for j, r in enumerate(reqs) if j not in del_idx]
            part.count('relative_import_requests_in_nested_packages', len(pkreqs) - len(del_idx))

            def do(project, r):
                kind, t, f, pos = r
                try:
                    with project.check_changes():
                        if kind == 'lint':
                            return json.dumps([list(x[:4]) for x in linter.lint(project, t, f)])
                        if kind == 'assist':
                            return json.dumps(assistant.assist(project, t, pos, f))
                        return json.dumps(assistant.location(project, t, pos, f), sort_keys=True)
                except Exception as e:
                    return 'EXC:' + type(e).__name__
            fresh = [do(Project([root]), r) for r in reqs]
            part.count('fresh_project_answers', len(reqs))
            nonempty = sum(1 for a in fresh if a not in ('["", []]', '[]') and not a.startswith('EXC'))
            part.case('reqeval/%s/%d' % (arg['seed'], i), nontrivial=nonempty >= 4)
            part.count('eval_requests_with_nonempty_answer', nonempty)
            stop = False
            for h in range(arg['nhist']):
                order = list(range(len(reqs)))
                kind = ['forward', 'reverse', 'shuffled', 'shuffled-twice'][h % 4]
                if kind == 'reverse':
                    order.reverse()
                elif kind.startswith('shuffled'):
                    rng.shuffle(order)
                    if kind == 'shuffled-twice':
                        order = order + order
                project = Project([root])
                part.count('request_histories')
                part.hist('request_history_kind', 'eval:' + kind)
                for j in order:
                    got = do(project, reqs[j])
                    part.count('request_answers_compared')
                    if got != fresh[j]:
                        part.violation('request-history-dependent:eval:%s' % reqs[j][0],
                                       '%s request #%d (%s) answers %s after history %s, %s on a fresh Project' % (
                                           reqs[j][0], j, reqs[j][1].splitlines()[-1][:60], got[:120], kind, fresh[j][:120]),
                                       {'files': dict(proj['files'], **{'vfcg.py': cg}),
                                        'requests': [[r[0], r[1], os.path.relpath(r[2], root), r[3]] for r in reqs],
                                        'order': order, 'index': j, 'got': got[:2000], 'fresh': fresh[j][:2000]})
                        stop = True
                        break
                if stop:
                    break
        finally:
            shutil.rmtree(root, ignore_errors=True)
    return part.dump()



def main(run):
    q = run.quick
    args = []
    jobs = []
    n_gen = 320 if q else 8000
    for size in ('small', 'medium'):
        for s in range(0, n_gen // 2, 10):
            jobs.append(['vf.props.c04:work_generated', {'seed': run.seed, 'mode': 'c02' if size == 'small' else 'c01', 'size': size,
                                                          'start': s, 'count': 10, 'nperm': 8 if q else 64}])
    n_tiny = 400 if q else 6000
    for s in range(0, n_tiny, 50):
        jobs.append(['vf.props.c04:work_tiny', {'seed': run.seed, 'start': s, 'count': 50}])
    files = corpus.select(run, 60)
    files.sort(key=lambda f: -os.path.getsize(f))
    for f in files:
        jobs.append(['vf.props.c04:work_files', {'seed': run.seed, 'files': [f], 'nperm': 2 if q else 4, 'oracle_cap': 24 if q else 60}])
    n_req = 48 if q else 1200
    for s in range(0, n_req, 6):
        jobs.append(['vf.props.c04:work_requests', {'seed': run.seed, 'start': s, 'count': 6, 'nhist': 4 if q else 12}])
    n_eval = 64 if q else 1600
    for s in range(0, n_eval, 4):
        jobs.append(['vf.props.c04:work_requests_eval', {'seed': run.seed, 'start': s, 'count': 4, 'nhist': 4 if q else 12}])
    core.run_parts(run, 'vf.props.c04:dispatch', jobs, timeout=1800)
    return run.finish(
        rule='case = one analysed module (generated program, tiny loop module with all permutations, or real file) or one request set on a project; '
             'every read site of the module is queried under forward / reverse / inside-out / twice-in-a-row / random-permutation histories on one '
             'analysis state and as part of lint(); each answer (alternatives of the identifier as binding sites + the set of visible names) is '
             'compared with the answer of that site as first query on a fresh analysis.  non-trivial = module with a read inside a loop and a site '
             'with >= 2 alternatives (request sets: >= 6 requests); distinct by generator index or file path',
        require=('oracle_first_queries', 'answers_compared', 'names_at_calls_inside_lint', 'lint_answers_compared', 'request_answers_compared',
                 'modules_all_permutations', 'eval_requests_with_nonempty_answer'),
        assumptions=['for real files the first-query oracle is computed for a sample of read sites (two thirds of them inside loops); all reads are queried in the histories',
                     'exceptions raised by the analysis are left to C08'])


def dispatch(arg):
    import importlib
    fn, a = arg
    mod, _, name = fn.partition(':')
    return getattr(importlib.import_module(mod), name)(a)


def replay(run, path):
    from supp.project import Project
    with open(path) as f:
        data = json.load(f)
    part = core.Part()
    for v in data['violations']:
        c = v['case']
        if 'text' in c:
            rng = random.Random(0)
            root = os.path.dirname(c['filename'])
            check_module(part, c['text'], c['filename'], Project([root if os.path.isdir(root) else core.REPO]), rng, 'replay', 8, 10 ** 6)
    run.merge(part.dump())
    for v in run.violations:
        print('REPLAYED', v['mech'], v['what'][:300])
    return 1 if run.violations else 0
