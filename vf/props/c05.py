"""C05 - names resolve in the scope CPython's compiler assigns them to.

Monitor: the real supp scope extraction (supp.nast.extract_scope) is run over real files and
over generated deep-scoping modules; for every identifier read, the owner scope of every
alternative that Flow.names_at() returns is compared with the owner the CPython compiler
assigns to the identifier (stdlib symtable).  Nothing of supp is modelled: supp's answer is
read off the live objects (Name.scope, FuncScope.node, ClassScope -> ClassDef recorded by a
wrapper around ClassScope.__init__, global routing observed at SourceScope.add_global).

Oracle details (CPython 3.12, PEP 709): list/set/dict comprehensions have no symtable block of
their own (they are inlined into the enclosing block); generator expressions have one.  AST
scope nodes are matched to symtable blocks by (name, line) in the compiler's traversal order,
an AST comprehension that finds no block is treated as inlined and its nested scopes are
spliced in place, and every match is cross-checked (parameter lists, comprehension targets).
A file where this fails is counted unmatched and skipped.
"""
import ast
import hashlib
import json
import os
import shutil
import symtable
import sys
import tempfile
import warnings

from vf import core, corpus

COMP_NAMES = {ast.ListComp: 'listcomp', ast.SetComp: 'setcomp', ast.DictComp: 'dictcomp',
              ast.GeneratorExp: 'genexpr'}
FUNC_TYPES = (ast.FunctionDef, ast.AsyncFunctionDef)
MAX_TEXT_IN_CASE = 40000
PER_FILE_MECH_CAP = 3


# --------------------------------------------------------------------------------------
# harness-side observation points on the real supp classes

def install():
    """wrap ClassScope.__init__ (record the ClassDef) and SourceScope.add_global (record routing)."""
    from supp import scope as S
    if getattr(S.ClassScope, '_vf_wrapped', False):
        return
    orig_init = S.ClassScope.__init__

    def __init__(self, *a, **kw):
        orig_init(self, *a, **kw)
        self._vf_node = a[1] if len(a) > 1 else kw.get('node')
    S.ClassScope.__init__ = __init__
    S.ClassScope._vf_wrapped = True

    orig_add_global = S.SourceScope.add_global

    def add_global(self, name):
        self.__dict__.setdefault('_vf_routed', {})[id(name)] = name     # keeps the object alive: ids stay unique
        return orig_add_global(self, name)
    S.SourceScope.add_global = add_global


# --------------------------------------------------------------------------------------
# AST scope tree in the compiler's traversal order

class Unmatched(Exception):
    pass


def mangle(private, name):
    if not private or not name.startswith('__') or name.endswith('__') or '.' in name:
        return name
    p = private.lstrip('_')
    if not p:
        return name
    return '_' + p + name


class Sc(object):
    """one scope-introducing AST node"""
    __slots__ = ('kind', 'node', 'parent', 'children', 'private', 'targets', 'mentions', 'block', 'inlined',
                 'bname', 'lineno', 'params', 'inl_targets', 'syms', 'depth', 'posonly')

    def __init__(self, kind, node, parent, bname, private):
        self.kind = kind            # module | function | lambda | class | comp
        self.node = node
        self.parent = parent
        self.children = []
        self.private = private
        self.targets = set()        # comp: mangled iteration-variable names
        self.mentions = set()       # mangled identifiers the compiler registers in this block itself
        self.block = None
        self.inlined = False
        self.bname = bname
        self.lineno = getattr(node, 'lineno', 0)
        self.params = []
        self.posonly = set()
        self.inl_targets = set()    # targets of comprehensions inlined into this (real) block
        self.syms = None
        self.depth = 0 if parent is None else parent.depth + 1
        if parent is not None:
            parent.children.append(self)

    def label(self):
        if self.kind == 'module':
            return 'module'
        if self.kind == 'comp':
            return '%s@%d' % (self.bname, self.lineno)
        return '%s %s@%d' % (self.kind, self.bname, self.lineno)

    def noncomp(self):
        s = self
        while s.kind == 'comp':
            s = s.parent
        return s

    def lookup(self, m):
        if self.syms is None:
            self.syms = {s.get_name(): s for s in self.block.get_symbols()}
        return self.syms.get(m)


class Builder(object):
    def __init__(self, tree):
        self.reads = []             # (Name node, Sc, in_annotation)
        self.comp_target_pos = {}   # (line, col) of comprehension iteration variables -> comp Sc
        self.future_ann = False
        self.skipped_future_ann = 0
        self.pep695 = False
        for st in tree.body:
            if isinstance(st, ast.ImportFrom) and st.module == '__future__' and any(a.name == 'annotations' for a in st.names):
                self.future_ann = True
        self.top = Sc('module', tree, None, 'top', None)
        for st in tree.body:
            self.visit(st, self.top, False)

    # annotations under 'from __future__ import annotations' live in a throw-away block the
    # symbol table does not keep: no reads, no mentions, no nested scopes from them.
    def ann(self, node, sc):
        if node is None:
            return
        if self.future_ann:
            self.skipped_future_ann += sum(1 for n in ast.walk(node) if isinstance(n, ast.Name))
            return
        self.visit(node, sc, True)

    def args_outer(self, a, sc, ann):
        for d in a.defaults:
            self.visit(d, sc, ann)
        for d in a.kw_defaults:
            if d is not None:
                self.visit(d, sc, ann)

    def arg_annotations(self, a, returns, sc):
        for x in a.posonlyargs + a.args:
            self.ann(x.annotation, sc)
        if a.vararg:
            self.ann(a.vararg.annotation, sc)
        if a.kwarg:
            self.ann(a.kwarg.annotation, sc)
        for x in a.kwonlyargs:
            self.ann(x.annotation, sc)
        self.ann(returns, sc)

    def add_params(self, a, child):
        names = [x.arg for x in a.posonlyargs + a.args + a.kwonlyargs]
        if a.vararg:
            names.append(a.vararg.arg)
        if a.kwarg:
            names.append(a.kwarg.arg)
        child.params = [mangle(child.private, n) for n in names]
        child.posonly = set(mangle(child.private, x.arg) for x in a.posonlyargs)
        child.mentions.update(child.params)

    def visit(self, node, sc, ann):
        t = type(node)
        if t is ast.Name:
            sc.mentions.add(mangle(sc.private, node.id))
            if type(node.ctx) is ast.Load:
                self.reads.append((node, sc, ann))
            return
        if t in FUNC_TYPES:
            if getattr(node, 'type_params', None):
                self.pep695 = True
            sc.mentions.add(mangle(sc.private, node.name))
            self.args_outer(node.args, sc, ann)
            for d in node.decorator_list:
                self.visit(d, sc, ann)
            self.arg_annotations(node.args, node.returns, sc)
            child = Sc('function', node, sc, node.name, sc.private)
            self.add_params(node.args, child)
            for s in node.body:
                self.visit(s, child, False)
            return
        if t is ast.Lambda:
            self.args_outer(node.args, sc, ann)
            child = Sc('lambda', node, sc, 'lambda', sc.private)
            self.add_params(node.args, child)
            self.visit(node.body, child, ann)
            return
        if t is ast.ClassDef:
            if getattr(node, 'type_params', None):
                self.pep695 = True
            sc.mentions.add(mangle(sc.private, node.name))
            for d in node.decorator_list:
                self.visit(d, sc, ann)
            for b in node.bases:
                self.visit(b, sc, ann)
            for k in node.keywords:
                self.visit(k.value, sc, ann)
            child = Sc('class', node, sc, node.name, node.name)
            for s in node.body:
                self.visit(s, child, False)
            return
        if t in COMP_NAMES:
            gens = node.generators
            self.visit(gens[0].iter, sc, ann)
            child = Sc('comp', node, sc, COMP_NAMES[t], sc.private)
            for i, g in enumerate(gens):
                self.comp_target(g.target, child)
                self.visit(g.target, child, ann)
                if i:
                    self.visit(g.iter, child, ann)
                for c in g.ifs:
                    self.visit(c, child, ann)
            if t is ast.DictComp:
                self.visit(node.value, child, ann)
                self.visit(node.key, child, ann)
            else:
                self.visit(node.elt, child, ann)
            return
        if t is ast.Global or t is ast.Nonlocal:
            sc.mentions.update(mangle(sc.private, n) for n in node.names)
            return
        if t is ast.Import or t is ast.ImportFrom:
            for a in node.names:
                if a.name != '*':
                    sc.mentions.add(mangle(sc.private, a.asname or a.name.partition('.')[0]))
            return
        if t is ast.Try or t.__name__ == 'TryStar':
            # compiler order: body, orelse, handlers, finalbody
            for part_ in (node.body, node.orelse, node.handlers, node.finalbody):
                for c in part_:
                    self.visit(c, sc, ann)
            return
        if t is ast.ExceptHandler:
            if node.name:
                sc.mentions.add(mangle(sc.private, node.name))
        elif t is ast.AnnAssign:
            self.visit(node.target, sc, ann)
            self.ann(node.annotation, sc)
            if node.value is not None:
                self.visit(node.value, sc, ann)
            return
        elif t is ast.MatchAs or t is ast.MatchStar:
            if node.name:
                sc.mentions.add(mangle(sc.private, node.name))
        elif t is ast.MatchMapping:
            if node.rest:
                sc.mentions.add(mangle(sc.private, node.rest))
        elif t.__name__ in ('TypeAlias', 'TypeVar', 'ParamSpec', 'TypeVarTuple'):
            self.pep695 = True
        for c in ast.iter_child_nodes(node):
            self.visit(c, sc, ann)

    def comp_target(self, target, comp):
        for n in ast.walk(target):
            if type(n) is ast.Name and type(n.ctx) is ast.Store:
                comp.targets.add(mangle(comp.private, n.id))
                self.comp_target_pos[(n.lineno, n.col_offset)] = comp


def match_tree(top_sc, top_block, part):
    """attach symtable blocks to AST scopes; raises Unmatched."""
    top_sc.block = top_block
    todo = [top_sc]
    nscopes = 0
    while todo:
        sc = todo.pop()
        nscopes += 1
        blocks = sc.block.get_children()
        pos = [0]
        got = []

        def go(children, hosts):
            for c in children:
                i = pos[0]
                if i < len(blocks) and blocks[i].get_name() == c.bname and blocks[i].get_lineno() == c.lineno:
                    c.block = blocks[i]
                    pos[0] += 1
                    got.append(c)
                elif c.kind == 'comp' and c.bname != 'genexpr':
                    c.inlined = True
                    for h in hosts:             # the real block and every inlined comprehension in between
                        h.inl_targets.update(c.targets)
                    go(c.children, hosts + [c])
                else:
                    raise Unmatched('no block for %s under %s' % (c.label(), sc.label()))
        go(sc.children, [sc])
        if sc.kind == 'comp':
            # the block's locals are exactly the iteration variables (walrus targets belong to the enclosing
            # scope), plus possibly variables of comprehensions inlined into it that it does not mention itself
            loc = set(s.get_name() for s in sc.block.get_symbols() if s.is_local() and s.get_name() != '.0')
            # (whether such a merged variable shows up as local depends on which inlined sibling the compiler met first)
            extra = set(n for n in sc.inl_targets if n not in sc.mentions)
            if not (sc.targets <= loc <= sc.targets | extra):
                raise Unmatched('targets of %s: ast %s (+%s) symtable %s' % (sc.label(), sorted(sc.targets), sorted(extra), sorted(loc)))
            part.count('oracle_selfcheck_comp_targets_equal_block_locals')
        if pos[0] != len(blocks):
            raise Unmatched('extra block %s@%d under %s' % (blocks[pos[0]].get_name(), blocks[pos[0]].get_lineno(), sc.label()))
        for c in got:
            b = c.block
            typ = b.get_type()
            if c.kind == 'class':
                if typ != 'class':
                    raise Unmatched('block type of %s is %s' % (c.label(), typ))
            else:
                if typ != 'function':
                    raise Unmatched('block type of %s is %s' % (c.label(), typ))
                if c.kind == 'comp':
                    pass
                else:
                    if sorted(b.get_parameters()) != sorted(c.params):
                        raise Unmatched('parameters of %s: ast %s symtable %s' % (c.label(), c.params, b.get_parameters()))
                    part.count('oracle_selfcheck_parameters_equal')
            todo.append(c)
    return nscopes


# --------------------------------------------------------------------------------------
# oracle: owner of a read according to the compiler

MODULE = 'module'
BUILTIN = 'builtin'
GLOBAL_OWNERS = frozenset((MODULE, BUILTIN))


class Skip(Exception):
    def __init__(self, reason):
        self.reason = reason


def owner_set(s):
    return GLOBAL_OWNERS if s.kind == 'module' else frozenset((s,))


def comp_owner(comp, m):
    """iteration variable m of comprehension `comp`: a binding of the nearest enclosing non-comprehension scope
    (property text).  When that scope declares the name global/nonlocal the convention has no unambiguous
    meaning (CPython keeps the variable comprehension-local, a binding 'of the enclosing scope' would be
    re-routed by the declaration): such reads are left out."""
    rs = comp.noncomp()
    if rs.kind == 'class':
        # as a 'binding of the class body' it would be both out of the class-body domain and subject to the
        # methods-do-not-see-class-bindings clause, while the compiler lets nested lambdas see it: left out
        raise Skip('class_level_comprehension_variable')
    if rs.kind != 'module':
        sym = rs.lookup(m)
        if sym is not None and (sym.is_declared_global() or sym.is_nonlocal()):
            raise Skip('comprehension_variable_declared_global_or_nonlocal_in_enclosing_scope')
    return owner_set(rs)


def class_binds(c, m):
    sym = c.lookup(m)
    return sym is not None and sym.is_local() and m in c.mentions


def polluted(s, m):
    """the symbol of m in real block s exists only because an inlined comprehension's target was merged in"""
    return m not in s.mentions and m in s.inl_targets


def resolve_up(s, m, free):
    """owner of m seen from a function-like scope nested directly in s.
    free=True: the compiler said 'free', so reaching the module is an anomaly."""
    while s is not None:
        if s.kind == 'module':
            if free:
                raise Skip('free_reached_module')
            return GLOBAL_OWNERS, 'global-via-class-comprehension'
        if s.kind == 'class':
            pass        # neither the bindings nor the global declarations of a class body reach nested scopes
        elif s.kind == 'comp':
            if m in s.targets:
                return comp_owner(s, m), 'free-comp-target'
            if polluted(s, m):
                raise Skip('inlined_comprehension_merged_symbol')
        else:
            if polluted(s, m):
                raise Skip('inlined_comprehension_merged_symbol')
            sym = s.lookup(m)
            if sym is not None:
                if sym.is_local():
                    return frozenset((s,)), 'free'
                if sym.is_global():
                    if free:
                        raise Skip('free_reached_global')
                    return GLOBAL_OWNERS, 'global-via-class-comprehension'
        s = s.parent
    raise Skip('free_unresolved')


def expected_owner(sc, raw):
    """-> (frozenset of acceptable owners, kind label); raises Skip(reason)."""
    m = mangle(sc.private, raw)
    s = sc
    while s.kind == 'comp' and s.inlined:
        if m in s.targets:
            return comp_owner(s, m), 'comp-target-inlined'
        if polluted(s, m):
            # CPython 3.12 compiles such a read against the variable of a sibling comprehension merged into s
            raise Skip('inlined_comprehension_merged_symbol')
        s = s.parent
    through = s is not sc
    if s.kind == 'module':
        if through and polluted(s, m):
            raise Skip('inlined_comprehension_merged_symbol')
        return GLOBAL_OWNERS, 'module-level'
    if s.kind == 'class':
        if through:
            # a comprehension body in a class body cannot see the class's own bindings; the property folds
            # comprehensions into the enclosing scope and leaves class-body reads of names the class binds out
            if class_binds(s, m):
                raise Skip('class_level_comprehension_read_of_name_the_class_binds')
            return resolve_up(s, m, False)
        sym = s.lookup(m)
        if sym is None:
            raise Skip('no_symbol')
        if sym.is_local():
            raise Skip('class_body_read_of_name_the_class_binds')
        if sym.is_global():
            return GLOBAL_OWNERS, 'global-explicit' if sym.is_declared_global() else 'global-implicit'
        if sym.is_free():
            return resolve_up(s.parent, m, True)
        raise Skip('odd_symbol')
    if through and polluted(s, m):
        raise Skip('inlined_comprehension_merged_symbol')
    sym = s.lookup(m)
    if sym is None:
        raise Skip('no_symbol')
    if s.kind == 'comp':
        if sym.is_local() != (m in s.targets):
            raise Skip('comp_block_disagrees_with_targets')
        if sym.is_local():
            return comp_owner(s, m), 'comp-target-block'
        rs = s.noncomp()
        if rs.kind == 'class' and class_binds(rs, m):
            c = s.parent
            while c.kind == 'comp' and m not in c.targets:
                c = c.parent
            if c is rs:
                raise Skip('class_level_comprehension_read_of_name_the_class_binds')
    if sym.is_local():
        return frozenset((s,)), 'local-param' if sym.is_parameter() else 'local'
    if sym.is_global():
        return GLOBAL_OWNERS, 'global-explicit' if sym.is_declared_global() else 'global-implicit'
    if sym.is_free():
        own, kind = resolve_up(s.parent, m, True)
        if sym.is_nonlocal():
            kind = kind + '-nonlocal-declared'
        return own, kind
    raise Skip('odd_symbol')


# --------------------------------------------------------------------------------------
# second, independent view of the compiler's decision: the load instruction it emitted for the read

OP_CATEGORY = {'LOAD_FAST': 'local', 'LOAD_FAST_CHECK': 'local', 'LOAD_FAST_AND_CLEAR': 'local',
               'LOAD_GLOBAL': 'global', 'LOAD_NAME': 'name', 'LOAD_FROM_DICT_OR_GLOBALS': 'global',
               'LOAD_FROM_DICT_OR_DEREF': 'free', 'LOAD_CLASSDEREF': 'free'}
ALLOWED_CATEGORIES = {
    'module-level': {'name', 'global'},
    'global-explicit': {'name', 'global'},
    'global-implicit': {'name', 'global'},
    'global-via-class-comprehension': {'global'},
    'local': {'local'}, 'local-param': {'local'},
    'comp-target-inlined': {'local'}, 'comp-target-block': {'local'},
    'free': {'free'}, 'free-comp-target': {'free'},
    'free-nonlocal-declared': {'free'}, 'free-comp-target-nonlocal-declared': {'free'},
}


def bytecode_loads(code):
    """{(line, col, end_line, end_col, identifier): set of categories} over all nested code objects"""
    import dis
    out = {}
    todo = [code]
    while todo:
        co = todo.pop()
        for c in co.co_consts:
            if hasattr(c, 'co_code'):
                todo.append(c)
        cells = set(co.co_cellvars)
        frees = set(co.co_freevars)
        for ins in dis.get_instructions(co):
            op = ins.opname
            if op == 'LOAD_DEREF':
                if ins.argval in cells and ins.argval in frees:
                    # a closure variable of this code object that is also the (cell) variable of a comprehension
                    # inlined into it: the instruction alone does not tell which
                    out.setdefault((ins.positions.lineno, ins.positions.col_offset, ins.positions.end_lineno,
                                    ins.positions.end_col_offset, ins.argval), set()).update(('local', 'free'))
                    continue
                cat = 'local' if ins.argval in cells else 'free'
            else:
                cat = OP_CATEGORY.get(op)
                if cat is None:
                    continue
            pos = ins.positions
            if pos is None or pos.lineno is None or pos.col_offset is None:
                continue
            out.setdefault((pos.lineno, pos.col_offset, pos.end_lineno, pos.end_col_offset, ins.argval), set()).add(cat)
    return out


# --------------------------------------------------------------------------------------
# structural features of a failing read (mechanism labels)

KIND_PRIORITY = ['param-posonly', 'param', 'param-kwonly', 'param-vararg', 'param-kwarg', 'match-capture', 'augassign',
                 'annassign-without-value', 'del', 'walrus', 'assign', 'annassign', 'for', 'with', 'except', 'import',
                 'def', 'class', 'unknown']


def binding_kinds(sc, m):
    """syntactic forms by which function/lambda/class scope sc itself binds mangled name m"""
    kinds = set()
    node = sc.node
    priv = sc.private

    def same(n):
        return mangle(priv, n) == m

    if sc.kind in ('function', 'lambda'):
        a = node.args
        for x in a.posonlyargs:
            if same(x.arg):
                kinds.add('param-posonly')
        for x in a.args:
            if same(x.arg):
                kinds.add('param')
        for x in a.kwonlyargs:
            if same(x.arg):
                kinds.add('param-kwonly')
        if a.vararg and same(a.vararg.arg):
            kinds.add('param-vararg')
        if a.kwarg and same(a.kwarg.arg):
            kinds.add('param-kwarg')
    body = node.body if isinstance(node.body, list) else [node.body]

    def stores(t, kind):
        for n in ast.walk(t):
            if type(n) is ast.Name and type(n.ctx) in (ast.Store, ast.Del) and same(n.id):
                kinds.add(kind)

    def walk(n, in_comp):
        t = type(n)
        if t in FUNC_TYPES or t is ast.ClassDef:
            if not in_comp and same(n.name):
                kinds.add('def' if t in FUNC_TYPES else 'class')
            return
        if t is ast.Lambda:
            return
        if t in COMP_NAMES:
            for c in ast.iter_child_nodes(n):
                walk(c, True)
            return
        if t is ast.NamedExpr:
            if same(n.target.id):
                kinds.add('walrus')
            walk(n.value, in_comp)
            return
        if not in_comp:
            if t is ast.Assign:
                for x in n.targets:
                    stores(x, 'assign')
            elif t is ast.AugAssign:
                stores(n.target, 'augassign')
            elif t is ast.AnnAssign:
                if type(n.target) is ast.Name:
                    stores(n.target, 'annassign' if n.value is not None else 'annassign-without-value')
            elif t in (ast.For, ast.AsyncFor):
                stores(n.target, 'for')
            elif t in (ast.With, ast.AsyncWith):
                for it in n.items:
                    if it.optional_vars is not None:
                        stores(it.optional_vars, 'with')
            elif t is ast.Delete:
                for x in n.targets:
                    stores(x, 'del')
            elif t is ast.Import or t is ast.ImportFrom:
                for al in n.names:
                    if al.name != '*' and same(al.asname or al.name.partition('.')[0]):
                        kinds.add('import')
            elif t is ast.ExceptHandler:
                if n.name and same(n.name):
                    kinds.add('except')
            elif t in (ast.MatchAs, ast.MatchStar):
                if n.name and same(n.name):
                    kinds.add('match-capture')
            elif t is ast.MatchMapping:
                if n.rest and same(n.rest):
                    kinds.add('match-capture')
        for c in ast.iter_child_nodes(n):
            walk(c, in_comp)
    for st in body:
        walk(st, False)
    return kinds or {'unknown'}


def primary_kind(kinds):
    for k in KIND_PRIORITY:
        if k in kinds:
            return k
    return sorted(kinds)[0]


def owner_kind(o, read_sc):
    if o is MODULE or o is BUILTIN:
        return o
    if o is None:
        return 'unmapped'
    rs = read_sc.noncomp()
    if o is rs:
        return o.kind + '-self'
    s = rs.parent
    while s is not None:
        if s is o:
            return o.kind + '-enclosing'
        s = s.parent
    return o.kind + '-unrelated'


def chain_to(sc, stop):
    """non-comprehension scopes from the read's scope outwards, up to but excluding `stop` (None: all)"""
    out = []
    s = sc
    while s is not None and s is not stop:
        if s.kind != 'comp':
            out.append(s)
        s = s.parent
    return out


def nonlocal_label(o, m):
    """o declares m nonlocal and supp still treats (a binding of) m as o's own"""
    if 'del' in binding_kinds(o, m):
        return 'del-of-nonlocal-declared-name-makes-it-local-to-declaring-scope'
    return 'nonlocal-rebinding-treated-as-local' if o.kind != 'class' else 'nonlocal-rebinding-in-class-body-treated-as-class-local'


KEY_COMP_TARGET = 'comprehension-target-visible-outside-comprehension'
KEY_CLASS_GLOBAL = 'class-global-declaration-applied-inside-class-level-comprehension'


def comp_targets_of(S):
    """mangled iteration variables of the comprehensions that belong to non-comprehension scope S"""
    out = set()
    todo = [c for c in S.children if c.kind == 'comp']
    while todo:
        c = todo.pop()
        out |= c.targets
        todo.extend(x for x in c.children if x.kind == 'comp')
    return out


def comp_target_only(S, m):
    """S has identifier m as a comprehension iteration variable and binds it in no other way"""
    return isinstance(S, Sc) and S.kind != 'comp' and m in comp_targets_of(S) and binding_kinds(S, m) == {'unknown'}


KEY_COMP_EARLY = 'comprehension-target-read-before-bound-resolves-outward'
KEY_COMP_NESTED = 'comprehension-target-read-in-nested-scope-resolves-outward'


def inside(sc, anc):
    while sc is not None:
        if sc is anc:
            return True
        sc = sc.parent
    return False


def owning_comp(sc, m):
    """nearest comprehension lexically containing the read that has m as iteration variable"""
    s = sc
    while s is not None:
        if s.kind == 'comp' and m in s.targets:
            return s
        s = s.parent
    return None


def _contains(node, pos):
    return (node.lineno, node.col_offset) <= pos and pos < (node.end_lineno, node.end_col_offset)


def read_before_bound(b, comp, pos, m):
    """the read sits in the iterable of generator i (i >= 1) or in a condition of generator i, and every generator
    that binds m comes at or after i (iterable) / after i (condition): evaluated before m is bound"""
    gens = comp.node.generators
    first = None
    for j, g in enumerate(gens):
        for n in ast.walk(g.target):
            if type(n) is ast.Name and type(n.ctx) is ast.Store and mangle(comp.private, n.id) == m:
                first = j if first is None else first
    if first is None:
        return False
    for i, g in enumerate(gens):
        if i and _contains(g.iter, pos):
            return first >= i
        for c in g.ifs:
            if _contains(c, pos):
                return first > i
        if _contains(g.target, pos):
            return first >= i
    return False


def classify(b, sc, raw, m, exp, ekind, alt, o, node_pos=(0, 0)):
    """mechanism label from the syntactic features of the failing read."""
    rs = sc.noncomp()
    decl = getattr(alt, 'declared_at', None)
    alt_comp = b.comp_target_pos.get(tuple(decl)) if isinstance(decl, (tuple, list)) and len(decl) == 2 else None
    alt_is_comp_target = alt_comp is not None and mangle(alt_comp.private, getattr(alt, 'name', '')) in alt_comp.targets
    o_is_scope = isinstance(o, Sc)
    via_comp = ekind in ('comp-target-inlined', 'comp-target-block', 'free-comp-target')
    suffix = '' if m == raw else '(private-name)'
    if o_is_scope and o.kind == 'class' and o is not rs:
        # whatever the compiler's owner is, a class body other than the one the read is in never qualifies
        sym = o.lookup(m)
        if sym is not None and sym.is_nonlocal():
            return nonlocal_label(o, m) + suffix
        if alt_is_comp_target and alt_comp.noncomp() is o:
            return 'class-level-comprehension-target-visible-in-nested-scope' + suffix
        return 'class-binding-visible-in-nested-scope' + suffix
    # family A: supp files comprehension variables under the enclosing scope's locals, so a scope that has the
    # identifier ONLY as a comprehension variable shows it after/outside the comprehension, to nested scopes,
    # and is taken for the owner by free-variable / nonlocal owner lookup
    if o_is_scope and (o is rs or o.kind != 'class'):
        if comp_target_only(o, m):
            return KEY_COMP_TARGET + suffix
        if alt_is_comp_target and alt_comp.noncomp() is o and not inside(sc, alt_comp):
            # the alternative IS a comprehension variable of o and the read is outside that comprehension
            # (whatever global/nonlocal declaration o has for the identifier)
            return KEY_COMP_TARGET + suffix
    if exp is not GLOBAL_OWNERS and not o_is_scope:
        # family B: the compiler does not apply a class body's global declaration to the comprehensions
        # (function-like scopes) nested in that body, supp does
        e = next(iter(exp))
        if sc.kind == 'comp' and rs.kind == 'class' and rs in chain_to(sc, e):
            sym = rs.lookup(m)
            if sym is not None and sym.is_declared_global():
                return KEY_CLASS_GLOBAL + suffix
    if exp is not GLOBAL_OWNERS:
        e = next(iter(exp))
        nearer = chain_to(sc, e)                     # scopes between the read and the compiler's owner
        if o_is_scope and o in nearer:
            # supp stopped at a scope the compiler looks through
            sym = o.lookup(m)
            if sym is not None and sym.is_nonlocal():
                return nonlocal_label(o, m) + suffix
            if alt_is_comp_target and alt_comp.noncomp() is o:
                if o.kind == 'class' and o is not rs:
                    return 'class-level-comprehension-target-visible-in-nested-scope' + suffix
                return KEY_COMP_TARGET + suffix
            if o.kind == 'class' and (o is not rs or sc.kind == 'comp'):
                return 'class-binding-visible-in-nested-scope' + suffix
            return 'wrong-owner:stopped-at-nearer-%s,expected-%s(%s)%s' % (owner_kind(o, sc), e.kind, ekind, suffix)
        # supp looked past the compiler's owner (or somewhere unrelated): it has no binding of the name there
        if via_comp:
            comp = owning_comp(sc, m)
            if comp is not None:
                if ekind == 'free-comp-target':
                    # read in a lambda/def/generator nested in the comprehension: supp resolves nested scopes
                    # against the END of the enclosing scope, where 'before the comprehension' and the
                    # comprehension's regions are joined
                    return KEY_COMP_NESTED + suffix
                if read_before_bound(b, comp, node_pos, m):
                    return KEY_COMP_EARLY + suffix
            return 'comprehension-target-of-%s-scope-not-seen-from-%s,got-%s%s' % (
                e.kind, 'nested-scope' if rs is not e else 'comprehension', owner_kind(o, sc), suffix)
        if e.kind in ('function', 'lambda'):
            pk = primary_kind(binding_kinds(e, m))
            if pk == 'param-posonly':
                return ('posonly-param-unbound' if e.kind == 'function' else 'lambda-posonly-param-unbound') + suffix
            return 'function-local-resolved-outside:bound-by-%s%s%s' % (
                pk, '-of-lambda' if e.kind == 'lambda' and pk.startswith('param') else '', suffix)
        return 'wrong-owner:expected-%s(%s),got-%s%s' % (owner_kind(e, sc), ekind, owner_kind(o, sc), suffix)
    if o_is_scope:
        sym = o.lookup(m)
        if sym is not None and sym.is_declared_global():
            return 'global-declared-binding-owned-by-declaring-scope' + suffix
        if sym is not None and sym.is_nonlocal():
            return nonlocal_label(o, m) + suffix
        if alt_is_comp_target and alt_comp.noncomp() is o:
            if o.kind == 'class' and o is not rs:
                return 'class-level-comprehension-target-visible-in-nested-scope' + suffix
            return KEY_COMP_TARGET + suffix
        for s in chain_to(sc, o):
            if s.kind != 'module':
                sym = s.lookup(m)
                if sym is not None and sym.is_declared_global():
                    return 'global-declaration-ignored-lookup-continues-in-enclosing-function' + suffix
        if o.kind == 'class' and (o is not rs or sc.kind == 'comp'):
            return 'class-binding-visible-in-nested-scope' + suffix
    if m != raw:
        return 'private-name-mangling-ignored'
    return 'wrong-owner:expected-global(%s),got-%s' % (ekind, owner_kind(o, sc))


# --------------------------------------------------------------------------------------
# the monitor proper

def analyse(text, filename, root, part, origin, case_extra=None):
    """compare supp with the compiler for one module text.  Returns per-text stats dict or None if skipped."""
    from supp.util import Source
    from supp.nast import extract_scope
    from supp.project import Project
    from supp import name as N, scope as S
    install()
    part.count('texts')
    for zero in ('subclaim1_violations', 'subclaim2_violations', 'violating_alternatives',
                 'reads_skipped_oracle:load_instruction_disagrees_with_symtable_view', 'texts_unmatched'):
        part.count(zero, 0)
    try:
        top_block = symtable.symtable(text, filename, 'exec')
        with warnings.catch_warnings():
            warnings.simplefilter('ignore')
            loads = bytecode_loads(compile(text, filename, 'exec', dont_inherit=True))
    except (SyntaxError, ValueError, RecursionError, MemoryError) as e:
        part.count('texts_skipped_compiler_rejects')
        return None
    try:
        scope = extract_scope(Source(text, filename), Project([root]))
        tree = scope.source.tree
    except Exception as e:
        # totality is C08's claim
        part.count('texts_skipped_supp_extract_raised')
        part.hist('supp_extract_exception', type(e).__name__)
        return None
    try:
        b = Builder(tree)
    except RecursionError:
        part.count('texts_skipped_recursion')
        return None
    if b.pep695:
        part.count('texts_skipped_pep695_type_params')
        return None
    try:
        nscopes = match_tree(b.top, top_block, part)
    except Unmatched as e:
        part.count('texts_unmatched')
        part.hist('unmatched_texts', '%s: %s' % (os.path.basename(filename) if origin == 'file' else 'generated', str(e)[:120]))
        return None
    part.count('texts_matched')
    part.count('scopes_matched', nscopes)
    part.count('reads_skipped_annotation_under_future_import', b.skipped_future_ann)

    by_node = {}
    todo = [b.top]
    while todo:
        s = todo.pop()
        by_node[id(s.node)] = s
        todo.extend(s.children)
        if s.kind == 'comp':
            part.hist('comprehension_blocks', '%s:%s' % (s.bname, 'inlined' if s.inlined else 'own-block'))
    routed = scope.__dict__.get('_vf_routed', {})
    part.count('supp_bindings_routed_to_module_by_global_decl', len(routed))

    def owner_of(alt):
        if isinstance(alt, N.RuntimeName):
            return BUILTIN
        if id(alt) in routed:
            return MODULE
        sc = getattr(alt, 'scope', None)
        if sc is None:
            return None
        if sc is scope:
            return MODULE
        if isinstance(sc, S.FuncScope):
            return by_node.get(id(sc.node))
        if isinstance(sc, S.ClassScope):
            part.count('supp_class_scopes_mapped_via_wrapper')
            return by_node.get(id(getattr(sc, '_vf_node', None)))
        return None

    stats = {'compared': 0, 'nonmodule': 0, 'shadowed': 0, 'violations': 0}
    seen_mech = {}
    for node, sc, in_ann in b.reads:
        part.count('reads')
        raw = node.id
        if raw == '__class__':
            part.count('reads_skipped___class__')
            continue
        flow = getattr(node, 'flow', None)
        if flow is None:
            part.count('reads_skipped_no_flow(C01)')
            continue
        try:
            entry = flow.names_at((node.lineno, node.col_offset)).get(raw)
        except Exception as e:
            part.count('reads_skipped_names_at_raised(C08)')
            continue
        if entry is None:
            part.count('reads_skipped_no_entry(C01)')
            continue
        if isinstance(entry, N.MultiName):
            alts = [a for a in entry.alt_names if not isinstance(a, N.UndefinedName)]
            part.count('reads_with_multiname')
        elif isinstance(entry, N.UndefinedName):
            alts = []
        else:
            alts = [entry]
        if not alts:
            part.count('reads_skipped_only_undefined')
            continue
        try:
            exp, ekind = expected_owner(sc, raw)
        except Skip as e:
            part.count('reads_skipped_oracle:' + e.reason)
            continue
        m = mangle(sc.private, raw)
        rs = sc.noncomp()
        cats = loads.get((node.lineno, node.col_offset, node.end_lineno, node.end_col_offset, m))
        if cats is None:
            part.count('oracle_selfcheck_no_load_instruction_at_read(unchecked)')
        elif cats & ALLOWED_CATEGORIES[ekind]:
            part.count('oracle_selfcheck_load_instruction_agrees')
        else:
            part.count('reads_skipped_oracle:load_instruction_disagrees_with_symtable_view')
            part.hist('oracle_selfcheck_disagreements', '%s vs %s in %s' % (ekind, '+'.join(sorted(cats)), sc.kind))
            continue
        part.count('reads_compared')
        part.count('reads_compared_in_real_files' if origin == 'file' else 'reads_compared_in_generated_modules')
        part.count('alternatives_compared', len(alts))
        stats['compared'] += 1
        where = sc.kind if sc.kind != 'comp' else ('comp-inlined' if sc.inlined else 'comp-block') + '-in-' + rs.kind
        if exp is not GLOBAL_OWNERS:
            stats['nonmodule'] += 1
        # how many scopes of the lexical chain bind the identifier (shadowing)
        nb = 0
        for s in chain_to(sc, None):
            sym = s.lookup(m)
            if sym is not None and (sym.is_assigned() or sym.is_parameter() or sym.is_imported() or sym.is_namespace()) \
                    and not (s.kind != 'module' and sym.is_declared_global()) and not sym.is_nonlocal():
                nb += 1
        if nb >= 2 and sc.depth >= 2:
            stats['shadowed'] += 1
        part.hist('binding_scopes_on_lexical_chain', min(nb, 4))
        part.hist('scope_depth_of_read', min(sc.depth, 7))

        # sub-claim 1: a class on the chain (not the read's own scope) binds the name
        class_binders = []
        for s in chain_to(sc, None)[1:] if sc.kind != 'comp' or rs.kind != 'class' else chain_to(sc, None):
            if s.kind == 'class':
                if s is rs and sc.kind != 'comp':
                    continue
                sym = s.lookup(m)
                if sym is not None and sym.is_local() and m in s.mentions:
                    class_binders.append(s)
        if class_binders:
            part.count('subclaim1_reads_in_nested_scope_of_name_bound_by_enclosing_class_body')
        # sub-claim 2: the name is local to the function the read is in
        local_here = exp is not GLOBAL_OWNERS and next(iter(exp)) is rs and rs.kind in ('function', 'lambda') \
            and ekind in ('local', 'local-param')
        if local_here:
            part.count('subclaim2_reads_of_function_local_names')

        okinds = set()
        for alt in alts:
            o = owner_of(alt)
            ok = owner_kind(o, sc)
            okinds.add(ok)
            if o is None:
                part.count('alternatives_skipped_owner_unmapped')
                continue
            if o in exp:
                continue
            mech = classify(b, sc, raw, m, exp, ekind, alt, o, (node.lineno, node.col_offset))
            if class_binders and isinstance(o, Sc) and o in class_binders:
                part.count('subclaim1_violations')
            if local_here:
                part.count('subclaim2_violations')
            part.count('violating_alternatives')
            part.hist('violation_mechanisms', mech)
            if origin == 'file':
                part.hist('violation_mechanisms_in_real_files', mech)
                if seen_mech.get(mech, 0) == 0:
                    part.hist('real_files_by_mechanism', '%s: %s' % (mech, os.path.relpath(filename, root)))
            stats['violations'] += 1
            k = seen_mech.get(mech, 0)
            seen_mech[mech] = k + 1
            if k >= PER_FILE_MECH_CAP:
                part.count('violations_not_listed_over_per_text_cap')
                continue
            if exp is GLOBAL_OWNERS:
                want = 'the module or builtins (%s)' % ekind
            else:
                want = '%s (%s)' % (next(iter(exp)).label(), ekind)
            got = o if not isinstance(o, Sc) else o.label()
            what = '%s:%d:%d read of %r in %s: compiler resolves it to %s, supp alternative %r belongs to %s' % (
                os.path.basename(filename) if origin == 'file' else filename, node.lineno, node.col_offset, raw,
                sc.label(), want, alt, got)
            case = {'origin': origin, 'filename': filename, 'line': node.lineno, 'col': node.col_offset, 'name': raw,
                    'expected': want, 'got': str(got), 'mech': mech,
                    'sha256': hashlib.sha256(text.encode('utf-8', 'replace')).hexdigest()}
            if origin != 'file' or len(text) <= MAX_TEXT_IN_CASE:
                case['text'] = text
            else:
                case['context'] = context_lines(text, node.lineno, alt)
            if case_extra:
                case.update(case_extra)
            part.violation(mech, what, case)
        part.hist('cells(read-scope|compiler-says|supp-owners)', '%s|%s|%s' % (where, ekind, '+'.join(sorted(okinds))))
        part.hist('compiler_says', ekind)
    return stats


def context_lines(text, line, alt):
    lines = text.splitlines()
    want = {line}
    d = getattr(alt, 'declared_at', None)
    if isinstance(d, (tuple, list)) and d and isinstance(d[0], int):
        want.add(d[0])
    out = {}
    for l in want:
        for i in range(max(1, l - 3), min(len(lines), l + 2) + 1):
            out[i] = lines[i - 1]
    return ['%d: %s' % (i, out[i]) for i in sorted(out)]


# --------------------------------------------------------------------------------------
# workers

def work_files(arg):
    sys.setrecursionlimit(max(sys.getrecursionlimit(), 6000))
    part = core.Part()
    for path in arg['paths']:
        text = corpus.read_text(path)
        if text is None:
            part.count('files_skipped_not_parseable')
            continue
        root = arg['roots'].get(path) or os.path.dirname(path)
        st = analyse(text, path, root, part, 'file')
        part.hist('file_origin', 'repo' if path.startswith(core.REPO + os.sep) else 'stdlib')
        if st is None:
            part.case(path, nontrivial=False)
        else:
            part.case(path, nontrivial=st['nonmodule'] > 0)
            if st['compared'] and len(part.samples) < 2:
                part.sample({'file': path, 'reads_compared': st['compared'], 'reads_with_non_module_owner': st['nonmodule'],
                             'violating_alternatives': st['violations']})
    return part.dump()


def work_gen(arg):
    import random
    from vf import gen_scoping
    sys.setrecursionlimit(max(sys.getrecursionlimit(), 6000))
    part = core.Part()
    seed, start, count = arg['seed'], arg['start'], arg['count']
    root = tempfile.mkdtemp(prefix='vf-')
    try:
        gen_scoping.write_support(root)
        for i in range(start, start + count):
            rng = random.Random('%s:C05:gen:%d' % (seed, i))
            text, info = gen_scoping.generate(rng)
            part.count('generated')
            part.count('generator_discarded_attempts', info['discarded'])
            for k, v in info['features'].items():
                part.hist('generated_constructs', k, v)
            part.hist('generated_max_scope_nesting', info['max_depth'])
            fn = os.path.join(root, 'gen_%s_%d.py' % (seed, i))
            st = analyse(text, fn, root, part, 'gen', {'gen': [seed, i]})
            if st is None:
                part.case(('gen', seed, i), nontrivial=False)
                continue
            part.case(('gen', seed, i), nontrivial=st['shadowed'] > 0)
            if st['shadowed'] and len(part.samples) < 1 and len(text) < 1500:
                part.sample({'generated': text, 'reads_compared': st['compared'], 'shadowed_reads': st['shadowed'],
                             'violating_alternatives': st['violations']})
    finally:
        shutil.rmtree(root, ignore_errors=True)
    return part.dump()


def dispatch(arg):
    return work_files(arg) if arg['kind'] == 'files' else work_gen(arg)


def run_witnesses(run):
    """re-analyse the committed witness inputs of the known mechanisms first (witnesses/C05/<key>.py)"""
    wdir = os.path.join(core.VERIF, 'witnesses', 'C05')
    if not os.path.isdir(wdir):
        return
    for fn in sorted(os.listdir(wdir)):
        if not fn.endswith('.py'):
            continue
        key = fn[:-3]
        path = os.path.join(wdir, fn)
        with open(path) as f:
            text = f.read()
        part = core.Part()
        analyse(text, path, wdir, part, 'witness')
        d = part.dump()
        mechs = sorted(set(v['mech'] for v in d['violations']))
        run.count('witnesses_run')
        run.extra.setdefault('witnesses', {})[key] = {'mechanisms_observed': mechs, 'reproduces': key in mechs}
        if key not in mechs:
            run.notes.append('witness %s: finding no longer reproduces (observed: %s)' % (key, mechs or 'no violation'))
        run.merge(d)


def main(run):
    run_witnesses(run)
    files = corpus.select(run, run.pick(120, None))
    std_root = corpus.stdlib_root()
    roots = {}
    for f in files:
        roots[f] = core.REPO if f.startswith(core.REPO + os.sep) else std_root
    # balance: big files first, few files per job
    sized = sorted(files, key=lambda f: -os.path.getsize(f))
    jobs = []
    per = run.pick(4, 6)
    for ch in core.chunks(sized, per):
        jobs.append({'kind': 'files', 'paths': ch, 'roots': {p: roots[p] for p in ch}})
    ngen = run.pick(800, 16000)
    per_gen = run.pick(40, 100)
    for s in range(0, ngen, per_gen):
        jobs.append({'kind': 'gen', 'seed': run.seed, 'start': s, 'count': min(per_gen, ngen - s)})
    core.run_parts(run, 'vf.props.c05:dispatch', jobs, timeout=run.pick(600, 1800))
    # the replay file keeps the first 200 violations: interleave the mechanisms so that each is represented,
    # real-file instances first
    seen = {}
    keyed = []
    for i, v in enumerate(run.violations):
        k = seen.get(v['mech'], 0)
        seen[v['mech']] = k + 1
        keyed.append((0 if v['case'].get('origin') == 'file' else 1, k, i, v))
    ranks = {}
    out = []
    for o, k, i, v in sorted(keyed, key=lambda t: (t[0], t[1], t[2])):
        r = ranks.get(v['mech'], 0)
        ranks[v['mech']] = r + 1
        out.append((r, len(out), v))
    run.violations[:] = [v for r, j, v in sorted(out, key=lambda t: (t[0], t[1]))]
    run.extra['distinct_cells_covered'] = {
        'cells(read-scope|compiler-says|supp-owners)': len(run.hists.get('cells(read-scope|compiler-says|supp-owners)', {})),
        'note': 'the histogram below keeps the 60 most frequent cells only'}
    run.extra['workload'] = {
        'real_files': len(files),
        'generated_modules': ngen,
        'oracle': 'symtable.symtable(text, filename, "exec") of the running CPython %s' % sys.version.split()[0],
    }
    return run.finish(
        rule='case = one module text (real file or generated module); a real file is non-trivial when at least one compared read '
             'has a non-module owner according to the compiler (function-local, closure or comprehension variable); a generated '
             'module is non-trivial when at least one compared read sits at scope depth >= 2 and its identifier is bound by >= 2 '
             'scopes of its lexical chain (real shadowing)',
        require=('reads_compared', 'reads_compared_in_real_files', 'reads_compared_in_generated_modules', 'alternatives_compared', 'texts_matched', 'subclaim1_reads_in_nested_scope_of_name_bound_by_enclosing_class_body',
                 'subclaim2_reads_of_function_local_names', 'supp_class_scopes_mapped_via_wrapper',
                 'oracle_selfcheck_parameters_equal', 'generated'),
        assumptions=[
            'oracle = CPython\'s own symbol table; the AST<->block matching is self-checked per scope (parameter lists, comprehension '
            'targets) and a text that does not match is skipped (texts_unmatched), never guessed',
            'comprehension iteration variables count as bindings of the nearest enclosing non-comprehension scope (property text); '
            'inlined comprehensions (PEP 709) have no block, their variables are taken from the AST targets, and the same rule is '
            'verified against the symtable for every comprehension that does have a block',
            'reads directly in a class body are compared only for names the class does not bind; reads of __class__, reads in annotations '
            'under "from __future__ import annotations", reads supp gives no entry/no flow for (C01) are counted and skipped',
            'owner of a supp alternative = Name.scope, except bindings observed being routed through SourceScope.add_global (module) and '
            'RuntimeName (builtins)',
            'modules using PEP 695 type parameters are outside the matched domain (counted)'],
        exhaustive=False)


def replay(run, path):
    with open(path) as f:
        data = json.load(f)
    part = core.Part()
    root = tempfile.mkdtemp(prefix='vf-')
    try:
        from vf import gen_scoping
        gen_scoping.write_support(root)
        done = set()
        for v in data['violations']:
            c = v['case']
            text = c.get('text')
            fn = c['filename']
            if text is None:
                text = corpus.read_text(fn)
                if text is None or hashlib.sha256(text.encode('utf-8', 'replace')).hexdigest() != c.get('sha256'):
                    print('replay: %s is missing or differs from the recorded text' % fn)
                    continue
            key = hashlib.sha256(text.encode('utf-8', 'replace')).hexdigest()
            if key in done:
                continue
            done.add(key)
            if c['origin'] == 'gen':
                fn = os.path.join(root, os.path.basename(fn))
                r = root
            else:
                r = core.REPO if fn.startswith(core.REPO + os.sep) else corpus.stdlib_root()
            part.case(key, nontrivial=True)
            analyse(text, fn, r, part, c['origin'])
    finally:
        shutil.rmtree(root, ignore_errors=True)
    run.merge(part.dump())
    for v in run.violations:
        print('REPLAYED', v['mech'], v['what'][:400])
    print('replayed %d text(s): %d violating alternative(s)' % (len(done), len(run.violations)))
    return 1 if run.violations else 0
