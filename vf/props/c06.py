"""C06 - attribute completion and go-to-definition follow Python's lookup order.

Monitor: for every generated project (vf/gen_class.py) a child CPython imports the very same
files, evaluates each query expression E and reports the MRO, vars() of every class on it and
the instance __dict__ after every method of every MRO class was called with dummy arguments.
The real supp.assistant.assist / location are run on ``E.|`` / ``E.at|tr`` and compared:

 (a) proposals must contain every source-defined name Python finds on the object,
 (b) the landing site(s) of go-to-definition must be the definition Python's lookup selects
     (file + line; columns are C11's business).

Exceptions escaping assist/location are C08's business: counted and skipped.
"""
import ast
import json
import os
import random
import re
import shutil
import subprocess
import tempfile

from vf import core, gen_class

ORACLE_SRC = r'''
import sys, json, os, importlib, inspect, types

def call(f, first, depth=0):
    try:
        sig = inspect.signature(f)
    except Exception:
        return
    args, kwargs = [], {}
    for p in list(sig.parameters.values())[1:]:
        if p.kind in (p.POSITIONAL_ONLY, p.POSITIONAL_OR_KEYWORD) and p.default is p.empty:
            args.append(None)
        elif p.kind == p.KEYWORD_ONLY and p.default is p.empty:
            kwargs[p.name] = None
    try:
        r = f(first, *args, **kwargs)
        if inspect.iscoroutine(r):
            # drive the coroutine to completion (the generated awaitables never suspend)
            co, r = r, None
            try:
                for _ in range(1000):
                    co.send(None)
                co.close()
            except StopIteration as e:
                r = e.value
        if isinstance(r, types.FunctionType) and depth == 0:
            # a closure handed back to the caller (callback): the driver calls it once
            call(r, None, 1)
    except Exception:
        pass

def srcfile(modname, root):
    mod = sys.modules.get(modname)
    f = getattr(mod, '__file__', None)
    if f and os.path.abspath(f).startswith(root + os.sep):
        return os.path.relpath(os.path.abspath(f), root)
    return None

def member_kind(v):
    if isinstance(v, types.FunctionType): return 'function'
    if isinstance(v, property): return 'property' if v.fset is None else 'property+setter'
    if isinstance(v, staticmethod): return 'staticmethod'
    if isinstance(v, classmethod): return 'classmethod'
    return type(v).__name__

def describe_class(K, root):
    f = srcfile(K.__module__, root)
    d = {'name': K.__name__, 'qualname': K.__qualname__, 'module': K.__module__, 'file': f, 'source': f is not None,
         'vars': sorted(vars(K))}
    if f is not None:
        d['kinds'] = {k: member_kind(v) for k, v in vars(K).items()}
        d['data_desc'] = sorted(k for k, v in vars(K).items()
                                if hasattr(type(v), '__set__') or hasattr(type(v), '__delete__'))
    return d

def exercise(obj, mro, root):
    for K in mro:
        if srcfile(K.__module__, root) is None:
            continue
        for name, v in list(vars(K).items()):
            if isinstance(v, types.FunctionType):
                call(v, obj)
            elif isinstance(v, classmethod):
                call(v.__func__, type(obj))
            elif isinstance(v, staticmethod):
                pass
            elif hasattr(type(v), '__get__'):
                try:
                    type(v).__get__(v, obj, type(obj))
                except Exception:
                    pass
                if isinstance(v, property) and v.fset is not None:
                    call(v.fset, obj)

def describe(obj, root):
    if isinstance(obj, types.ModuleType):
        f = srcfile(obj.__name__, root)
        out = {'type': 'module', 'name': obj.__name__, 'file': f, 'source': f is not None, 'vars': {}}
        for k, v in vars(obj).items():
            info = {'kind': 'other'}
            if isinstance(v, types.ModuleType):
                info = {'kind': 'module', 'name': v.__name__, 'submodule': v.__name__ == obj.__name__ + '.' + k,
                        'file': srcfile(v.__name__, root)}
            elif isinstance(v, type):
                info = {'kind': 'class', 'name': v.__qualname__, 'file': srcfile(v.__module__, root)}
            elif isinstance(v, types.FunctionType):
                info = {'kind': 'function', 'name': v.__qualname__, 'file': srcfile(v.__module__, root)}
            out['vars'][k] = info
        return out
    if isinstance(obj, type):
        return {'type': 'class', 'mro': [describe_class(K, root) for K in obj.__mro__], 'inst': None}
    mro = type(obj).__mro__
    exercise(obj, mro, root)
    inst = getattr(obj, '__dict__', None)
    return {'type': 'instance', 'mro': [describe_class(K, root) for K in mro],
            'inst': sorted(inst) if isinstance(inst, dict) else []}

def main():
    req = json.load(sys.stdin)
    base = set(sys.modules)
    out = []
    for pr in req['projects']:
        root = os.path.abspath(pr['root'])
        sys.path.insert(0, root)
        importlib.invalidate_caches()
        res = {}
        for q in pr['queries']:
            try:
                mod = importlib.import_module(q['module'])
                if q['kind'] == 'self':
                    obj = getattr(mod, q['cls'])()
                elif q['kind'] == 'cls':
                    obj = getattr(mod, q['cls'])
                else:
                    obj = eval(q['expr'], vars(mod))
                res[str(q['id'])] = describe(obj, root)
            except BaseException as e:
                res[str(q['id'])] = {'type': 'error', 'error': repr(e)[:300]}
        out.append(res)
        sys.path.remove(root)
        for k in set(sys.modules) - base:
            del sys.modules[k]
    json.dump(out, sys.stdout)

main()
'''

IMPLICIT = gen_class.IMPLICIT_CLASS_VARS
MAX_ATTRS_PER_QUERY = 8


# ---------------------------------------------------------------------------------------
# the oracle child

def run_oracle(tmp, projects):
    """projects: list of {'root', 'queries'} -> list of {qid: description} (or None on failure)."""
    script = os.path.join(tmp, 'vf_c06_oracle.py')
    if not os.path.exists(script):
        with open(script, 'w') as f:
            f.write(ORACLE_SRC)
    env = {k: v for k, v in os.environ.items() if k not in ('PYTHONPATH',)}
    env['PYTHONDONTWRITEBYTECODE'] = '1'
    req = {'projects': [{'root': p['root'], 'queries': [{k: q[k] for k in ('id', 'module', 'kind', 'expr', 'cls')}
                                                         for q in p['queries']]} for p in projects]}
    try:
        r = subprocess.run([core.PY, '-B', script], input=json.dumps(req).encode(), stdout=subprocess.PIPE,
                           stderr=subprocess.PIPE, env=env, cwd=tmp, timeout=300)
    except subprocess.TimeoutExpired:
        return None, 'oracle child timed out'
    if r.returncode != 0:
        return None, 'oracle child failed: %s' % r.stderr.decode('utf-8', 'replace')[-600:]
    return json.loads(r.stdout.decode()), None


def write_tree(root, files):
    for rel, text in files.items():
        path = os.path.join(root, rel)
        os.makedirs(os.path.dirname(path), exist_ok=True)
        with open(path, 'w') as f:
            f.write(text)


# ---------------------------------------------------------------------------------------
# the text side of the oracle: where are the bindings (CPython's own parser)

class Texts(object):
    """AST views of the project's files; the query file is taken from the text given to supp."""

    def __init__(self, files, override=None):
        self.files = dict(files)
        if override:
            self.files.update(override)
        self._trees = {}

    def tree(self, rel):
        t = self._trees.get(rel)
        if t is None:
            t = self._trees[rel] = ast.parse(self.files[rel])
        return t

    def _flat_top(self, stmts):
        """top-level statements, including those inside top-level if / try alternatives"""
        for st in stmts:
            yield st
            if isinstance(st, ast.If):
                for x in self._flat_top(st.body + st.orelse):
                    yield x
            elif isinstance(st, ast.Try):
                subs = st.body + st.orelse + st.finalbody
                for h in st.handlers:
                    subs = subs + h.body
                for x in self._flat_top(subs):
                    yield x

    def classdef(self, rel, name):
        found = [n for n in self._flat_top(self.tree(rel).body) if isinstance(n, ast.ClassDef) and n.name == name]
        return found[-1] if found else None

    @staticmethod
    def _bound_names(stmt):
        """[(name, line)] bound by one statement of a class/module body (no descent into blocks)."""
        out = []
        if isinstance(stmt, (ast.FunctionDef, ast.AsyncFunctionDef, ast.ClassDef)):
            out.append((stmt.name, stmt.lineno))
        elif isinstance(stmt, ast.Assign):
            for t in stmt.targets:
                for n in ast.walk(t):
                    if isinstance(n, ast.Name):
                        out.append((n.id, n.lineno))
        elif isinstance(stmt, ast.AnnAssign):
            if isinstance(stmt.target, ast.Name) and stmt.value is not None:
                out.append((stmt.target.id, stmt.lineno))
        elif isinstance(stmt, ast.Import):
            for a in stmt.names:
                out.append((a.asname or a.name.partition('.')[0], stmt.lineno))
        elif isinstance(stmt, ast.ImportFrom):
            for a in stmt.names:
                out.append((a.asname or a.name, stmt.lineno))       # '*' kept as the name '*'
        return out

    def class_bindings(self, rel, name):
        """{attr: [lines of its bindings in the class body, in order]}"""
        out = {}
        cd = self.classdef(rel, name)
        if cd is not None:
            for st in cd.body:
                for n, line in self._bound_names(st):
                    out.setdefault(n, []).append(line)
        return out

    def module_bindings(self, rel):
        out = {}
        for st in self.tree(rel).body:
            for n, line in self._bound_names(st):
                out.setdefault(n, []).append(line)
        return out

    def self_sites(self, rel, name, only_async=False, only_nested=False):
        """{attr: [lines]} of assignments ``<first param>.attr = ...`` in functions of the class body."""
        out = {}
        cd = self.classdef(rel, name)
        if cd is None:
            return out
        for st in cd.body:
            if only_async and not isinstance(st, ast.AsyncFunctionDef):
                continue
            if not isinstance(st, (ast.FunctionDef, ast.AsyncFunctionDef)) or not st.args.args:
                continue
            first = st.args.args[0].arg
            if only_nested:
                # statements of functions nested (at any depth) in the method, not of the method itself
                nodes = [x for f in ast.walk(st) if f is not st and isinstance(f, (ast.FunctionDef, ast.AsyncFunctionDef))
                         for x in ast.walk(f)]
            else:
                nodes = ast.walk(st)
            for n in nodes:
                targets = []
                if isinstance(n, ast.Assign):
                    targets = n.targets
                elif isinstance(n, ast.AnnAssign) and n.value is not None:
                    targets = [n.target]
                for t in targets:
                    for a in ast.walk(t):
                        if isinstance(a, ast.Attribute) and isinstance(a.value, ast.Name) and a.value.id == first:
                            out.setdefault(a.attr, []).append(a.lineno)
        return out

    def _star_target(self, rel, st):
        if st.level:
            base = rel.split('/')[:-1]
            base = base[:len(base) - (st.level - 1)]
        else:
            base = []
        parts = base + (st.module.split('.') if st.module else [])
        for cand in ('/'.join(parts) + '.py', '/'.join(parts + ['__init__.py'])):
            if cand in self.files:
                return cand
        return None

    def exports(self, rel, name, seen=None):
        """does the top level of file rel bind `name`, explicitly or through (transitive) star imports?"""
        seen = seen if seen is not None else set()
        if rel in seen:
            return False
        seen.add(rel)
        if name in self.module_bindings(rel):
            return True
        for st in self.tree(rel).body:
            if isinstance(st, ast.ImportFrom) and any(a.name == '*' for a in st.names):
                t = self._star_target(rel, st)
                if t and self.exports(t, name, seen):
                    return True
        return False

    def package_rebound_by_star(self, rel, expr):
        """True if E (or the statement defining its root name) goes through ``P.`` where file rel has a plain
        ``import P.M`` and a LATER ``from X import *`` whose module (transitively) exports the name P."""
        tree = self.tree(rel)
        rebound = set()
        for st in tree.body:
            if isinstance(st, ast.Import):
                for a in st.names:
                    if '.' in a.name and not a.asname:
                        pkg = a.name.partition('.')[0]
                        for st2 in tree.body:
                            if isinstance(st2, ast.ImportFrom) and st2.lineno > st.lineno and \
                                    any(x.name == '*' for x in st2.names):
                                t = self._star_target(rel, st2)
                                if t and self.exports(t, pkg):
                                    rebound.add(pkg)
        if not rebound:
            return False
        segment = expr
        root = re.match(r'[A-Za-z_]\w*', expr)
        root = root.group(0) if root else None
        for st in tree.body:
            if (isinstance(st, ast.FunctionDef) and st.name == root) or \
                    (isinstance(st, ast.Assign) and any(isinstance(t, ast.Name) and t.id == root for t in st.targets)):
                segment += '\n' + (ast.get_source_segment(self.files[rel], st) or '')
        return any(re.search(r'\b%s\.' % re.escape(pkg), segment) for pkg in rebound)

    def reentrant_shape(self, rel, name):
        """Does the class contain a shape whose analysis looks the instance table up while the assignments
        through self are still being collected: a property setter, or an assignment through a local alias of
        a self attribute / of the result of a self method (``r = self.root; r.x = 1``)?"""
        cd = self.classdef(rel, name)
        if cd is None:
            return False
        for st in cd.body:
            if not isinstance(st, (ast.FunctionDef, ast.AsyncFunctionDef)) or not st.args.args:
                continue
            if any(isinstance(d, ast.Attribute) and d.attr == 'setter' for d in st.decorator_list):
                return True
            first = st.args.args[0].arg
            aliases = set()
            for n in ast.walk(st):
                if isinstance(n, ast.Assign) and len(n.targets) == 1 and isinstance(n.targets[0], ast.Name):
                    v = n.value.func if isinstance(n.value, ast.Call) else n.value
                    if isinstance(v, ast.Attribute) and isinstance(v.value, ast.Name) and v.value.id == first:
                        aliases.add(n.targets[0].id)
            for n in ast.walk(st):
                if isinstance(n, ast.Attribute) and isinstance(n.ctx, ast.Store) and \
                        isinstance(n.value, ast.Name) and n.value.id in aliases:
                    return True
        return False

    def insert_in_async_method(self, rel, clsname, line):
        """is the statement that precedes insertion line `line` inside an ``async def`` of class clsname?"""
        cd = self.classdef(rel, clsname) if clsname else None
        for st in (cd.body if cd is not None else []):
            if isinstance(st, ast.AsyncFunctionDef) and st.lineno <= line - 1 <= (st.end_lineno or st.lineno):
                return True
        return False

    def def_line(self, rel, qualname):
        for n in self.tree(rel).body:
            if isinstance(n, (ast.FunctionDef, ast.ClassDef)) and n.name == qualname:
                return n.lineno
        return None


# ---------------------------------------------------------------------------------------
# supp side

def supp_assist(root, text, pos, filename):
    from supp import assistant
    from supp.project import Project
    return assistant.assist(Project([root]), text, pos, filename)


def supp_location(root, text, pos, filename):
    from supp import assistant
    from supp.project import Project
    return assistant.location(Project([root]), text, pos, filename)


def landing_sites(result, root):
    """final landing of go-to-definition: the last element of the chain, flattened -> [(relfile, line)]"""
    if not result:
        return [], []
    chain = []
    for r in result:
        group = r if isinstance(r, list) else [r]
        sites = []
        for it in group:
            f = it.get('file')
            loc = it.get('loc') or (None, None)
            if f and os.path.isabs(f) and os.path.abspath(f).startswith(root + os.sep):
                f = os.path.relpath(os.path.abspath(f), root)
            sites.append((f, loc[0]))
        chain.append(sites)
    return chain[-1], chain


# ---------------------------------------------------------------------------------------
# one project

PER_PART_PER_MECH = 12


def no_proposals_label(texts, q, kind):
    if not q['insert'] and texts.package_rebound_by_star(q['file'], q['expr']):
        # one mechanism whatever the query kind: `import P.M` made P.M visible, a later star import re-binds P
        return 'no-proposals:package-name-rebound-by-later-star-import'
    if q['insert'] and q['insert'].get('replace'):
        return 'no-proposals:%s:in-class-body-lambda' % kind
    if q['insert'] and texts.insert_in_async_method(q['file'], q.get('cls'), q['insert']['line']):
        return 'no-proposals:%s:in-async-method' % kind
    return 'no-proposals:%s:via=%s' % (kind, q['via'])


def viol(part, mech, what, case):
    """Record a violation; every instance is counted, at most PER_PART_PER_MECH full cases per mechanism
    and worker batch are kept (each case carries the whole file tree)."""
    mech = '-'.join(mech.split())          # stable labels without blanks
    part.hist('violation_instances(all)', mech)
    seen = part.__dict__.setdefault('_mech_seen', {})
    seen[mech] = seen.get(mech, 0) + 1
    if seen[mech] <= PER_PART_PER_MECH:
        part.violation(mech, what, case)

def group_of(desc, q):
    if q['kind'] == 'cls':
        return 'cls'
    return {'class': 'class', 'instance': 'instance', 'module': 'module'}[desc['type']]


def via_to(project, mro_src, idx):
    """import form through which MRO class idx is named as a base by a class earlier on the MRO."""
    meta = project.get('meta', {}).get('classes', {})
    target = mro_src[idx]['name']
    for k in mro_src[:idx]:
        v = meta.get(k['name'], {}).get('base_via', {}).get(target)
        if v:
            return v
        if target in meta.get(k['name'], {}).get('bases', []):
            return 'same-module'
    return 'unknown'


def check_query(part, project, root, q, desc, only_attr=None):
    kind = q['kind']
    part.count('queries')
    part.hist('query_kind', kind)
    if (q['insert'] or {}).get('replace'):
        part.count('self_queries_inside_class_body_lambdas')
        part.hist('class_body_lambda_forms', q['sub'].split('(')[1].split(')')[0])
    part.hist('reached_via', q['via'])

    def case(extra):
        c = {'files': project['files'], 'query': q, 'meta': project.get('meta')}
        c.update(extra)
        return c

    filename = os.path.join(root, q['file'])
    atext, apos = gen_class.query_text(project, q, None)

    # ---- proposals ---------------------------------------------------------------------
    try:
        prefix, proposals = supp_assist(root, atext, apos, filename)
    except Exception as e:
        part.count('supp_exceptions(C08, skipped)')
        part.hist('supp_exception_types', 'assist:%s:%s' % (kind, type(e).__name__))
        return False
    proposals = set(proposals)
    part.count('assist_calls')

    if kind == 'literal' or desc['type'] == 'instance' and not any(k['source'] for k in desc['mro']):
        # value of a builtin type: nothing source-defined to require; only "supp determines the value"
        lit = q['sub'] if kind == 'literal' else 'func-call ' + q['sub']
        part.hist('literal_kinds', lit)
        part.count('builtin_value_queries')
        if not proposals:
            # one label per builtin type, whether the literal is written at the cursor or returned by a function
            viol(part, 'no-proposals:literal-value:%s' % q['sub'].replace('returns literal ', ''),
                           'no proposals at all at `%s.|` (%s)' % (q['expr'], lit), case({'check': 'assist'}))
        else:
            part.count('builtin_value_determined')
        return False

    texts = Texts(project['files'])
    nontrivial = False

    if desc['type'] == 'module':
        return check_module(part, project, root, q, desc, proposals, texts, case, only_attr)

    mro = desc['mro']
    mro_src = [k for k in mro if k['source']]
    part.hist('mro_source_classes', len(mro_src))
    part.hist('mro_len', len(mro))
    group = group_of(desc, q)
    inst = set(desc['inst'] or [])

    # candidates per name
    cls_bind = {}      # class name -> {attr: [lines]}
    self_sites = {}    # attr -> set((file, line))
    for k in mro_src:
        cls_bind[k['name']] = texts.class_bindings(k['file'], k['name'])
        for a, lines in texts.self_sites(k['file'], k['name']).items():
            self_sites.setdefault(a, set()).update((k['file'], ln) for ln in lines)

    required = {}      # attr -> ('inst'|'class', mro index of the defining class or None)
    filtered_builtin = 0
    compat_files = (project.get('meta') or {}).get('compat_files', {})
    cmeta = (project.get('meta') or {}).get('classes', {})
    # is the queried class, or a base on its MRO, named through a module that binds it conditionally?
    through_cond = 'conditional-export' in q['via'] or any(
        'conditional-export' in v for k in mro_src for v in cmeta.get(k['name'], {}).get('base_via', {}).values())
    if through_cond:
        part.count('queries_through_conditional_export')
        for v in [q['via']] + [v for k in mro_src for v in cmeta.get(k['name'], {}).get('base_via', {}).values()]:
            if 'conditional-export' in v:
                part.hist('conditional_export_variants', v[v.index('('):v.index(')') + 1] + (' as base' if v != q['via'] else ' in E'))
    nested_only = set()  # instance attributes assigned only inside functions nested in methods
    def shape_suffix(n):
        """structural features of a lost instance attribute (labels stay apart per mechanism)"""
        out = ''
        if n in nested_only:
            out += '+assigned-only-in-nested-functions'
        elif n in async_only:
            out += '+assigned-only-in-async-methods'
        if through_cond:
            out += '+class-reached-through-conditional-export'
        if not out and any(texts.reentrant_shape(k['file'], k['name']) for k in mro_src):
            out = '+class-with-setter-or-alias-assignment'
        return out

    async_only = set()  # instance attributes all of whose `self.x =` sites are inside async def methods
    builtin_first = {}  # attr -> (builtin class selected by the MRO, source classes later on the MRO binding it)
    names = set()
    for k in mro_src:
        names.update(n for n in k['vars'] if n not in IMPLICIT or n in cls_bind[k['name']])
    names.update(inst)
    for n in sorted(names):
        first = next((i for i, k in enumerate(mro) if n in k['vars']), None)
        data_desc = first is not None and mro[first]['source'] and n in mro[first].get('data_desc', ())
        if desc['type'] == 'instance' and n in inst and not data_desc:
            if n in self_sites:
                required[n] = ('inst', None)
                asites = set((k['file'], ln) for k in mro_src
                             for ln in texts.self_sites(k['file'], k['name'], only_async=True).get(n, ()))
                nsites = set((k['file'], ln) for k in mro_src
                             for ln in texts.self_sites(k['file'], k['name'], only_nested=True).get(n, ()))
                if nsites:
                    part.count('required_instance_attrs_assigned_in_nested_functions')
                    if nsites == self_sites[n]:
                        part.count('required_instance_attrs_assigned_ONLY_in_nested_functions')
                        nested_only.add(n)
                if asites:
                    part.count('required_instance_attrs_assigned_in_async_methods')
                    if asites == self_sites[n]:
                        part.count('required_instance_attrs_assigned_ONLY_in_async_methods')
                        async_only.add(n)
            else:
                part.count('instance_attrs_without_source_site(filtered)')
            continue
        if first is None:
            continue
        if not mro[first]['source']:
            # Python's lookup selects a builtin class's attribute: nothing source-defined to propose, and
            # go-to-definition must not land in a source file (checked below for names that a source class
            # later on the MRO binds too)
            filtered_builtin += 1
            later = [k['name'] for k in mro_src if n in cls_bind[k['name']]]
            if later:
                builtin_first[n] = (mro[first]['name'], later)
            continue
        if n not in cls_bind[mro[first]['name']]:
            part.count('class_var_not_bound_in_body(filtered)')
            continue
        required[n] = ('class', first)
    if filtered_builtin:
        part.count('names_first_defined_by_builtin_base(filtered)', filtered_builtin)

    part.count('assist_comparisons', len(required))
    if required and not (proposals & set(required)):
        viol(part, no_proposals_label(texts, q, kind),
                       'none of the %d required names is proposed at `%s.|` (%s, %s); proposals: %s' % (
                           len(required), q['expr'], kind, q['sub'], sorted(proposals)[:8]),
                       case({'check': 'assist', 'required': sorted(required)}))
        return False
    missing = sorted(set(required) - proposals)
    for n in missing:
        what, first = required[n]
        if what == 'inst':
            own = any(s[0] == mro_src[0]['file'] and n in texts.self_sites(mro_src[0]['file'], mro_src[0]['name'])
                      for s in self_sites[n])
            where = 'instance-attr:own-method' if own else 'instance-attr:base-method'
            where += shape_suffix(n)
        else:
            i = mro_src.index(mro[first])
            where = 'own-class-attr' if i == 0 else 'base-class-attr:via=%s' % via_to(project, mro_src, i)
            where += ':' + mro[first]['kinds'].get(n, '?')
            if through_cond:
                where += '+class-reached-through-conditional-export'
        viol(part, 'missing:%s:%s' % (group, where),
                       '`%s.|` (%s) does not propose %r which Python finds (%s)' % (q['expr'], kind, n, where),
                       case({'check': 'assist', 'attr': n}))
    if not missing:
        part.count('assist_queries_complete')

    # ---- definitions -------------------------------------------------------------------
    def interest(n):
        definers = sum(1 for k in mro_src if n in cls_bind[k['name']])
        return -(definers + (1 if n in self_sites else 0)), n
    attrs = sorted(required, key=interest)
    if only_attr is not None:
        attrs = [a for a in attrs if a == only_attr]
    rng = random.Random('%s:%s' % (q['id'], q['expr']))
    if len(attrs) > MAX_ATTRS_PER_QUERY:
        attrs = attrs[:5] + rng.sample(attrs[5:], MAX_ATTRS_PER_QUERY - 5)

    bf = sorted(builtin_first)
    if only_attr is not None:
        bf = [a for a in bf if a == only_attr]
    for n in bf[:4]:
        ltext, lpos = gen_class.query_text(project, q, n)
        try:
            result = supp_location(root, ltext, lpos, filename)
        except Exception as e:
            part.count('supp_exceptions(C08, skipped)')
            part.hist('supp_exception_types', 'location(builtin-first):%s:%s' % (kind, type(e).__name__))
            continue
        part.count('location_calls')
        part.count('location_comparisons')
        part.count('builtin_first_location_checks')
        part.hist('location_expected', '%s:builtin-first' % group)
        part.hist('builtin_first_cells', '%s.%s before %s' % (builtin_first[n][0], n, 'source'))
        nontrivial = True
        _, chain = landing_sites(result, root)
        src_sites = sorted(set(s for g in chain for s in g if s[0] in project['files']))
        if src_sites:
            # is the selected builtin class written in a class statement, or only an ancestor of a listed builtin?
            listed = set()
            for k in mro_src:
                cd = texts.classdef(k['file'], k['name'])
                for b in (cd.bases if cd is not None else []):
                    listed.add(ast.unparse(b).rpartition('.')[2])
            how = 'listed-builtin-base' if builtin_first[n][0] in listed else 'ancestor-of-listed-builtin-base'
            viol(part, 'lands-on-source-although-builtin-first-on-mro:%s' % how,
                 '`%s.%s` (%s, %s): the MRO selects %s.%s (builtin, no source location; also bound later on the MRO in %s); '
                 'supp lands on %s' % (q['expr'], n, kind, q['sub'], builtin_first[n][0], n, builtin_first[n][1], src_sites),
                 case({'check': 'location', 'attr': n}))
        else:
            part.count('location_ok')

    for n in attrs:
        ltext, lpos = gen_class.query_text(project, q, n)
        lt = Texts(project['files'], {q['file']: ltext})     # lines as supp sees them in the query file
        binds = {k['name']: lt.class_bindings(k['file'], k['name']) for k in mro_src}
        ssites = {}
        for k in mro_src:
            for ln in lt.self_sites(k['file'], k['name']).get(n, ()):
                ssites[(k['file'], ln)] = k['name']
        # the query line itself is `E.attr` (a load), never an assignment: no correction needed
        try:
            result = supp_location(root, ltext, lpos, filename)
        except Exception as e:
            part.count('supp_exceptions(C08, skipped)')
            part.hist('supp_exception_types', 'location:%s:%s' % (kind, type(e).__name__))
            continue
        part.count('location_calls')
        got, chain = landing_sites(result, root)
        if len(chain) > 1:
            part.count('location_chains_longer_than_1')
        what, first = required[n]
        definers = [i for i, k in enumerate(mro_src) if n in binds[k['name']]]
        competing = len(definers) + (1 if ssites else 0)
        part.hist('competing_definitions', competing)
        if competing >= 2:
            nontrivial = True
        if what == 'inst':
            exp_desc = 'a `self.%s = ...` site in %s' % (n, sorted(set(ssites.values())))
            ok = bool(got) and all(s in ssites for s in got)
            expcat = 'self-assign'
            X = None
        else:
            X = mro[first]
            line = binds[X['name']][n][-1]
            exp_desc = '%s:%d (body of %s, first on the MRO to define it)' % (X['file'], line, X['name'])
            ok = bool(got) and all(s == (X['file'], line) for s in got)
            expcat = 'class-body'
            if desc['type'] == 'instance' and ssites and n in X.get('data_desc', ()):
                # The property text names two answers here: "an instance assignment if there is one" (a
                # `self.attr = ...` site exists in an MRO class) and "the definition Python's lookup selects"
                # (the data descriptor / property, which wins in CPython).  Both satisfy it as written.
                exp_desc += ' or a `self.%s = ...` site (data descriptor %s)' % (n, X['kinds'].get(n))
                if ok:
                    part.hist('descriptor_vs_self_assign_accepted', 'descriptor:%s' % X['kinds'].get(n))
                elif got and all(s in ssites for s in got):
                    ok = True
                    part.hist('descriptor_vs_self_assign_accepted', 'self-assign:%s' % X['kinds'].get(n))
        part.count('location_comparisons')
        part.hist('location_expected', '%s:%s' % (group, expcat))
        if ok:
            part.count('location_ok')
            continue
        # ---- classify the failure from the case itself
        mech = None
        if not got:
            mech = 'no-location:%s' % expcat
            mech += shape_suffix(n) if expcat == 'self-assign' else \
                ('+class-reached-through-conditional-export' if through_cond else '')
        else:
            cats = set()
            for s in got:
                if s in ssites:
                    cats.add('self-assign')
                    continue
                hit = None
                for i, k in enumerate(mro_src):
                    if s[0] == k['file'] and s[1] in binds[k['name']].get(n, ()):
                        hit = (i, k)
                        break
                if hit is None:
                    cats.add('other-alternative-of-conditional-export' if s[0] in compat_files else 'elsewhere')
                elif X is not None and hit[1]['name'] == X['name']:
                    cats.add('same-class-earlier-binding')
                elif X is not None:
                    xi = mro_src.index(X)
                    if hit[0] < xi:
                        cats.add('class-earlier-on-mro')
                    else:
                        # is the landed class an ancestor of the expected one?
                        anc = ancestors(project, X['name'])
                        cats.add('overridden-base-definition' if hit[1]['name'] in anc else 'sibling-base-later-on-mro')
                else:
                    cats.add('class-attr')
            cat = '+'.join(sorted(cats))
            if expcat == 'class-body' and cat == 'self-assign':
                if group in ('class', 'cls'):
                    cat = 'self-assign(object is a class)'
                else:
                    cat = 'self-assign(never executed)'
            mech = '%s->%s' % (expcat, cat)
            if n in nested_only:
                mech += '+assigned-only-in-nested-functions'
            elif n in async_only:
                mech += '+assigned-only-in-async-methods'
        viol(part, '%s:%s' % (group, mech),
                       '`%s.%s` (%s, %s): expected %s; supp lands on %s' % (q['expr'], n, kind, q['sub'], exp_desc, got or result),
                       case({'check': 'location', 'attr': n}))
    return nontrivial


def ancestors(project, name):
    meta = project.get('meta', {}).get('classes', {})
    out, todo = set(), [name]
    while todo:
        c = todo.pop()
        for b in meta.get(c, {}).get('bases', []):
            if b in meta and b not in out:
                out.add(b)
                todo.append(b)
    return out


def check_module(part, project, root, q, desc, proposals, texts, case, only_attr=None):
    if not desc['source']:
        part.count('module_not_source(filtered)')
        return False
    rel = desc['file']
    binds = texts.module_bindings(rel)
    star = binds.get('*', [])
    required = {}
    for n, info in desc['vars'].items():
        if n.startswith('__') and n.endswith('__'):
            continue
        if n in binds:
            required[n] = 'bound'
        elif info.get('submodule'):
            part.count('implicit_submodule_attrs(filtered)')
        elif star and not n.startswith('_'):
            required[n] = 'star'
        else:
            part.count('module_attr_without_binding(filtered)')
    part.count('assist_comparisons', len(required))
    if required and not (proposals & set(required)):
        viol(part, no_proposals_label(texts, q, 'module'),
                       'none of the %d module names is proposed at `%s.|` (%s); proposals: %s' % (
                           len(required), q['expr'], q['sub'], sorted(proposals)[:8]),
                       case({'check': 'assist', 'required': sorted(required)}))
        return False
    missing = sorted(set(required) - proposals)
    for n in missing:
        viol(part, 'missing:module:%s-name:%s' % (required[n], desc['vars'][n]['kind']),
                       '`%s.|` (module %s) does not propose %r' % (q['expr'], desc['name'], n),
                       case({'check': 'assist', 'attr': n}))
    if not missing:
        part.count('assist_queries_complete')
    filename = os.path.join(root, q['file'])
    attrs = sorted(required)
    if only_attr is not None:
        attrs = [a for a in attrs if a == only_attr]
    rng = random.Random('%s:%s' % (q['id'], q['expr']))
    if len(attrs) > 5:
        attrs = rng.sample(attrs, 5)
    for n in attrs:
        ltext, lpos = gen_class.query_text(project, q, n)
        lt = Texts(project['files'], {q['file']: ltext})
        b = lt.module_bindings(rel)
        try:
            result = supp_location(root, ltext, lpos, filename)
        except Exception as e:
            part.count('supp_exceptions(C08, skipped)')
            part.hist('supp_exception_types', 'location:module:%s' % type(e).__name__)
            continue
        part.count('location_calls')
        _, chain = landing_sites(result, root)
        part.count('location_comparisons')
        part.hist('location_expected', 'module:%s' % required[n])
        # the binding in force at the end of the module: the last explicit one, or a later star import
        # (which may re-bind the same name; accepted without checking that it provides the name)
        exp_lines = [b[n][-1]] + [ln for ln in b.get('*', []) if ln > b[n][-1]] if n in b else b.get('*', [])
        first = chain[0] if chain else []
        ok = bool(first) and all(s[0] == rel and s[1] in exp_lines for s in first)
        info = desc['vars'][n]
        if ok and info['kind'] in ('class', 'function') and info.get('file') and '.' not in info['name']:
            dl = lt.def_line(info['file'], info['name'])
            last = chain[-1]
            if dl is not None and all(s == (info['file'], dl) for s in last):
                part.count('module_chain_ends_at_definition')
            else:
                part.count('module_chain_ends_elsewhere(observation only)')
        if ok:
            part.count('location_ok')
        else:
            viol(part, 'module:%s' % ('no-location' if not chain else 'binding-site-wrong:%s' % required[n]),
                           '`%s.%s` (module %s): expected the module-level binding at %s:%s; supp returns %s' % (
                               q['expr'], n, desc['name'], rel, exp_lines, result),
                           case({'check': 'location', 'attr': n}))
    return False


def check_project(part, project, root, oracle, key, only=None):
    nontrivial = False
    for f in project.get('meta', {}).get('features', []):
        part.hist('features', f)
    meta = project.get('meta', {})
    for k in ('n_classes', 'n_function_members', 'n_async_methods', 'n_async_methods_assigning',
              'n_classes_with_async_method', 'n_methods_with_nested_functions', 'n_conditional_exports',
              'n_class_body_lambdas'):
        if meta.get(k):
            part.count('generated_' + k[2:], meta[k])
    for f in project.get('meta', {}).get('import_forms', []):
        part.hist('import_forms_in_project', f)
    for q in project['queries']:
        if only is not None and q['id'] != only[0]:
            continue
        desc = oracle.get(str(q['id']))
        if not desc or desc['type'] == 'error':
            part.count('oracle_query_errors(discarded)')
            part.hist('oracle_errors', (desc or {}).get('error', 'missing')[:80])
            continue
        if check_query(part, project, root, q, desc, only_attr=only[1] if only else None):
            nontrivial = True
    part.case(key, nontrivial=nontrivial)


# ---------------------------------------------------------------------------------------
# worker / main / replay

def work(arg):
    seed, start, count = arg
    part = core.Part()
    tmp = tempfile.mkdtemp(prefix='vf-')
    try:
        projects = []
        for i in range(start, start + count):
            rng = random.Random('%s:C06:proj:%d' % (seed, i))
            pr = gen_class.gen_project(rng)
            pr['root'] = os.path.join(tmp, 'r%d' % i)
            pr['key'] = 'seed%s-%d' % (seed, i)
            write_tree(pr['root'], pr['files'])
            projects.append(pr)
        res, err = run_oracle(tmp, projects)
        part.count('oracle_children')
        if res is None:
            part.inconclusive.append('batch %s: %s' % (arg, err))
            return part.dump()
        for pr, oracle in zip(projects, res):
            part.count('projects')
            check_project(part, pr, pr['root'], oracle, pr['key'])
            if len(part.samples) < 1:
                small = len(json.dumps(pr['files'])) < 6000
                part.sample({'files': pr['files'] if small else sorted(pr['files']),
                             'queries': [(q['kind'], q['expr'], q['file'], q['via']) for q in pr['queries']],
                             'oracle_mro': {k: [c['name'] for c in v.get('mro', [])] for k, v in oracle.items() if 'mro' in v}})
    finally:
        shutil.rmtree(tmp, ignore_errors=True)
    return part.dump()


WITNESS_DIR = os.path.join(core.VERIF, 'witnesses', 'C06')


def work_witnesses(arg):
    """Re-run the committed witness projects of open known findings (files + one query each)."""
    part = core.Part()
    names = sorted(f for f in os.listdir(WITNESS_DIR) if f.endswith('.json')) if os.path.isdir(WITNESS_DIR) else []
    for fn in names:
        with open(os.path.join(WITNESS_DIR, fn)) as f:
            w = json.load(f)
        tmp = tempfile.mkdtemp(prefix='vf-')
        try:
            root = os.path.join(tmp, 'r')
            project = {'files': w['files'], 'queries': [w['query']], 'meta': w.get('meta') or {}, 'root': root}
            write_tree(root, project['files'])
            res, err = run_oracle(tmp, [project])
            part.count('witnesses_run')
            if res is None:
                part.inconclusive.append('witness %s: %s' % (fn, err))
                continue
            before = len(part.violations)
            check_project(part, project, root, res[0], 'witness:' + fn)
            hit = any(v['mech'] == w['key'] for v in part.violations[before:])
            part.hist('witnesses', '%s:%s' % (w['key'], 'reproduces' if hit else 'no longer reproduces'))
        finally:
            shutil.rmtree(tmp, ignore_errors=True)
    return part.dump()


def main(run):
    core.run_parts(run, 'vf.props.c06:work_witnesses', [[]], timeout=300)
    for k in sorted(run.hists.get('witnesses', {})):
        if k.endswith(':no longer reproduces'):
            run.notes.append('witness of known finding %s' % k)
    n = run.pick(320, 10000)
    per = run.pick(20, 50)
    args = [[run.seed, s, min(per, n - s)] for s in range(0, n, per)]
    core.run_parts(run, 'vf.props.c06:work', args, timeout=run.pick(300, 900))
    # the replay file keeps the first 200 cases: interleave mechanisms so that each one is represented
    by_mech = {}
    for v in run.violations:
        by_mech.setdefault(v['mech'], []).append(v)
    order = []
    rank = 0
    while any(len(vs) > rank for vs in by_mech.values()):
        order.extend(vs[rank] for _, vs in sorted(by_mech.items()) if len(vs) > rank)
        rank += 1
    run.violations = order
    return run.finish(
        rule='case = one generated project (class hierarchy over 1-4 modules + a query module); non-trivial = at least one '
             'go-to-definition comparison in it where >= 2 definitions compete (the attribute is bound in >= 2 classes of the '
             'MRO, or in a class body and through self); distinct by (seed, index)',
        require=('projects', 'assist_comparisons', 'location_comparisons', 'oracle_children'),
        assumptions=[
            'oracle = CPython executing the same files: __mro__, vars() of MRO classes, instance __dict__ after calling every '
            'function / property / descriptor of every source MRO class with dummy arguments (exceptions swallowed)',
            'binding lines are taken from ast.parse of the same text supp is given (query file) or of the file on disk',
            'names whose first definer on the MRO is a builtin class are not required (not source-defined) and not queried',
            'files and LINES are compared, not columns (C11)',
            'exceptions escaping assist/location are counted and skipped (C08)',
            'a fresh Project per request (history effects are C04/C09)',
            'module attributes: only the first element of the returned chain is compared (the module-level binding); '
            'sub-module attributes set implicitly by the import system are not required',
            'self inside a method = instance of the class the method is written in; cls in a classmethod = that class'],
        exhaustive=False)


def replay(run, path):
    with open(path) as f:
        data = json.load(f)
    part = core.Part()
    seen = set()
    for v in data['violations']:
        c = v['case']
        key = json.dumps([c['query'], c.get('attr'), sorted(c['files'].items())], sort_keys=True)
        if key in seen:
            continue
        seen.add(key)
        tmp = tempfile.mkdtemp(prefix='vf-')
        try:
            root = os.path.join(tmp, 'r')
            project = {'files': c['files'], 'queries': [c['query']], 'meta': c.get('meta') or {}, 'root': root}
            write_tree(root, project['files'])
            res, err = run_oracle(tmp, [project])
            if res is None:
                print('replay: %s' % err)
                continue
            only = (c['query']['id'], c.get('attr')) if c.get('check') == 'location' else (c['query']['id'], '\0none')
            check_project(part, project, root, res[0], 'replay', only=only)
        finally:
            shutil.rmtree(tmp, ignore_errors=True)
    run.merge(part.dump())
    for v in run.violations:
        print('REPLAYED', v['mech'], v['what'][:300])
    return 1 if run.violations else 0
