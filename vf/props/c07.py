"""C07 - module resolution agrees with Python's import system.

Monitor: for generated package trees (vf/gen_tree.py) under 1-3 source roots in every order the
real ``Project.get_module`` / ``get_nmodule`` / ``norm_package`` and ``assist`` on import lines
are run and every answer is compared with importlib:

* absolute names   - ``importlib.machinery.PathFinder.find_spec`` walked component by component
                     over ``roots + sys.path`` (no module code is executed; a parent that is a
                     module ends the walk), finder caches invalidated per tree;
* relative names   - ``importlib.util.resolve_name(spec, __package__ of the file)``;
* proposals        - ``pkgutil.iter_modules(parent.__path__)`` for the children that must be
                     present, the walk above / ``sys.modules`` for what may be present.

``sys.modules`` is not consulted first (a tree module shadowing a loaded stdlib module wins);
a name the walk does not find but that is loaded (builtin, frozen, ``os.path``) may be answered
with that loaded module or with ImportError.
"""
import importlib
import importlib.machinery
import importlib.util
import json
import keyword
import os
import pkgutil
import random
import shutil
import sys
import tempfile

from vf import core, gen_tree

PathFinder = importlib.machinery.PathFinder
PER_MECH_PER_ORDER = 2
PER_MECH_PER_PART = 25


# ---------------------------------------------------------------------------------------
# oracle

class Found(object):
    def __init__(self, name, spec, entry):
        self.name = name
        self.spec = spec
        self.origin = spec.origin
        self.entry = entry                      # index of the path entry the first component came from
        self.is_package = spec.submodule_search_locations is not None
        ld = spec.loader
        if isinstance(ld, importlib.machinery.ExtensionFileLoader):
            self.kind = 'extension'
        elif isinstance(ld, importlib.machinery.SourceFileLoader):
            self.kind = 'package' if self.is_package else 'source'
        elif isinstance(ld, importlib.machinery.SourcelessFileLoader):
            self.kind = 'sourceless'            # a real module, but not one supp may be asked to analyse
        else:
            self.kind = 'other'                 # zip, ...: outside the quantifier


class Absent(object):
    """the walk stopped: component ``k`` (0-based) was not found ('missing') or the parent is a
    module ('parent-is-module'); ``parent`` is the Found of the last resolved prefix (or None)."""
    def __init__(self, name, k, reason, parent):
        self.name = name
        self.k = k
        self.reason = reason
        self.parent = parent


class Namespace(object):
    """a PEP 420 portion was met on the way: outside the property's domain."""
    def __init__(self, name):
        self.name = name


def fresh_finders():
    importlib.invalidate_caches()
    sys.path_importer_cache.clear()


def _entry_of(comp, path, origin):
    for i, e in enumerate(path):
        try:
            s = PathFinder.find_spec(comp, [e])
        except Exception:
            continue
        if s is not None and s.origin == origin:
            return i
    return None


def walk(name, path):
    """what a fresh interpreter whose sys.path is ``path`` would find for ``import name``
    (file-backed modules only; builtin/frozen importers are not asked)."""
    parts = name.split('.')
    search = list(path)
    found = None
    for k in range(len(parts)):
        full = '.'.join(parts[:k + 1])
        try:
            spec = PathFinder.find_spec(full, search)
        except (KeyError, AttributeError):
            # only a PEP 420 portion below a package gets here: building its _NamespacePath looks the
            # parent up in sys.modules (never imported: KeyError; or another, loaded module of that
            # name without __path__: AttributeError)
            if k == 0:
                raise
            return Namespace(name)
        if spec is None:
            return Absent(name, k, 'missing', found)
        if spec.origin is None or spec.loader is None or \
                type(spec.loader).__name__ in ('NamespaceLoader', '_NamespaceLoader'):
            return Namespace(name)
        entry = found.entry if found else _entry_of(parts[0], path, spec.origin)
        found = Found(full, spec, entry)
        if k < len(parts) - 1:
            if not found.is_package:
                return Absent(name, k + 1, 'parent-is-module', found)
            search = list(spec.submodule_search_locations)
    return found


def children(found, path):
    """names pkgutil enumerates below a package (``found`` None = top level)."""
    if found is None:
        locs = list(path)
    elif not found.is_package:
        return set()
    else:
        locs = list(found.spec.submodule_search_locations)
    # Only names that can be written in an import statement are module names a completion can offer
    # (C12 requires proposals to be identifiers): e.g. '_sysconfigdata__linux_x86_64-linux-gnu' is enumerated by
    # pkgutil but is not an identifier; such names are counted, not required.
    out = set()
    for m in pkgutil.iter_modules(locs):
        if not m.name.isidentifier():
            NON_IDENTIFIER_CHILDREN[0] += 1
        elif keyword.iskeyword(m.name):
            # 'class.py' is importable through importlib but 'import pkg.class' does not compile: a
            # completion need not offer it.  SOFT keywords (match, type, case, _) are ordinary module names.
            HARD_KEYWORD_CHILDREN[0] += 1
        else:
            out.add(m.name)
    return out


NON_IDENTIFIER_CHILDREN = [0]
HARD_KEYWORD_CHILDREN = [0]


def same_file(a, b):
    try:
        return os.path.realpath(a) == os.path.realpath(b)
    except (OSError, ValueError, TypeError):
        return False


MODULE_KIND = {'source': 'module', 'sourceless': 'sourceless-module', 'extension': 'compiled-module'}


# ---------------------------------------------------------------------------------------
# monitor for one (tree, order)

class TreeMon(object):
    def __init__(self, part, tree, order, dirs, budget=None):
        from supp.project import Project
        self.p = part
        self.tree = tree
        self.order = order
        self.dirs = dirs
        self.roots = [dirs[i] for i in order]
        self.path = self.roots + list(sys.path)
        self.project = Project(list(self.roots))
        self.per_mech = {}
        self._walks = {}
        self._kids = {}
        self.budget = budget if budget is not None else {}

    # -- oracle, memoised: the files do not change while one (tree, order) is examined ------
    def walk(self, name):
        try:
            return self._walks[name]
        except KeyError:
            r = self._walks[name] = walk(name, self.path)
            return r

    def children(self, found):
        key = found.name if found is not None else ''
        try:
            return self._kids[key]
        except KeyError:
            r = self._kids[key] = children(found, self.path)
            return r

    # -- reporting ----------------------------------------------------------------------
    def violation(self, mech, what, query):
        self.p.count('violations_seen')
        self.p.hist('violation_mech', mech)
        n = self.per_mech[mech] = self.per_mech.get(mech, 0) + 1
        b = self.budget[mech] = self.budget.get(mech, 0) + 1
        if n > PER_MECH_PER_ORDER or b > PER_MECH_PER_PART:
            self.p.count('violations_not_listed(same mechanism, over per-tree/per-chunk cap)')
            return
        self.p.violation(mech, what, {'tree': self.tree, 'order': self.order, 'query': query})

    def show(self, fn):
        """path with the scratch prefix replaced by r<i> so descriptions are stable."""
        if not isinstance(fn, str):
            return repr(fn)
        for i, d in enumerate(self.dirs):
            if fn.startswith(d + os.sep):
                return '<r%d>/%s' % (i, fn[len(d) + 1:])
        return fn

    def entry_index(self, name, fn):
        """index in roots+sys.path of the entry supp joined with the dotted name to get ``fn``."""
        parts = name.split('.')
        for idx, e in enumerate(self.path):
            mp = os.path.join(e, *parts)
            if fn == mp + '.py' or fn == os.path.join(mp, '__init__.py'):
                return idx
        return None

    def bare_dir_before(self, name, found):
        """is there, in a path entry EARLIER than the one importlib takes ``name`` (or a prefix of it)
        from, a directory of that name without __init__.py?  -> label suffix of that mechanism."""
        if not isinstance(found, Found) or found.entry is None:
            return ''
        parts = name.split('.')
        for e in self.path[:found.entry]:
            d = os.path.join(e, parts[0])
            if os.path.isdir(d) and not os.path.exists(os.path.join(d, '__init__.py')):
                return ':bare-directory-of-that-name-in-an-earlier-path-entry'
        return ''

    # -- supp side ----------------------------------------------------------------------
    def supp_get(self, fn, *args):
        from supp.module import SourceModule, ImportedModule
        try:
            m = fn(*args)
        except ImportError as e:
            return ('ImportError', e)
        except Exception as e:
            return ('raise', e)
        if isinstance(m, SourceModule):
            return ('source', m)
        if isinstance(m, ImportedModule):
            return ('imported', m)
        return ('other', m)

    # -- absolute names -----------------------------------------------------------------
    def later_entry_label(self, name, orc, fname):
        """supp took ``fname`` = <entry j>/<whole dotted name>; does a proper prefix of the name
        resolve, for importlib, in an earlier entry i < j?  -> label of the cross-entry mechanism."""
        if not isinstance(fname, str):
            return None
        parts = name.split('.')
        if len(parts) < 2:
            return None
        j = self.entry_index(name, fname)
        if j is None:
            return None
        if isinstance(orc, Absent):
            par = orc.parent
            if par is None or par.entry is None or par.entry >= j:
                return None
            if orc.reason == 'parent-is-module':
                return 'submodule-from-later-path-entry:shadowing-parent-is-' + MODULE_KIND.get(par.kind, 'module')
            return 'submodule-from-later-path-entry:shadowing-parent-is-package'
        return None

    def check_abs(self, name, kind, via=None):
        """via = (relative spec, filename) when reached through get_nmodule."""
        p = self.p
        orc = self.walk(name)
        if isinstance(orc, Namespace):
            p.count('filtered:namespace-portion-on-the-way')
            return
        if isinstance(orc, Found) and orc.kind in ('other', 'sourceless'):
            # supp would import (execute) it; the quantifier lists source, package, extension
            p.count('filtered:found-is-sourceless-or-other(supp would execute it)')
            return
        loaded = name in sys.modules          # before supp is asked: it may import compiled modules
        if via:
            got = self.supp_get(self.project.get_nmodule, via[0], via[1])
            query = {'type': 'rel', 'spec': via[0], 'file': via[2]}
            call = 'get_nmodule(%r, %s)' % (via[0], self.show(via[1]))
        else:
            got = self.supp_get(self.project.get_module, name)
            query = {'type': 'abs', 'name': name, 'kind': kind}
            call = 'get_module(%r)' % name
        p.count('resolutions_compared')
        tag, val = got
        if isinstance(orc, Found):
            p.count('oracle_found')
            p.hist('oracle_found_kind', orc.kind)
            p.hist('oracle_found_components', len(name.split('.')))
            if orc.entry is not None and orc.entry < len(self.roots):
                p.hist('found_in_root_position', orc.entry)
            else:
                p.hist('found_in_root_position', 'sys.path')
        else:
            p.count('oracle_absent')
            p.hist('oracle_absent_reason', orc.reason + ('+loaded' if loaded else ''))
        p.hist('supp_answer', tag)

        if tag == 'raise':
            self.violation('get-module-raises:' + type(val).__name__,
                           '%s raised %r; importlib: %s' % (call, val, self.describe(orc)), query)
            return
        if tag == 'other':
            self.violation('get-module-returns-alien', '%s returned %r' % (call, val), query)
            return

        if isinstance(orc, Found):
            if orc.kind in ('source', 'package'):
                if tag == 'source':
                    if same_file(val.filename, orc.origin):
                        p.count('agree:same-source-file')
                        return
                    lab = 'wrong-file'
                    gi, oi = self.entry_index(name, val.filename), orc.entry
                    if gi is not None and oi is not None and gi != oi:
                        lab = 'wrong-file:earlier-entry-preferred-by-importlib' if oi < gi else \
                              'wrong-file:later-entry-preferred-by-importlib'
                    elif os.path.dirname(val.filename) != os.path.dirname(orc.origin):
                        lab = 'wrong-file:module-vs-package'
                    self.violation(lab, '%s analyses %s, importlib loads %s' % (
                        call, self.show(val.filename), self.show(orc.origin)), query)
                elif tag == 'imported':
                    self.violation('imported-instead-of-source', '%s returned the loaded module %r, importlib loads %s' % (
                        call, getattr(val.module, '__name__', val.module), self.show(orc.origin)), query)
                else:
                    self.violation('importerror-on-found' + self.bare_dir_before(name, orc), '%s raised ImportError, importlib loads %s' % (
                        call, self.show(orc.origin)), query)
            else:       # extension
                if tag == 'imported':
                    mod = val.module
                    o = getattr(getattr(mod, '__spec__', None), 'origin', None) or getattr(mod, '__file__', None)
                    if getattr(mod, '__name__', None) == name and o and same_file(o, orc.origin):
                        p.count('agree:same-compiled-module')
                    else:
                        self.violation('wrong-compiled-module', '%s returned module %r (%s), importlib loads %s' % (
                            call, getattr(mod, '__name__', mod), o, orc.origin), query)
                elif tag == 'source':
                    self.violation('source-instead-of-compiled', '%s analyses %s, importlib loads %s' % (
                        call, self.show(val.filename), orc.origin), query)
                else:
                    self.violation('importerror-on-found' + self.bare_dir_before(name, orc), '%s raised ImportError, importlib loads %s' % (
                        call, orc.origin), query)
            return

        # importlib finds nothing
        if tag == 'ImportError':
            p.count('agree:both-absent')
            return
        if loaded:
            mod = sys.modules[name]
            if tag == 'imported' and val.module is mod:
                p.count('agree:absent-but-loaded-module-returned')
                return
            if tag == 'source' and getattr(mod, '__file__', None) and same_file(val.filename, mod.__file__):
                # the quantifier compares such names "only when already loaded": the file analysed is
                # the loaded module's own file
                p.count('accepted:absent-but-loaded,file-of-loaded-module-analysed')
                return
        if tag == 'source':
            lab = self.later_entry_label(name, orc, val.filename) or 'found-on-absent'
            self.violation(lab, '%s analyses %s, importlib finds nothing (%s)' % (
                call, self.show(val.filename), self.describe(orc)), query)
        else:
            self.violation('found-on-absent:loaded-module', '%s returned module %r, importlib finds nothing (%s)' % (
                call, getattr(val.module, '__name__', val.module), self.describe(orc)), query)

    def describe(self, orc):
        if isinstance(orc, Found):
            return 'loads %s' % self.show(orc.origin)
        if isinstance(orc, Absent):
            comp = '.'.join(orc.name.split('.')[:orc.k + 1])
            if orc.reason == 'parent-is-module':
                return '%r is a module (%s), not a package' % (orc.parent.name, self.show(orc.parent.origin))
            if orc.parent:
                return 'no %r in %s' % (comp, [self.show(x) for x in orc.parent.spec.submodule_search_locations])
            return 'no %r on the path' % comp
        return 'namespace'

    # -- relative names -----------------------------------------------------------------
    def check_rel(self, spec, root, rel):
        p = self.p
        fn = os.path.join(self.dirs[root], *rel.split('/'))
        pkg = gen_tree.package_of(rel)
        query = {'type': 'rel', 'spec': spec, 'file': [root, rel]}
        level = len(spec) - len(spec.lstrip('.'))
        try:
            want = ('ok', importlib.util.resolve_name(spec, pkg))
        except ImportError as e:
            want = ('ImportError', e)
        try:
            got = ('ok', self.project.norm_package(spec, fn))
        except ImportError as e:
            got = ('ImportError', e)
        except Exception as e:
            got = ('raise', e)
        p.count('relative_names_compared')
        p.hist('relative_level', level)
        p.hist('relative_oracle', want[0] + (':bare-dots' if not spec.strip('.') else ''))
        call = 'norm_package(%r, %s) [__package__=%r]' % (spec, self.show(fn), pkg)
        if want[0] == 'ok':
            if got[0] == 'ok':
                if got[1] == want[1]:
                    p.count('agree:relative-name')
                    self.check_abs(want[1], 'relative', via=(spec, fn, [root, rel]))
                    return
                gl, wl = len(got[1].split('.')), len(want[1].split('.'))
                lab = 'norm-package-wrong-name'
                if gl < wl:
                    lab += ':climbs-too-far'
                elif gl > wl:
                    lab += ':climbs-too-little'
                self.violation(lab, '%s = %r, resolve_name gives %r' % (call, got[1], want[1]), query)
            else:
                self.violation('norm-package-raises-on-valid:' + type(got[1]).__name__,
                               '%s raised %r, resolve_name gives %r' % (call, got[1], want[1]), query)
            return
        # importlib refuses: beyond top-level package / no parent package
        if got[0] == 'ImportError':
            p.count('agree:relative-refused')
        elif got[0] == 'raise':
            e = got[1]
            if type(e) is Exception and str(e).startswith('Not a package'):
                lab = 'norm-package-raises-bare-Exception-not-ImportError'
            else:
                lab = 'norm-package-raises:' + type(e).__name__
            self.violation(lab, '%s raised %r where resolve_name raises ImportError(%s)' % (call, e, want[1]), query)
        else:
            self.violation('norm-package-resolves-beyond-top-level',
                           '%s = %r, resolve_name raises ImportError(%s)' % (call, got[1], want[1]), query)

    # -- relative names, histories on one Project -------------------------------------------
    def _rel_want(self, q):
        spec, root, rel = q
        try:
            return ('ok', importlib.util.resolve_name(spec, gen_tree.package_of(rel)))
        except ImportError:
            return ('ImportError', None)

    def _rel_got(self, project, q):
        spec, root, rel = q
        fn = os.path.join(self.dirs[root], *rel.split('/'))
        try:
            return ('ok', project.norm_package(spec, fn))
        except ImportError:
            return ('ImportError', None)
        except Exception as e:
            return ('raise:' + type(e).__name__, repr(e))

    def run_history(self, history, stop_after=None):
        """the queries of ``history`` in that order on ONE fresh Project; -> indexes that disagree with
        resolve_name."""
        from supp.project import Project
        project = Project(list(self.roots))
        bad = []
        for idx, q in enumerate(history):
            want = self._rel_want(q)
            got = self._rel_got(project, q)
            if got != want:
                bad.append((idx, got, want))
                if stop_after and len(bad) >= stop_after:
                    break
        return bad

    def _climbed(self, q):
        spec, root, rel = q
        level = len(spec) - len(spec.lstrip('.'))
        parts = rel.split('/')
        return (root, tuple(parts[:max(0, len(parts) - level)]), level > len(parts))

    def check_rel_histories(self, queries, rng):
        """norm_package keeps a per-Project cache: whatever was asked before, every answer must be the
        one resolve_name gives.  Sweeps: deepest/shallowest/shuffled files first, each file's levels
        ascending and descending, all queries shuffled, highest level first."""
        p = self.p
        if not queries:
            return

        def level(q):
            return len(q[0]) - len(q[0].lstrip('.'))
        files = sorted({(q[1], q[2]) for q in queries})
        byfile = {}
        for q in queries:
            byfile.setdefault((q[1], q[2]), []).append(q)

        def build(order, desc):
            out = []
            for f in order:
                out += sorted(byfile[f], key=level, reverse=desc)
            return out
        deepest = sorted(files, key=lambda f: (-f[1].count('/'), f))
        shallow = sorted(files, key=lambda f: (f[1].count('/'), f))
        shuf = list(files)
        rng.shuffle(shuf)
        allq = list(queries)
        rng.shuffle(allq)
        histories = [
            ('deepest-file-first/levels-ascending', build(deepest, False)),
            ('deepest-file-first/levels-descending', build(deepest, True)),
            ('shallowest-file-first/levels-ascending', build(shallow, False)),
            ('shallowest-file-first/levels-descending', build(shallow, True)),
            ('shuffled-files/levels-ascending', build(shuf, False)),
            ('shuffled-files/levels-descending', build(shuf, True)),
            ('all-queries-shuffled', allq),
            ('highest-level-first', sorted(queries, key=lambda q: -level(q))),
        ]
        p.count('relative_histories', len(histories))
        for hname, hist in histories:
            p.hist('relative_history_kind', hname)
            bad = self.run_history(hist, stop_after=3)
            p.count('relative_history_answers_compared', len(hist) if not bad else bad[-1][0] + 1)
            for idx, got, want in bad:
                q = hist[idx]
                # does the query fail on its own?  then it is not a matter of history (check_rel reports it)
                if self.run_history([q]):
                    p.count('relative_history_mismatch_also_without_history')
                    continue
                # smallest history: one earlier query that is enough to spoil this one
                minimal = None
                for k in range(idx):
                    if hist[k] != q and self.run_history([hist[k], q]) and not self.run_history([hist[k]]):
                        minimal = [hist[k], q]
                        break
                if minimal:
                    a, b = self._climbed(minimal[0]), self._climbed(q)
                    if a[0] == b[0] and len(a[1]) > len(b[1]) and a[1][:len(b[1])] == b[1]:
                        relation = 'after-query-resolved-in-a-descendant-directory'
                    elif a[0] == b[0] and len(a[1]) < len(b[1]) and b[1][:len(a[1])] == a[1]:
                        relation = 'after-query-resolved-in-an-ancestor-directory'
                    elif a[:2] == b[:2]:
                        relation = 'after-query-resolved-in-the-same-directory'
                    else:
                        relation = 'after-query-resolved-in-an-unrelated-directory'
                else:
                    relation = 'after-several-queries'
                    minimal = hist[:idx + 1]
                if want[0] == 'ok':
                    symptom = 'wrong-name' if got[0] == 'ok' else 'refused' if got[0] == 'ImportError' else got[0]
                else:
                    symptom = 'resolves-beyond-top-level' if got[0] == 'ok' else got[0]
                spec, root, rel = q
                self.violation(
                    'norm-package-depends-on-history:%s:%s' % (relation, symptom),
                    'on one Project, after %s, norm_package(%r, <r%d>/%s) gives %s, resolve_name(%r, %r) gives %s '
                    '(fresh Project: correct; sweep %s)' % (
                        'norm_package(%r, <r%d>/%s)' % (minimal[0][0], minimal[0][1], minimal[0][2]) if len(minimal) == 2
                        else '%d earlier queries' % (len(minimal) - 1),
                        spec, root, rel, got[1] if got[0] == 'ok' else got[0], spec, gen_tree.package_of(rel),
                        want[1] if want[0] == 'ok' else 'ImportError', hname),
                    {'type': 'rel-history', 'history': minimal, 'sweep': hname})

    # -- use of a name bound by an import statement -----------------------------------------
    def _tree_file(self, fn):
        """(root, rel) of a path inside the materialised tree, else None"""
        if not isinstance(fn, str):
            return None
        for i, d in enumerate(self.dirs):
            if fn.startswith(d + os.sep):
                rel = fn[len(d) + 1:].replace(os.sep, '/')
                if rel in self.tree['roots'][i]:
                    return i, rel
        return None

    def _markers(self):
        try:
            return self._marks
        except AttributeError:
            import re
            self._marks = {}
            for i, files in enumerate(self.tree['roots']):
                for rel, text in files.items():
                    if rel.endswith('.py'):
                        m = re.findall(r'^(MARK_\w+) = 1$', text, re.M)
                        if m:
                            self._marks[(i, rel)] = m[-1]
            return self._marks

    def expected_use(self, q, root, rel):
        """-> ('file', path) the module/attribute the bound name stands for lives in that source file,
              ('nothing', why) importlib raises / the name is not there,
              ('skip', why) outside the domain or ambiguous."""
        if q['kind'] == 'import':
            target = q['module'] if q['alias'] else q['use']
            return self._expect_module(target)
        mod = q['module']
        if mod.startswith('.'):
            try:
                pabs = importlib.util.resolve_name(mod, gen_tree.package_of(rel))
            except ImportError:
                return ('nothing', 'relative import beyond the top-level package')
        else:
            pabs = mod
        par = self.walk(pabs)
        if isinstance(par, Namespace):
            return ('skip', 'namespace')
        if isinstance(par, Absent):
            return ('skip', 'loaded') if pabs in sys.modules else ('nothing', 'no module %r' % pabs)
        if par.kind not in ('source', 'package'):
            return ('skip', 'non-source parent')
        sub = self._expect_module(pabs + '.' + q['name'])
        tf = self._tree_file(par.origin)
        if tf is None:
            # a module outside the tree: its attributes are not modelled
            return sub if sub[0] == 'file' else ('skip', 'attribute of a module outside the tree')
        attrs = gen_tree.toplevel_names(self.tree['roots'][tf[0]][tf[1]])
        if q['name'] in attrs:
            if sub[0] == 'file':
                return ('skip', 'attribute and sub-module of the same name')
            return ('file', par.origin)
        return sub

    def _expect_module(self, name):
        o = self.walk(name)
        if isinstance(o, Namespace):
            return ('skip', 'namespace')
        if isinstance(o, Absent):
            if name in sys.modules:
                return ('skip', 'loaded')
            # every prefix must be a source module too, otherwise supp would have to execute something
            par = o.parent
            if par is not None and par.kind not in ('source', 'package'):
                return ('skip', 'non-source parent')
            return ('nothing', 'no module %r' % name)
        if o.kind not in ('source', 'package'):
            return ('skip', 'non-source module')
        return ('file', o.origin)

    def other_level_files(self, q, root, rel):
        """files the same statement would lead to if its relative level were another one"""
        out = {}
        if q['kind'] != 'from' or not q['module'].startswith('.'):
            return out
        mod = q['module']
        level = len(mod) - len(mod.lstrip('.'))
        for other in range(1, 7):
            if other == level:
                continue
            q2 = dict(q, module='.' * other + mod.lstrip('.'))
            e = self.expected_use(q2, root, rel)
            if e[0] == 'file':
                out[os.path.realpath(e[1])] = other
        return out

    def check_use(self, q, root, rel):
        from supp.assistant import assist, location
        p = self.p
        client = os.path.join(self.dirs[root], *rel.split('/'))
        stmt = gen_tree.statement_of(q)
        use = q['use']
        query = {'type': 'use', 'q': q, 'file': [root, rel]}
        exp = self.expected_use(q, root, rel)
        if exp[0] == 'skip':
            p.count('filtered:use-of-imported-name:' + exp[1])
            return
        if exp[0] == 'file' and same_file(exp[1], client):
            p.count('filtered:use-of-imported-name:the importing file itself')
            return
        level = len(q['module']) - len(q['module'].lstrip('.')) if q['kind'] == 'from' else 0
        p.hist('use_form', q['form'] + (':level-%d' % level if level else ''))
        p.hist('use_expected', exp[0] + (':beyond-top-level' if exp[0] == 'nothing' and 'beyond' in exp[1] else ''))
        others = None
        base = 'imported-name-use:%s:' + q['form'] + ':'
        where = '%r then %r in %s [__package__=%r]' % (stmt, use, self.show(client), gen_tree.package_of(rel))
        want = self.show(exp[1]) if exp[0] == 'file' else 'nothing (%s)' % exp[1]

        # (1) go to definition on the use
        try:
            locs = location(self.project, stmt + '\n' + use, (2, len(use)), client)
        except Exception as e:
            p.count('filtered:use-of-imported-name:location raised %s (C08)' % type(e).__name__)
            locs = None
        if locs is not None:
            flat = []
            for l in locs:
                flat += l if isinstance(l, list) else [l]
            targets = [l.get('file') for l in flat if isinstance(l, dict) and not same_file(l.get('file'), client)]
            got = targets[-1] if targets else None
            p.count('use_locations_compared')
            if exp[0] == 'file':
                if got is not None and same_file(got, exp[1]):
                    p.count('agree:use-location-in-resolved-file')
                else:
                    others = self.other_level_files(q, root, rel)
                    if got is None:
                        sym = 'nothing-where-importlib-loads'
                    else:
                        sym = 'wrong-file'
                        if os.path.realpath(got) in others:
                            sym += ':resolved-at-another-relative-level'
                    self.violation(base % 'location' + sym, 'location() of %s leads to %s, importlib: %s' % (
                        where, self.show(got), want), query)
            else:
                if got is None:
                    p.count('agree:use-location-empty-where-importlib-raises')
                else:
                    others = self.other_level_files(q, root, rel)
                    sym = 'found-where-importlib-raises'
                    if os.path.realpath(got) in others:
                        sym += ':resolved-at-another-relative-level'
                    self.violation(base % 'location' + sym, 'location() of %s leads to %s, importlib: %s' % (
                        where, self.show(got), want), query)

        # (2) attributes of the bound name
        try:
            _, attrs = assist(self.project, stmt + '\n' + use + '.', (2, len(use) + 1), client)
            attrs = set(attrs)
        except Exception as e:
            p.count('filtered:use-of-imported-name:assist raised %s (C08)' % type(e).__name__)
            return
        marks = self._markers()
        mine = None
        if exp[0] == 'file':
            tf = self._tree_file(exp[1])
            mine = marks.get(tf) if tf else None
        if exp[0] == 'file' and tf is None:
            # a module outside the tree may itself import tree decoys (bisect.py: 'from _bisect import *'):
            # its attribute list says nothing about which file was resolved
            p.count('filtered:use-of-imported-name:attributes of a module outside the tree')
            return
        foreign = sorted(m for k, m in marks.items() if m != mine and m in attrs)
        p.count('use_attribute_sets_compared')
        if foreign:
            if others is None:
                others = self.other_level_files(q, root, rel)
            src = [k for k, m in marks.items() if m == foreign[0]][0]
            srcfile = os.path.realpath(os.path.join(self.dirs[src[0]], *src[1].split('/')))
            sym = 'attributes-of-another-file' if exp[0] == 'file' else 'attributes-where-importlib-raises'
            if srcfile in others:
                sym += ':resolved-at-another-relative-level'
            self.violation(base % 'assist' + sym, "assist on %s.: proposes %s, defined in <r%d>/%s; importlib: %s" % (
                where, foreign[0], src[0], src[1], want), query)
        elif exp[0] == 'file' and mine is not None and same_file(exp[1], os.path.join(self.dirs[tf[0]], *tf[1].split('/'))) \
                and gen_tree.dotted_of(tf[1])[0] == self._use_module(q, root, rel) and mine not in attrs:
            self.violation(base % 'assist' + 'attributes-of-resolved-module-missing',
                           'assist on %s.: %s of %s is not proposed' % (where, mine, want), query)
        else:
            p.count('agree:use-attributes' if exp[0] == 'file' and mine else 'agree:use-attributes-no-foreign-marker')

    def _use_module(self, q, root, rel):
        """dotted name of the MODULE the bound name stands for (None when it stands for an attribute)"""
        if q['kind'] == 'import':
            return q['module'] if q['alias'] else q['use']
        mod = q['module']
        try:
            pabs = importlib.util.resolve_name(mod, gen_tree.package_of(rel)) if mod.startswith('.') else mod
        except ImportError:
            return None
        return pabs + '.' + q['name']

    # -- proposals ----------------------------------------------------------------------
    def check_assist(self, form, pkgspec, root=None, rel=None, prefix=''):
        """form: 'import' -> 'import X.'   'from' -> 'from X.'   'from-import' -> 'from X import '
        pkgspec: absolute dotted name, '' (top level) or a relative specifier."""
        from supp.assistant import assist
        p = self.p
        fn = os.path.join(self.dirs[root], *rel.split('/')) if rel else None
        query = {'type': 'assist', 'form': form, 'pkg': pkgspec, 'file': [root, rel] if rel else None, 'prefix': prefix}
        if gen_tree.has_hard_keyword(pkgspec):
            p.count('filtered:import-line-with-a-hard-keyword-component(does not compile)')
            return
        if pkgspec.startswith('.'):
            try:
                absname = importlib.util.resolve_name(pkgspec, gen_tree.package_of(rel))
            except ImportError:
                p.count('filtered:assist-on-unresolvable-relative-package')
                return
            if form == 'import':
                return
        else:
            absname = pkgspec
        if form == 'import':
            line = 'import ' + (pkgspec + '.' if pkgspec else '') + prefix
        elif form == 'from':
            line = 'from ' + (pkgspec + ('.' if pkgspec and not pkgspec.endswith('.') else '')) + prefix
            if not pkgspec:
                return
        else:
            if not pkgspec:
                return
            line = 'from ' + pkgspec + ' import ' + prefix
        text = 'X = 1\n' + line
        pos = (2, len(line))

        if absname:
            orc = self.walk(absname)
            if isinstance(orc, Namespace) or (isinstance(orc, Found) and orc.kind == 'other'):
                p.count('filtered:namespace-portion-on-the-way')
                return
            if isinstance(orc, Found) and orc.kind == 'sourceless' and form == 'from-import':
                p.count('filtered:found-is-sourceless-or-other(supp would execute it)')
                return
            if isinstance(orc, Found) and orc.kind in ('sourceless', 'extension'):
                p.count('proposal_sets_after_non_source_module')
            parent = orc if isinstance(orc, Found) else None
            must = self.children(parent) if parent else set()
        else:
            orc = None
            parent = None
            must = self.children(None)

        try:
            res = assist(self.project, text, pos, fn)
        except ImportError as e:
            res = e
        except Exception as e:
            if form == 'from-import':
                # the attribute half of 'from X import' is C08/C12 territory
                p.count('filtered:from-import-raised-non-ImportError(C08)')
                return
            self.violation('assist-import-line-raises:' + type(e).__name__,
                           'assist on %r raised %r' % (line, e), query)
            return
        p.count('assist_calls')
        p.hist('assist_form', form + (':relative' if pkgspec.startswith('.') else '') + (':top' if not absname else ''))
        call = 'assist(%r%s)' % (line, ', file=%s' % self.show(fn) if fn else '')
        if isinstance(res, ImportError):
            if form == 'from-import' and absname and not isinstance(orc, Found):
                p.count('agree:from-import-of-absent-raises-ImportError')
                return
            if form == 'from-import':
                self.violation('assist-importerror-on-found' + self.bare_dir_before(absname, orc), '%s raised ImportError, importlib: %s' % (
                    call, self.describe(orc)), query)
            else:
                self.violation('assist-import-line-raises:ImportError', '%s raised %r' % (call, res), query)
            return
        try:
            got_prefix, names = res
            names = set(names)
        except Exception:
            self.violation('assist-returns-alien', '%s returned %r' % (call, res), query)
            return
        if got_prefix != prefix:
            p.count('observed:assist-prefix-differs(C12)')

        p.count('proposal_sets_compared')
        p.count('children_required', len(must))
        for n in must:
            cat = gen_tree.name_category(n)
            if cat != 'plain':
                p.hist('required_child_kind', cat)
                if cat == 'soft-keyword':
                    p.count('required_children_soft_keyword')
        if must:
            p.count('proposal_sets_with_required_children')
        missing = sorted(must - names)
        if missing:
            cats = {gen_tree.name_category(n) for n in missing}
            if len(cats) == 1 and cats != {'plain'}:
                # only names of one odd family are dropped (e.g. a reserved-word filter that also takes soft keywords)
                suffix = ':only-%s-names' % cats.pop()
            else:
                suffix = self.bare_dir_before(absname, orc) if absname else ''
            self.violation('proposals-miss-enumerable-child' + suffix, '%s lacks %s which pkgutil.iter_modules(%s) enumerates' % (
                call, missing[:5], self.describe(orc) if orc else 'roots + sys.path'), query)
        if form == 'from-import':
            return                      # module attributes are legitimately mixed in
        p.count('proposals_checked', len(names))
        for g in sorted(names - must):
            full = (absname + '.' + g) if absname else g
            if full in sys.modules:
                p.count('proposal:loaded')
                continue
            if not g or '.' in g:
                self.violation('proposal-not-a-module-name', '%s proposes %r' % (call, g), query)
                continue
            o2 = self.walk(full)
            if isinstance(o2, (Found, Namespace)):
                p.count('proposal:importable-not-enumerated')
                continue
            # neither importable nor loaded
            lab = None
            if absname and isinstance(orc, (Found, Absent)):
                for idx, e in enumerate(self.path):
                    d = os.path.join(e, *absname.split('.'))
                    if os.path.exists(os.path.join(d, g, '__init__.py')) or \
                            any(os.path.exists(os.path.join(d, g + sfx)) for sfx in importlib.machinery.all_suffixes()):
                        first = orc if isinstance(orc, Found) else orc.parent
                        if first is not None and first.entry is not None and first.entry < idx:
                            # which kind of earlier-entry object hides the later directory?
                            if isinstance(orc, Found):
                                what = 'package' if orc.is_package else MODULE_KIND.get(orc.kind, 'module')
                            elif orc.reason == 'missing':
                                what = 'package'
                            else:
                                what = MODULE_KIND.get(orc.parent.kind, 'module')
                            lab = 'proposal-from-later-path-entry:shadowing-' + what
                        break
            self.violation(lab or 'proposal-not-importable', '%s proposes %r; importlib: %s, and %r is not loaded' % (
                call, g, self.describe(o2), full), query)

    # -- the oracle against a real interpreter ----------------------------------------------
    def selfcheck(self, names):
        """Start a fresh interpreter whose path is roots + this process's sys.path, really import
        every name and compare with walk().  A mismatch means the ORACLE is suspect: it is
        reported as inconclusive, never as a violation."""
        import _imp
        import subprocess
        p = self.p
        names = [n for n in names
                 if n.split('.')[0] not in sys.builtin_module_names and not _imp.is_frozen(n.split('.')[0])]
        # the script may import nothing but sys: any other module could be a decoy of the tree
        script = (
            'import sys\n'
            'for n in sys.stdin.read().split():\n'
            '    try:\n'
            '        __import__(n)\n'
            '        r = "ok\\t" + str(getattr(sys.modules[n], "__file__", None))\n'
            '    except ModuleNotFoundError as e:\n'
            '        r = "absent\\t" + str(e.name)\n'
            '    except BaseException as e:\n'
            '        r = "error\\t" + repr(e).replace("\\n", " ")\n'
            '    sys.stdout.write(n + "\\t" + r + "\\n")\n')
        env = {'PYTHONPATH': os.pathsep.join(self.roots + [x for x in sys.path if x]),
               'PYTHONDONTWRITEBYTECODE': '1', 'PYTHONHASHSEED': '0'}
        try:
            r = subprocess.run([sys.executable, '-S', '-B', '-P', '-c', script], input='\n'.join(names), env=env,
                               capture_output=True, text=True, timeout=120, cwd=os.path.dirname(self.dirs[0]))
            real = {}
            for line in r.stdout.splitlines():
                f = line.split('\t', 2)
                if len(f) == 3:
                    real[f[0]] = (f[1], f[2])
            if r.returncode != 0 or not real:
                raise RuntimeError('rc=%s %s' % (r.returncode, r.stderr[-300:]))
        except Exception as e:
            # e.g. a decoy that breaks interpreter start-up; 'oracle_selfcheck_names' is a required
            # counter, so a self-check that never runs makes the whole run inconclusive
            p.count('oracle_selfcheck_not_run')
            return
        p.count('oracle_selfcheck_interpreters')
        for n in names:
            orc = self.walk(n)
            how, val = real.get(n, ('error', 'no answer'))
            if isinstance(orc, Namespace) or how == 'error':
                p.count('oracle_selfcheck_indeterminate')
                continue
            if how == 'absent' and not (n == val or n.startswith(str(val) + '.')):
                p.count('oracle_selfcheck_indeterminate')     # a nested import failed, not this name
                continue
            p.count('oracle_selfcheck_names')
            ok = (how == 'ok' and isinstance(orc, Found) and val and same_file(val, orc.origin)) or \
                 (how == 'absent' and isinstance(orc, Absent))
            if not ok:
                p.count('oracle_selfcheck_mismatch')
                p.inconclusive.append('ORACLE self-check mismatch for %r under roots %s: real interpreter %s %s, walk: %s; tree %s' % (
                    n, self.order, how, self.show(val), self.describe(orc), json.dumps(self.tree)[:1500]))

    # -- everything for this order ------------------------------------------------------
    def run_all(self, rng, env):
        tree = self.tree
        fb = gen_tree.file_backed(tree)
        names = gen_tree.absolute_names(rng, tree, env['compiled'], env['stdlib_pkgs'], env['stdlib_mods'])
        for kind, name in names:
            self.p.hist('name_kind', kind)
            self.check_abs(name, kind)
        if env.get('selfcheck'):
            self.selfcheck([n for _, n in names])
        # relative specifiers from every file importlib would load under this order
        rel_queries = []
        clients = []
        for root in range(len(tree['roots'])):
            for rel in sorted(tree['roots'][root]):
                if not rel.endswith('.py'):
                    continue            # no text to edit in a sourceless / compiled module, a data file
                if gen_tree.under_bare(tree, root, rel):
                    self.p.count('filtered:relative-from-stray-file-in-a-bare-directory')
                    continue
                name, kind = gen_tree.dotted_of(rel)
                fn = os.path.join(self.dirs[root], *rel.split('/'))
                orc = self.walk(name)
                if not (isinstance(orc, Found) and same_file(orc.origin, fn)):
                    self.p.count('filtered:relative-from-shadowed-file(no __package__ under this order)')
                    continue
                self.p.count('files_with_relative_queries')
                clients.append((root, rel))
                specs = gen_tree.relative_specs(rng, tree, root, rel)
                for spec in specs:
                    self.check_rel(spec, root, rel)
                    rel_queries.append([spec, root, rel])
                for spec in specs:
                    if spec.strip('.') and rng.random() < 0.6:
                        continue
                    form = rng.choice(('from', 'from-import'))
                    self.check_assist(form, spec, root, rel)
        # the same relative obligations again as query HISTORIES, each on one long-lived Project
        self.check_rel_histories(rel_queries, rng)
        # uses of names bound by import statements, from a few importing files (deepest first)
        clients.sort(key=lambda c: (-c[1].count('/'), c))
        picked = clients[:2] + (rng.sample(clients[2:], min(1, len(clients[2:]))) if len(clients) > 2 else [])
        for root, rel in picked:
            self.p.count('files_with_use_queries')
            for q in gen_tree.use_queries(rng, tree, root, rel, env.get('use_limits', (14, 8, 8, 6))):
                self.check_use(q, root, rel)
        # proposals for absolute packages
        pk = sorted(n for n in fb)
        extra = ['', 'zq_absent', 'json', 'email.mime', 'os', 'xml.dom'] + [c for c in env['compiled'][:2]]
        anyfile = None
        for root in range(len(tree['roots'])):
            for rel in sorted(tree['roots'][root]):
                if rel.endswith('.py') and not gen_tree.under_bare(tree, root, rel):
                    anyfile = (root, rel)
                    break
            if anyfile:
                break
        for n in pk + extra:
            for form in ('import', 'from', 'from-import'):
                if form != 'import' and n in pk and rng.random() < 0.4:
                    continue
                if form == 'from-import' and n in extra and rng.random() < 0.85:
                    continue            # parsing a large stdlib module per order buys nothing here
                f = anyfile if anyfile and rng.random() < 0.5 else (None, None)
                pref = ''
                if n in pk and rng.random() < 0.15:
                    pref = rng.choice(('m', 's', 'p'))
                self.check_assist(form, n, f[0], f[1], pref)


# ---------------------------------------------------------------------------------------
# modules supp IMPORTS instead of analysing: compiled extensions inside packages, dyn_modules

RUNTIME_EXTS = ('_bisect', '_heapq', '_struct')        # small multi-phase-init extensions: load again under any package


def gen_runtime_layout(rng, compiled, top):
    """a package ``top`` (a name never used before in this process) with 0-2 nested sub-packages; real
    extension modules linked into some of them under their own module name; one source module that is
    listed in dyn_modules by its dotted name."""
    exts = [e for e in RUNTIME_EXTS if e in compiled]
    depth = rng.choice((1, 2, 2, 3))
    chain = rng.sample(['sub', 'inner', '_', 'match', 'pa'], depth - 1)
    picked = rng.sample(exts, min(len(exts), rng.choice((1, 2))))
    return {'top': top, 'chain': chain, 'ext': [[rng.randrange(depth), e] for e in picked],
            'dyn': [rng.randrange(depth), 'plain'], 'first': rng.choice(('get_module', 'assist'))}


def run_runtime(part, layout):
    """supp is asked FIRST (the module is not in sys.modules yet), then importlib really imports the same
    dotted name: the module supp hands out must be that module, and completion after
    'from pkg.sub import _heapq' + '_heapq.' must offer its attributes, not the package's."""
    from supp.project import Project
    from supp.assistant import assist
    from supp.evaluator import EvalCtx
    from supp.module import ImportedModule
    top, chain = layout['top'], layout['chain']
    if top in sys.modules or any(k.startswith(top + '.') for k in sys.modules):
        part.count('filtered:runtime-layout-name-already-loaded')
        return
    base = tempfile.mkdtemp(prefix='vf-')
    root = os.path.join(base, 'rt')
    pk = [top] + chain

    def dotted(k, leaf):
        return '.'.join(pk[:k + 1] + [leaf])
    try:
        d = root
        for k, name in enumerate(pk):
            d = os.path.join(d, name)
            os.makedirs(d)
            with open(os.path.join(d, '__init__.py'), 'w') as f:
                f.write('IN_PKG_%d = 1\n' % k)
        targets = []
        for k, ext in layout['ext']:
            spec = PathFinder.find_spec(ext, list(sys.path))
            if spec is None or not isinstance(spec.loader, importlib.machinery.ExtensionFileLoader):
                part.count('filtered:runtime-layout-extension-missing')
                continue
            dest = os.path.join(root, *(pk[:k + 1] + [os.path.basename(spec.origin)]))
            try:
                os.symlink(spec.origin, dest)
            except OSError:
                shutil.copyfile(spec.origin, dest)
            targets.append(('compiled-in-package', dotted(k, ext), ext, dest))
        k, leaf = layout['dyn']
        dest = os.path.join(root, *(pk[:k + 1] + [leaf + '.py']))
        with open(dest, 'w') as f:
            f.write('IN_PLAIN = 1\n')
        targets.append(('dyn-source-module', dotted(k, leaf), leaf, dest))
        sys.path.insert(0, root)
        fresh_finders()
        project = Project([root], dyn_modules=[t[1] for t in targets if t[0] == 'dyn-source-module'])
        ctx = EvalCtx(project)
        client = os.path.join(root, 'main.py')
        for kind, name, leaf, dest in targets:
            case = {'type': 'runtime', 'layout': layout, 'name': name}
            part.hist('runtime_import_kind', '%s:%d-components' % (kind, len(name.split('.'))))
            if name in sys.modules:
                part.count('filtered:runtime-module-already-loaded')
                continue

            def ask_get():
                try:
                    return project.get_module(name)
                except Exception as e:
                    return e

            def ask_assist():
                src = 'from %s import %s\n%s.' % (name.rpartition('.')[0], leaf, leaf)
                try:
                    return set(assist(project, src, (2, len(leaf) + 1), client)[1])
                except Exception as e:
                    return e
            if layout['first'] == 'assist':
                props, got = ask_assist(), ask_get()
            else:
                got, props = ask_get(), ask_assist()
            # the reference, AFTER supp was asked
            try:
                real = importlib.import_module(name)
            except Exception as e:
                part.count('filtered:runtime-module-does-not-load(%s)' % type(e).__name__)
                continue
            if not same_file(getattr(real, '__file__', None), dest) or real.__name__ != name:
                part.count('filtered:runtime-reference-is-another-file')
                continue
            want = {a for a in vars(real) if a.isidentifier() and not a.startswith('__')}
            part.count('runtime_imports_compared')
            lab = 'runtime-import:%s:' + kind + ':'
            what = '%s (%s, first asked through %s)' % (name, kind, layout['first'])
            if isinstance(got, Exception):
                part.violation(lab % 'get_module' + 'raises:' + type(got).__name__,
                               'get_module(%r) raised %r; importlib loads %s' % (name, got, os.path.basename(dest)), case)
            elif not isinstance(got, ImportedModule):
                part.violation(lab % 'get_module' + 'not-a-runtime-module', 'get_module(%r) returned %r' % (name, got), case)
            elif got.module is not real:
                other = getattr(got.module, '__name__', repr(got.module))
                sym = 'another-module-returned' + (':top-level-package' if other == top and name != top else '')
                part.violation(lab % 'get_module' + sym, 'get_module of %s hands out module %r, importlib.import_module gives %r (%s)' % (
                    what, other, real.__name__, os.path.basename(dest)), case)
            else:
                try:
                    have = set(got.attr_list(ctx))
                except Exception as e:
                    have = None
                    part.count('filtered:runtime-attr_list-raised(%s)' % type(e).__name__)
                if have is not None and not want <= have:
                    part.violation(lab % 'get_module' + 'attributes-missing', 'attribute list of %s lacks %s' % (
                        what, sorted(want - have)[:5]), case)
                else:
                    part.count('agree:runtime-module-is-the-imported-one')
            if isinstance(props, Exception):
                part.count('filtered:runtime-assist-raised(%s)(C08)' % type(props).__name__)
            else:
                part.count('runtime_proposal_sets_compared')
                foreign = sorted(a for a in props if a.startswith('IN_PKG_'))
                if foreign:
                    part.violation(lab % 'assist' + 'package-attributes-proposed',
                                   "after 'from %s import %s' the completion of '%s.' offers %s of a package __init__, importlib: %s defines %s" % (
                                       name.rpartition('.')[0], leaf, leaf, foreign, os.path.basename(dest), sorted(want)[:4]), case)
                elif not want <= props:
                    part.violation(lab % 'assist' + 'attributes-missing',
                                   "after 'from %s import %s' the completion of '%s.' lacks %s (first asked through %s)" % (
                                       name.rpartition('.')[0], leaf, leaf, sorted(want - props)[:5], layout['first']), case)
                else:
                    part.count('agree:runtime-proposals')
    finally:
        if root in sys.path:
            sys.path.remove(root)
        for k in [k for k in sys.modules if k == top or k.startswith(top + '.')]:
            del sys.modules[k]
        shutil.rmtree(base, ignore_errors=True)
        fresh_finders()


# ---------------------------------------------------------------------------------------
# workers

def environment():
    """which candidate names really are compiled / source modules of this interpreter."""
    fresh_finders()
    comp = []
    for n in gen_tree.COMPILED:
        s = PathFinder.find_spec(n, sys.path)
        if s is not None and isinstance(s.loader, importlib.machinery.ExtensionFileLoader):
            comp.append(n)
    pk = {}
    for n, kids in gen_tree.STDLIB_PKGS.items():
        s = PathFinder.find_spec(n, sys.path)
        if s is not None and s.submodule_search_locations is not None and isinstance(s.loader, importlib.machinery.SourceFileLoader):
            pk[n] = kids
    mods = []
    for n in gen_tree.STDLIB_MODS:
        s = PathFinder.find_spec(n, sys.path)
        if s is not None and isinstance(s.loader, importlib.machinery.SourceFileLoader):
            mods.append(n)
    return {'compiled': comp, 'stdlib_pkgs': pk, 'stdlib_mods': mods}


def tree_features(tree):
    fb = gen_tree.file_backed(tree)
    real = {n: [x for x in v if x[2] != 'under-bare-directory'] for n, v in fb.items()}
    multi = [n for n, v in real.items() if len({i for i, _, _ in v}) > 1]
    flip = [n for n, v in real.items() if len({k for _, _, k in v}) > 1]
    depth = max(len(n.split('.')) for n in fb)
    std = set(gen_tree.COMPILED) | set(gen_tree.STDLIB_PKGS) | set(gen_tree.STDLIB_MODS)
    decoy = [n for n in fb if n.rpartition('.')[2] in std]
    ns = {'sourceless', 'compiled-link'}
    return {'sourceless': sum(1 for v in fb.values() for _, _, k in v if k == 'sourceless'),
            'ext': sum(1 for v in fb.values() for _, _, k in v if k == 'compiled-link'),
            'ns_shadow': sum(1 for v in fb.values() if {k for _, _, k in v} & ns and 'package' in {k for _, _, k in v}),
            'odd': sorted({gen_tree.name_category(c) for n in fb for c in n.split('.')} - {'plain'}),
            'bare_top': [b for b in tree.get('bare', []) if '/' not in b[1]],
            'bare_nested': [b for b in tree.get('bare', []) if '/' in b[1]],
            'roots': len(tree['roots']), 'multi': len(multi), 'flip': len(flip), 'depth': depth,
            'decoys': len(decoy), 'files': sum(len(r) for r in tree['roots'])}


def bare_position(part, tree, order, ft):
    """where, under this order, each top-level bare directory lies relative to the regular module/package of
    its name (the standard library comes after every root)."""
    before = after = 0
    for ri, name in ft['bare_top']:
        pos = order.index(ri)
        regular = [order.index(k) for k, files in enumerate(tree['roots']) if k != ri and
                   any(name + sfx in files for sfx in ('/__init__.py', '.py', '.pyc', '.@so'))]
        first = min(regular) if regular else len(order)          # else: only the standard library has it
        if pos < first:
            before += 1
        else:
            after += 1
    if before:
        part.count('layouts_with_bare_directory_BEFORE_the_regular_package_or_module')
    if after:
        part.count('layouts_with_bare_directory_AFTER_the_regular_package_or_module')
    if ft['bare_nested']:
        part.count('layouts_with_bare_directory_inside_a_package(namespace: filtered)')


def work_trees(arg):
    seed, start, count = arg
    part = core.Part()
    env = environment()
    part.count('compiled_names_usable', len(env['compiled']))
    budget = {}
    for i in range(start, start + count):
        rng = random.Random('%s:C07:tree:%d' % (seed, i))
        tree = gen_tree.gen_tree(rng, env['compiled'])
        ft = tree_features(tree)
        part.count('trees')
        part.hist('tree_roots', ft['roots'])
        part.hist('tree_max_components', ft['depth'])
        part.hist('tree_files', ft['files'] // 5 * 5)
        part.count('trees_with_same_name_in_two_roots', 1 if ft['multi'] else 0)
        part.count('trees_with_module_vs_package_flip', 1 if ft['flip'] else 0)
        part.count('trees_with_stdlib_decoy', 1 if ft['decoys'] else 0)
        part.count('trees_with_sourceless_module', 1 if ft['sourceless'] else 0)
        part.count('trees_with_bare_directory_decoy', 1 if ft['bare_top'] or ft['bare_nested'] else 0)
        part.count('trees_with_odd_module_names', 1 if ft['odd'] else 0)
        for cat in ft['odd']:
            part.hist('trees_by_odd_name_kind', cat)
        part.count('trees_with_real_extension_in_a_root', 1 if ft['ext'] else 0)
        part.count('trees_with_non_source_module_shadowing_a_package_of_another_root', 1 if ft['ns_shadow'] else 0)
        # one runtime-import layout per tree, under a package name this process has never seen
        part.case(['runtime', seed, i], nontrivial=True)
        run_runtime(part, gen_runtime_layout(random.Random('%s:C07:runtime:%d' % (seed, i)), env['compiled'],
                                             'vfrt_%s_%d' % (seed, i)))
        base = tempfile.mkdtemp(prefix='vf-')
        try:
            try:
                dirs = gen_tree.write_tree(tree, base)
            except gen_tree.TreeNotWritable:
                part.count('filtered:tree-needs-an-extension-module-this-interpreter-lacks')
                continue
            fresh_finders()
            for order in gen_tree.orders(tree):
                part.count('tree_orders')
                bare_position(part, tree, order, ft)
                nontrivial = (ft['roots'] >= 2 and ft['multi'] > 0) or ft['depth'] >= 3
                part.case(['tree', seed, i, order], nontrivial=nontrivial)
                mon = TreeMon(part, tree, order, dirs, budget)
                # one (tree, order) per chunk also goes through a real interpreter to validate the oracle
                env['selfcheck'] = (i == start and order == gen_tree.orders(tree)[-1])
                mon.run_all(random.Random('%s:C07:names:%d' % (seed, i)), env)
                if len(part.samples) < 1 and ft['multi'] and ft['roots'] >= 2:
                    part.sample({'tree': {('r%d' % k): sorted(r) for k, r in enumerate(tree['roots'])}, 'bare': tree.get('bare', []), 'order': order})
        finally:
            shutil.rmtree(base, ignore_errors=True)
            fresh_finders()
    part.count('enumerated_children_not_required:non-identifier', NON_IDENTIFIER_CHILDREN[0])
    part.count('enumerated_children_not_required:hard-keyword', HARD_KEYWORD_CHILDREN[0])
    NON_IDENTIFIER_CHILDREN[0] = HARD_KEYWORD_CHILDREN[0] = 0
    return part.dump()


def main(run):
    ntrees = run.pick(400, 16000)
    per = run.pick(10, 100)
    args = [[run.seed, s, min(per, ntrees - s)] for s in range(0, ntrees, per)]
    core.run_parts(run, 'vf.props.c07:work_trees', args, timeout=run.pick(300, 1800))
    # worker failures / oracle self-check mismatches make the run inconclusive; show them in the evidence
    # too, because finish() prints them only when there is no violation
    run.extra['harness_problems'] = [x[:600] for x in run.inconclusive[:8]]
    run.extra['workload'] = {
        'trees': ntrees,
        'orders': 'every permutation of the 1-3 source roots of each tree; a fresh Project per (tree, order)',
        'absolute_names': 'every file-backed dotted name of the tree (all roots), pkg.__init__, single-character misspellings, '
                          'absent names and absent children, module-not-package prefixes, real compiled stdlib names '
                          '(%s) and stdlib source names with their submodules (behind decoys when the tree has one), '
                          'names that exist only in sys.modules' % ', '.join(gen_tree.COMPILED),
        'relative_names': 'levels 1..depth+2 from every file that importlib loads under the order, bare dots / sibling / '
                          'dotted tail / absent tail; norm_package vs resolve_name, then get_nmodule vs the walk; the same obligations '
                          'again as 8 query histories per (tree, order), each on ONE long-lived Project (deepest / shallowest / '
                          'shuffled files first with levels ascending and descending, all queries shuffled, highest level first)',
        'uses_of_imported_names': "from up to 3 importing files per (tree, order), deepest first: 'from <dots> import sub' (levels 1..depth+2), "
                                  "'from <dots>pkg import sub', 'import a.b.c [as w]', 'from a.b import c as d', each followed by a use of the bound "
                                  "name: location() on 'name' must end in the file importlib resolves (or nowhere when importlib raises), assist on "
                                  "'name.' must propose that file's marker name and no other tree file's; candidate names exist at several levels "
                                  'of the importing file ancestry (level decoys)',
        'runtime_imports': 'one layout per tree under a never-used package name, its root on sys.path: real extension modules '
                           '(%s) linked into packages 1-3 levels deep, and a source module listed in dyn_modules by its dotted name; '
                           'supp is asked first (get_module, or assist after "from pkg.sub import _heapq"), then importlib.import_module '
                           'imports the same name: same module object, its attributes offered, no package __init__ attribute' % ', '.join(RUNTIME_EXTS),
        'proposals': "assist on 'import X.', 'from X.', 'from X import ' for every package and module of the tree, absent and "
                     'stdlib names, the top level, and relative packages; also after sourceless .pyc modules and real extension '
                     'modules placed in a root (both sides must say: not a package)',
    }
    return run.finish(
        rule='case = one generated tree under one order of its source roots (all queries above are made against it); '
             'non-trivial = the tree has >= 2 roots with some dotted name file-backed in more than one root, or module '
             'names of >= 3 components; distinct by (seed, tree index, order)',
        require=('resolutions_compared', 'oracle_found', 'oracle_absent', 'agree:same-source-file', 'agree:both-absent',
                 'agree:same-compiled-module', 'relative_names_compared', 'agree:relative-name', 'oracle_selfcheck_names',
                 'proposal_sets_compared', 'proposal_sets_with_required_children',
                 'trees_with_same_name_in_two_roots', 'trees_with_module_vs_package_flip', 'trees_with_stdlib_decoy',
                 'relative_history_answers_compared', 'proposal_sets_after_non_source_module',
                 'trees_with_non_source_module_shadowing_a_package_of_another_root',
                 'layouts_with_bare_directory_BEFORE_the_regular_package_or_module',
                 'layouts_with_bare_directory_AFTER_the_regular_package_or_module',
                 'use_locations_compared', 'use_attribute_sets_compared', 'agree:use-location-in-resolved-file',
                 'agree:use-location-empty-where-importlib-raises', 'agree:use-attributes', 'required_children_soft_keyword',
                 'runtime_imports_compared', 'runtime_proposal_sets_compared', 'agree:runtime-module-is-the-imported-one'),
        assumptions=[
            'oracle = importlib.machinery.PathFinder.find_spec walked per component over roots + sys.path of the worker '
            'process, importlib.util.resolve_name, pkgutil.iter_modules (CPython %d.%d); meta-path finders other than '
            'PathFinder (editable-install hooks, builtin/frozen importers) are not part of "source roots + sys.path"' % sys.version_info[:2],
            '__package__ of a tree file = dotted path of its directory; relative queries are made only from files that '
            'importlib itself loads for their dotted name under the order at hand (shadowed files are counted and skipped)',
            'names importlib does not find but that are in sys.modules may be answered with the loaded module, with the '
            "loaded module's own file, or with ImportError",
            "for 'from X import ' only the required-children direction is checked (module attributes are mixed in); a "
            'proposal counts as importable when the walk finds it (pkg.__init__ therefore counts)',
            'sourceless .pyc modules (py_compile) and links to real extension modules are placed in roots only as shadowing '
            'decoys: names below them and completions after them are compared, the sourceless module itself is never '
            'handed to supp (it would execute it) and no relative query is made from it',
            'domain filters (counted under filtered:*): PEP 420 portions met on the walk, names that resolve to a sourceless/other loader, '
            'relative specifiers from shadowed files; generated trees never contain namespace directories, x.py next to '
            'x/, two module files of one stem in a directory, nested roots, or fake extension files',
            'a child that is an identifier but a HARD keyword (class.py) is importable through importlib yet cannot be written in '
            'an import statement: it is never required among the proposals and no import line is generated through it; soft '
            'keywords (match, type, case, _) are ordinary module names and are required',
            'bare directories (no __init__.py; empty, data files, stray .py files) are decoys next to a regular module/package '
            'of the same name in another root or in the standard library, so importlib never makes a top-level namespace '
            'package of them; a bare directory inside a regular package IS a namespace portion for importlib and every name '
            'through it is filtered; no relative query is made from a stray file of a bare directory',
        ],
        exhaustive=False)


# ---------------------------------------------------------------------------------------
# replay

def replay(run, path):
    with open(path) as f:
        data = json.load(f)
    part = core.Part()
    done = set()
    for v in data['violations']:
        c = v['case']
        key = json.dumps(c, sort_keys=True)
        if key in done:
            continue
        done.add(key)
        if c.get('type') == 'runtime':
            lk = json.dumps(c['layout'], sort_keys=True)
            if lk not in done:
                done.add(lk)
                part.case(lk[:300], nontrivial=True)
                run_runtime(part, c['layout'])
            continue
        tree, order, q = c['tree'], c['order'], c['query']
        part.case(key[:300], nontrivial=True)
        base = tempfile.mkdtemp(prefix='vf-')
        try:
            dirs = gen_tree.write_tree(tree, base)
            fresh_finders()
            mon = TreeMon(part, tree, order, dirs)
            if q['type'] == 'abs':
                mon.check_abs(q['name'], q.get('kind'))
            elif q['type'] == 'rel':
                mon.check_rel(q['spec'], q['file'][0], q['file'][1])
            elif q['type'] == 'rel-history':
                hist = [list(x) for x in q['history']]
                part.count('relative_history_answers_compared', len(hist))
                for idx, got, want in mon.run_history(hist):
                    mon.violation('norm-package-depends-on-history:replayed',
                                  'step %d of the recorded history: norm_package(%r, <r%d>/%s) gives %r, resolve_name gives %r' % (
                                      idx, hist[idx][0], hist[idx][1], hist[idx][2], got, want), q)
            elif q['type'] == 'use':
                mon.check_use(q['q'], q['file'][0], q['file'][1])
            elif q['type'] == 'assist':
                f = q.get('file') or [None, None]
                mon.check_assist(q['form'], q['pkg'], f[0], f[1], q.get('prefix', ''))
        finally:
            shutil.rmtree(base, ignore_errors=True)
            fresh_finders()
    run.merge(part.dump())
    for v in run.violations:
        print('REPLAYED', v['mech'], v['what'][:300])
    return 1 if run.violations else 0
