"""C08 - the API is total: every text and cursor position gets an answer.

Monitor: the real supp.linter.lint / supp.assistant.assist / supp.assistant.location are called
on real files, typing-state mutations of them, generated programs and a hostile list while

 * an independent oracle (ast.parse on the text, and on the text with the cursor marker spliced
   in under the tokenizer's line model) decides what E01 row / which SyntaxError is allowed,
 * shape predicates check the returned values,
 * a sys.monitoring LINE counter on supp's code objects bounds every call (B(n) = 2e7 + 2e4*n
   line events, retried once with 8*B),
 * the worker pool reports a worker that dies.

Mechanism labels: '<entry>:<exception type>:<innermost supp frame>:<trigger>' where the trigger is
derived from the exception itself (AttributeError: '<type of object>.<attribute>', others: the
normalised message) and, for failures inside supp.project, from where the cursor is.
"""
import collections
import copy
import gc
import hashlib
import json
import math
import os
import random
import re
import shutil
import sys
import tempfile
import types
import warnings

from vf import core, corpus
from vf import c08_inputs as ci

DEPTH_LIMIT = 200          # expression nesting from which a RecursionError is "nesting beyond the recursion limit"
STORE_PER_MECH = 2         # violations kept per mechanism and worker part (instances are always counted)
KEEP_PER_MECH = 6          # ... and per run (the smallest inputs)


def budget_for(text, files=None):
    """B(n) for the edited text plus the files of a generated project (they are input too)"""
    n = len(text.encode('utf-8', 'surrogatepass')) + sum(len(t.encode('utf-8', 'surrogatepass')) for t in (files or {}).values())
    return int(2e7 + 2e4 * n)


class BudgetExceeded(BaseException):
    pass


# ---------------------------------------------------------------------------------------------
# step counter: LINE events on supp's code objects

class Steps(object):
    TOOL = 4
    _installed = None
    _snap = None
    epoch = 0            # bumped after every injected abort: long-lived Project objects are dropped

    def __init__(self):
        import supp.assistant, supp.linter, supp.nast, supp.evaluator, supp.name, supp.scope  # noqa
        import supp.project, supp.util, supp.module, supp.merged_dict, supp.compat  # noqa
        self.dir = os.path.join(core.REPO, 'supp') + os.sep
        self.state = [0, 1 << 62]
        state = self.state

        def on_line(code, line):
            state[0] += 1
            if state[0] > state[1]:
                raise BudgetExceeded()
        mon = sys.monitoring
        mon.use_tool_id(self.TOOL, 'vf-c08')
        mon.register_callback(self.TOOL, mon.events.LINE, on_line)
        self.codes = self._codes()
        for c in self.codes:
            mon.set_local_events(self.TOOL, c, mon.events.LINE)

    @classmethod
    def get(cls):
        if cls._installed is None:
            cls._installed = cls()
        return cls._installed

    def _codes(self):
        seen = {}

        def add(c):
            if id(c) in seen:
                return
            seen[id(c)] = c
            for k in c.co_consts:
                if isinstance(k, types.CodeType):
                    add(k)
        for o in gc.get_objects():
            if isinstance(o, types.FunctionType) and o.__code__.co_filename.startswith(self.dir):
                add(o.__code__)
        return list(seen.values())

    def snapshot(self):
        """class- and module-level mutable state of supp (counters, caches): an abort injected at an arbitrary line can
        leave it inconsistent (e.g. inside a finally block that restores it), so it is put back after every abort"""
        snap = []
        for name, mod in list(sys.modules.items()):
            if name != 'supp' and not name.startswith('supp.'):
                continue
            holders = [mod] + [v for v in vars(mod).values() if isinstance(v, type) and getattr(v, '__module__', None) == name]
            for h in holders:
                for k, v in list(vars(h).items()):
                    if k.startswith('__'):
                        continue
                    if type(v) in (bool, int, float, str, type(None)):
                        snap.append((h, k, v, False))
                    elif type(v) in (dict, list, set):
                        snap.append((h, k, copy.copy(v), True))
        return snap

    def restore(self, snap):
        for h, k, v, container in snap:
            try:
                setattr(h, k, copy.copy(v) if container else v)
            except (AttributeError, TypeError):
                pass

    def start(self, budget):
        self.state[0] = 0
        self.state[1] = budget

    def stop(self):
        n = self.state[0]
        self.state[1] = 1 << 62
        return n


# ---------------------------------------------------------------------------------------------
# project contexts

class Ctx(object):
    """where a text is edited: a directory that already exists, or a generated file tree"""

    def __init__(self, root, fname, files=None, workload=''):
        self.root = root            # absolute directory given to Project([...])
        self.fname = fname          # path relative to root, absolute path, or None
        self.files = files          # {rel: text} when the tree was generated, else None
        self.workload = workload
        self.extra = {}             # goes into every case (e.g. the scenario a request was part of)
        self._project = None
        self._epoch = Steps.epoch

    @property
    def filename(self):
        if self.fname is None:
            return None
        return self.fname if os.path.isabs(self.fname) else os.path.join(self.root, self.fname)

    def project(self, fresh=False):
        from supp.project import Project
        if fresh:
            return Project([self.root])
        if self._project is None or self._epoch != Steps.epoch:
            self._project = Project([self.root])
            self._epoch = Steps.epoch
        return self._project

    def describe(self):
        if self.files is None:
            return dict(self.extra, root={'kind': 'dir', 'path': self.root}, fname=self.fname, workload=self.workload)
        return dict(self.extra, root={'kind': 'files', 'files': self.files}, fname=self.fname, workload=self.workload)


def write_tree(root, files):
    for rel, text in files.items():
        p = os.path.join(root, rel)
        os.makedirs(os.path.dirname(p), exist_ok=True)
        with open(p, 'w', encoding='utf-8') as f:
            f.write(text)


# ---------------------------------------------------------------------------------------------
# labels

_ATTR_RE = re.compile(r"'([\w.]+)' object has no attribute '(\w+)'")


def norm_message(msg):
    msg = re.sub(r"'[^']*'|\"[^\"]*\"", ' ', msg)
    msg = re.sub(r'/[^\s:()]+|<[^>\s]*>', ' ', msg)
    msg = re.sub(r'\([^)]*\)', ' ', msg)
    words = re.findall(r'[A-Za-z_]+', msg)
    return '-'.join(w.lower() for w in words[:6]) or 'no-message'


def exc_trigger(e):
    if isinstance(e, AttributeError):
        name = getattr(e, 'name', None)
        if name is not None and hasattr(e, 'obj'):
            try:
                return '%s.%s' % (type(e.obj).__name__, name)
            except Exception:
                pass
        m = _ATTR_RE.search(str(e))
        if m:
            return '%s.%s' % (m.group(1), m.group(2))
        return norm_message(str(e))
    if isinstance(e, (ImportError, KeyError, NameError, LookupError)) and not isinstance(e, IndexError):
        return 'nomsg'
    if isinstance(e, UnicodeError):
        return 'nomsg'
    return norm_message(str(e))


def supp_frame(tb, suppdir):
    """(module.qualname, file:line, caller) of the innermost frame that runs supp code; caller = the supp
    frame from which supp.project was entered when the innermost frame is in supp.project, else None"""
    frames = []
    while tb is not None:
        code = tb.tb_frame.f_code
        if code.co_filename.startswith(suppdir):
            mod = os.path.splitext(os.path.basename(code.co_filename))[0]
            frames.append(('%s.%s' % (mod, getattr(code, 'co_qualname', code.co_name)),
                           '%s:%d' % (os.path.basename(code.co_filename), tb.tb_lineno)))
        tb = tb.tb_next
    if not frames:
        return ('outside-supp', '?', None)
    # generic containers / memoisers say nothing about the mechanism: name the frame that used them
    generic = ('merged_dict.', 'util.cached_property.', 'util.context_property.', 'scope.loop_aware_cached_property.')
    while len(frames) > 1 and frames[-1][0].startswith(generic):
        frames.pop()
    via = None
    if frames[-1][0].startswith('project.'):
        for f in reversed(frames):
            if not f[0].startswith('project.'):
                via = f[0]
                break
    return frames[-1] + (via,)


def recursion_cycle(tb, suppdir):
    """the supp classes / functions whose frames repeat on the stack of a RecursionError (>= 5 times, and present in
    its last 150 supp frames): a signature of the cycle that does not depend on where the stack happened to overflow"""
    names = []
    while tb is not None:
        code = tb.tb_frame.f_code
        if code.co_filename.startswith(suppdir):
            names.append(getattr(code, 'co_qualname', code.co_name))
        tb = tb.tb_next
    cnt = collections.Counter(names)
    tail = set(names[-150:])
    generic = ('cached_property.__get__', 'context_property.<locals>.inner', 'visitor.<locals>.func',
               'loop_aware_cached_property.<locals>.getter')
    # class level (first component of the qualified name): which method of a class closes the cycle depends on
    # the entry point and on where the cursor is, the classes involved do not
    cyc = sorted(set(n.split('.')[0] for n in tail if cnt[n] >= 5 and n not in generic))
    return '+'.join(cyc[:10]) or 'no-repeating-supp-frame'


def tb_summary(tb, suppdir, limit=8):
    out = []
    while tb is not None:
        code = tb.tb_frame.f_code
        fn = code.co_filename
        short = 'supp/' + os.path.basename(fn) if fn.startswith(suppdir) else os.path.basename(fn)
        out.append('%s:%d %s' % (short, tb.tb_lineno, getattr(code, 'co_qualname', code.co_name)))
        tb = tb.tb_next
    return out[-limit:]


def cursor_context(text, pos, L):
    ln, col = pos
    line = L.lines[ln - 1][:col] if L.inside(pos) else ''
    if re.match(r'\s*from\s', line) and ' import ' not in line:
        return 'cursor-in-from-prefix'
    full = L.lines[ln - 1] if L.inside(pos) else ''
    if re.match(r'\s*(from|import)\b', full):
        return 'cursor-on-import-line'
    return 'cursor-elsewhere'


# ---------------------------------------------------------------------------------------------
# shape predicates

def _is_int(x):
    return type(x) is int


def lint_shape(rows):
    if type(rows) is not list:
        return 'result-not-a-list'
    for r in rows:
        if type(r) is not tuple or len(r) != 5:
            return 'row-not-a-5-tuple'
        code, msg, line, col, _extra = r
        if not isinstance(code, str):
            return 'row-code-not-str'
        if not isinstance(msg, str):
            return 'row-message-not-str'
        if code != 'E01' and not (_is_int(line) and _is_int(col)):
            return 'row-position-not-int'
    return None


def assist_shape(r):
    if type(r) is not tuple or len(r) != 2:
        return 'result-not-a-2-tuple'
    prefix, names = r
    if not isinstance(prefix, str):
        return 'prefix-not-str'
    if type(names) is not list:
        return 'names-not-a-list'
    for n in names:
        if not isinstance(n, str):
            return 'name-not-str'
    if names != sorted(names):
        return 'names-not-sorted'
    return None


def _loc_shape(d):
    if type(d) is not dict:
        return 'item-not-a-dict'
    if set(d) != {'loc', 'file'}:
        return 'item-keys-differ'
    loc = d['loc']
    if type(loc) not in (tuple, list) or len(loc) != 2 or not (_is_int(loc[0]) and _is_int(loc[1])):
        return 'loc-not-a-pair-of-ints'
    if not isinstance(d['file'], str):
        return 'file-not-str'
    return None


def location_shape(r):
    if type(r) is not list:
        return 'result-not-a-list'
    for item in r:
        if type(item) is list:
            if not item:
                return 'empty-alternatives-list'
            for d in item:
                bad = _loc_shape(d)
                if bad:
                    return 'alternative-' + bad
        else:
            bad = _loc_shape(item)
            if bad:
                return bad
    return None


# ---------------------------------------------------------------------------------------------
# the monitor

class Mon(object):
    def __init__(self, part):
        from supp import assistant, linter
        self.p = part
        self.steps = Steps.get()
        self.suppdir = self.steps.dir
        self.fn = {'lint': linter.lint, 'assist': assistant.assist, 'location': assistant.location}
        self.stored = collections.Counter()
        self.max_steps = {}          # entry -> [steps, budget, bytes]
        self.parse_cache = {}
        self.dead_texts = set()
        self.check_changes = False
        if Steps._snap is None:
            Steps._snap = self.steps.snapshot()

    # -- bookkeeping ----------------------------------------------------------------------
    def violate(self, mech, what, case):
        self.p.hist('violation_instances', mech)
        self.p.hist('violation_instances_by_workload', '%s | %s' % (str(case.get('workload')).split(':')[0], mech))
        if self.stored[mech] < STORE_PER_MECH:
            self.stored[mech] += 1
            self.p.violation(mech, what, case)

    def outcome_of(self, text, filename):
        key = hashlib.sha1(text.encode('utf-8', 'surrogatepass')).digest()
        r = self.parse_cache.get(key)
        if r is None:
            if len(self.parse_cache) > 64:
                self.parse_cache.clear()
            r = self.parse_cache[key] = ci.parse_outcome(text, filename)
        return r

    def _call(self, entry, project, text, pos, filename, budget):
        """-> ('ok', value, steps) | ('exc', exception, steps) | ('budget', None, steps)"""
        fn = self.fn[entry]
        st = self.steps
        st.start(budget)
        try:
            try:
                if self.check_changes:
                    # as the server does around every request
                    with project.check_changes():
                        v = fn(project, text, filename) if entry == 'lint' else fn(project, text, tuple(pos), filename)
                elif entry == 'lint':
                    v = fn(project, text, filename)
                else:
                    v = fn(project, text, tuple(pos), filename)
            finally:
                n = st.stop()
        except BudgetExceeded as e:
            where = self.first_callee(e.__traceback__)
            del e
            self.steps.restore(Steps._snap)
            Steps.epoch += 1
            self.p.count('aborts_injected(supp class-level state restored, projects dropped)')
            return ('budget', where, n)
        except KeyboardInterrupt:
            raise
        except BaseException as e:
            return ('exc', e, n)
        return ('ok', v, n)

    def first_callee(self, tb):
        """the first supp function outside assistant.py / linter.py on the stack of a call that ran out of budget:
        which machinery the entry point handed the work to (stable, unlike the innermost frame)"""
        while tb is not None:
            code = tb.tb_frame.f_code
            fn = code.co_filename
            if fn.startswith(self.suppdir) and os.path.basename(fn) not in ('assistant.py', 'linter.py'):
                return getattr(code, 'co_qualname', code.co_name)
            tb = tb.tb_next
        return 'entry-function'

    def invoke(self, entry, ctx, text, pos):
        """call with the step budget; a call over budget is repeated once with 8*B on a fresh project"""
        p = self.p
        B = budget_for(text, ctx.files)
        tkey = hashlib.sha1(text.encode('utf-8', 'surrogatepass')).digest()
        if tkey in self.dead_texts:
            # one non-terminating position was reported for this text; each further one would cost 9*B line events
            p.count('calls_skipped_after_non_termination_on_same_text')
            return ('budget', None, 0)
        p.count('calls:' + entry)
        kind, val, n = self._call(entry, ctx.project(), text, pos, ctx.filename, B)
        if kind == 'budget':
            p.count('over_budget_first_run')
            kind, val, n = self._call(entry, ctx.project(fresh=True), text, pos, ctx.filename, 8 * B)
            if kind == 'budget':
                case = dict(ctx.describe(), entry=entry, text=text, pos=list(pos) if pos else None)
                self.violate('%s:no-termination-within-budget:in=%s' % (entry, val),
                             '%s did not return within 8*B = %d line events of supp code, busy below %s (%s, %d bytes, pos %s)' % (
                                 entry, 8 * B, val, ctx.workload, len(text), pos), case)
                self.dead_texts.add(tkey)
                return ('budget', None, n)
        p.hist('steps_log10:' + entry, int(math.log10(n)) if n > 0 else 0)
        m = self.max_steps.get(entry)
        if m is None or n * m[1] > m[0] * B:
            self.max_steps[entry] = [n, B, len(text)]
        return (kind, val, n)

    # -- unexpected exceptions ---------------------------------------------------------------
    def unexpected(self, entry, ctx, text, pos, e, L, tag):
        p = self.p
        tb = e.__traceback__
        frame, where, via = supp_frame(tb, self.suppdir)
        et = type(e).__name__
        trig = exc_trigger(e)
        mech = '%s:%s:%s:%s' % (entry, et, frame, trig)
        if isinstance(e, RecursionError):
            mech = '%s:RecursionError:cycle=%s' % (entry, recursion_cycle(tb, self.suppdir))
            texts = [text] + list((ctx.files or {}).values())
            if max([ci.ast_depth(t) or 0 for t in texts]) >= DEPTH_LIMIT:
                # statements nested that deep (an elif chain; expression nesting that deep is outside the domain):
                # every recursive walk over the tree overflows, which one does first says nothing about the mechanism
                mech = '%s:RecursionError:statement-nesting>=%d' % (entry, DEPTH_LIMIT)
            nbody = max(ci.longest_body(t) for t in texts)
            if nbody >= 100:
                # not a cycle: recursion along a long chain of sequential regions
                mech += ':longest-statement-list>=100'
        if via:
            mech += ':via-' + via
        if frame.startswith('project.') or isinstance(e, ImportError):
            mech += ':' + (cursor_context(text, pos, L) if pos else 'no-cursor')
        summary = tb_summary(tb, self.suppdir)
        msg = str(e)[:200]
        del tb
        # does it depend on what the long-lived project had cached?
        kind2, val2, _ = self._call(entry, ctx.project(fresh=True), text, pos, ctx.filename, 8 * budget_for(text, ctx.files))
        fresh_same = kind2 == 'exc' and type(val2).__name__ == et
        p.hist('unexpected_exception_types', '%s:%s' % (entry, et))
        case = dict(ctx.describe(), entry=entry, text=text, pos=list(pos) if pos else None, tag=tag,
                    exception='%s: %s' % (et, msg), traceback=summary, raised_at=where,
                    reproduces_on_fresh_project=fresh_same)
        shown = text if len(text) <= 120 else '<%d chars, %s>' % (len(text), ctx.fname)
        self.violate(mech, '%s(%r%s) raised %s: %s  [%s in %s]%s' % (
            entry, shown, ', %s' % (tuple(pos),) if pos else '', et, msg, where, frame,
            '' if fresh_same else '  (NOT reproduced on a fresh Project)'), case)

    def recursion_outside(self, text, pos, L, ctx):
        """RecursionError: outside the domain when the (marked) text nests deeper than DEPTH_LIMIT"""
        for t in (ctx.files or {}).values():        # the other files of a generated project count too
            d = ci.expr_depth(t)
            if d is not None and d >= DEPTH_LIMIT:
                return True
        for t in ([ci.marked_text(text, pos, L)] if pos else []) + [text]:
            d = ci.expr_depth(t, ctx.filename)
            if d is not None:
                return d >= DEPTH_LIMIT
        return False

    # -- lint ---------------------------------------------------------------------------------
    def lint(self, ctx, text, tag=''):
        """-> parse outcome of the text (None if outside the domain)"""
        p = self.p
        out = self.outcome_of(text, ctx.filename)
        if out[0] == 'outside':
            p.count('outside_domain:text_not_parseable_by_design(%s)' % out[1])
            return None
        kind, val, n = self.invoke('lint', ctx, text, None)
        if kind == 'budget':
            return out
        if kind == 'exc':
            if isinstance(val, MemoryError):
                p.inconclusive.append('MemoryError in lint although ast.parse accepted the text (%s)' % ctx.workload)
                return out
            if isinstance(val, RecursionError) and self.recursion_outside(text, None, None, ctx):
                p.count('outside_domain:nesting_beyond_recursion_limit')
                return out
            if isinstance(val, SyntaxError):
                # lint reports syntax errors of the text as E01 and has no business raising one
                frame, where, _via = supp_frame(val.__traceback__, self.suppdir)
                mech = 'lint:SyntaxError-but-text-parses' if out[0] == 'ok' else 'lint:SyntaxError-raised-instead-of-E01'
                case = dict(ctx.describe(), entry='lint', text=text, pos=None, tag=tag, exception='%s: %s' % (type(val).__name__, val),
                            raised_at=where, traceback=tb_summary(val.__traceback__, self.suppdir))
                self.violate(mech, 'lint raised %s(%s) at %s; ast.parse of the text: %s' % (type(val).__name__, val, where, out[0]), case)
                return out
            self.unexpected('lint', ctx, text, None, val, ci.Lines(text), tag)
            return out
        p.count('lint_results_checked')
        case = dict(ctx.describe(), entry='lint', text=text, pos=None, tag=tag)
        bad = lint_shape(val)
        if bad:
            self.violate('lint:malformed:' + bad, 'lint returned %s: %r' % (bad, repr(val)[:200]), case)
            return out
        e01 = [r for r in val if r[0] == 'E01']
        for r in val:
            p.hist('lint_codes', r[0])
        if out[0] == 'ok':
            p.count('e01_oracle:parses')
            if e01:
                self.violate('lint:E01-on-text-that-parses', 'ast.parse accepts the text but lint reports %r' % (e01[:2],), case)
            else:
                p.count('e01_agreements')
        else:
            p.count('e01_oracle:syntax_error')
            want = out[1:]
            if not e01:
                self.violate('lint:E01-missing', 'ast.parse raises SyntaxError%r but lint has no E01 row' % (want,), case)
            elif len(e01) > 1:
                self.violate('lint:E01-more-than-one', 'lint reports %d E01 rows' % len(e01), case)
            else:
                got = e01[0][1:4]
                if tuple(got) != tuple(want):
                    field = [f for f, a, b in zip(('msg', 'lineno', 'offset'), got, want) if a != b]
                    self.violate('lint:E01-differs:' + '+'.join(field),
                                 'E01 row %r but CPython says %r' % (got, want), case)
                else:
                    p.count('e01_agreements')
                    p.count('e01_agreements_on_syntax_errors')
        return out

    # -- assist / location ------------------------------------------------------------------------
    def cursor(self, entry, ctx, text, pos, L, tag=''):
        p = self.p
        pos = tuple(pos)
        if not L.inside(pos):
            p.count('outside_domain:cursor_not_inside_text')
            return
        kind, val, n = self.invoke(entry, ctx, text, pos)
        if kind == 'budget':
            return
        case = None
        if kind == 'ok':
            p.count('results_checked:' + entry)
            bad = assist_shape(val) if entry == 'assist' else location_shape(val)
            if bad:
                case = dict(ctx.describe(), entry=entry, text=text, pos=list(pos), tag=tag)
                self.violate('%s:malformed:%s' % (entry, bad), '%s returned %s: %s' % (entry, bad, repr(val)[:200]), case)
                return
            if entry == 'assist':
                p.hist('assist_result', 'empty' if not val[1] else 'names')
            else:
                p.hist('location_result', 'empty' if not val else ('alternatives' if any(type(i) is list for i in val) else 'single'))
            return
        e = val
        mout = ci.parse_outcome(ci.marked_text(text, pos, L), ctx.filename)
        if mout[0] == 'outside':
            p.count('outside_domain:marked_text_not_parseable_by_design(%s)' % mout[1])
            return
        if isinstance(e, SyntaxError):
            p.count('syntaxerror_raised:' + entry)
            if mout[0] == 'syntax':
                p.count('syntaxerror_agreements')
                return
            chars = ci.splitlines_chars(text)
            frame, where, _via = supp_frame(e.__traceback__, self.suppdir)
            case = dict(ctx.describe(), entry=entry, text=text, pos=list(pos), tag=tag,
                        exception='SyntaxError: %s' % e, raised_at=where)
            self.violate('%s:SyntaxError-but-marked-text-parses:%s' % (entry, '+'.join(chars) or 'no-splitlines-only-char'),
                         '%s raised SyntaxError(%s) at %s but the text with the marker at %s parses' % (entry, e, where, pos), case)
            return
        if isinstance(e, RecursionError) and self.recursion_outside(text, pos, L, ctx):
            p.count('outside_domain:nesting_beyond_recursion_limit')
            return
        if isinstance(e, MemoryError):
            # the parser's own MemoryError on the marked text was handled above (outside the domain); a real one is no verdict
            p.inconclusive.append('MemoryError in %s at %s (%s)' % (entry, pos, ctx.workload))
            return
        self.unexpected(entry, ctx, text, pos, e, L, tag)

    def both(self, ctx, text, pos, L, tag=''):
        self.cursor('assist', ctx, text, pos, L, tag)
        self.cursor('location', ctx, text, pos, L, tag)

    def dump(self):
        d = self.p.dump()
        d['c08_max_steps'] = self.max_steps
        return d


# ---------------------------------------------------------------------------------------------
# workers

def _silence():
    warnings.simplefilter('ignore')


def _root_of(path):
    std = corpus.stdlib_root()
    if path.startswith(std + os.sep):
        return std
    return core.REPO


def work_corpus(arg):
    """real files: lint, stratified cursor positions, typing-state mutations"""
    _silence()
    part = core.Part()
    m = Mon(part)
    ctxs = {}
    seed, npos, nmut = arg['seed'], arg['npos'], arg['nmut']
    for path in arg['files']:
        text = corpus.read_text(path)
        if text is None:
            part.count('files_skipped_undecodable_or_invalid')
            continue
        root = _root_of(path)
        base = ctxs.get(root)
        if base is None:
            base = ctxs[root] = Ctx(root, None, workload='corpus')
        ctx = Ctx(root, path, workload='corpus')
        ctx.project = lambda fresh=False, base=base: base.project(fresh)   # one long-lived project per root and worker chunk
        L = ci.Lines(text)
        rel = os.path.relpath(path, root)
        rng = random.Random('%s:C08:corpus:%s' % (seed, rel))
        part.count('files')
        m.lint(ctx, text, 'file')
        classes = set()
        for cls, pos in ci.pick_positions(text, rng, npos, L):
            part.hist('position_class', cls)
            classes.add(cls)
            m.both(ctx, text, pos, L, cls)
        part.case('file:' + rel, nontrivial=len(classes) >= 6)
        mctx = Ctx(root, path, workload='mutation')
        mctx.project = lambda fresh=False, base=base: base.project(fresh)
        for i, mu in enumerate(ci.mutations(text, random.Random('%s:C08:mut:%s' % (seed, rel)), nmut, L)):
            part.hist('mutation_kind', mu['kind'])
            mt = mu['text']
            out = m.outcome_of(mt, mctx.filename)
            if out[0] == 'ok' and len(mt) > arg.get('lint_mut_max', 1 << 30):
                # a full lint of a big text that parses costs as much as ~50 cursor requests: only the cursor here
                part.count('mutations_of_big_files_not_linted(cursor requests only)')
            else:
                out = m.lint(mctx, mt, mu['kind'])
                if out is None:
                    continue
            part.hist('mutation_parses', '%s:%s' % (mu['kind'], out[0]))
            ML = ci.Lines(mt)
            m.both(mctx, mt, mu['pos'], ML, mu['kind'])
            part.case('mut:%s:%d' % (rel, i), nontrivial=True)
    if len(part.samples) < 1 and arg['files']:
        part.sample({'workload': 'corpus', 'file': arg['files'][0], 'positions_per_file': npos, 'mutations_per_file': nmut})
    return m.dump()


def _all_positions(m, ctx, text, tag, part, stride=1):
    L = ci.Lines(text)
    k = 0
    for i, pos in enumerate(L.all_positions()):
        if i % stride:
            continue
        m.both(ctx, text, pos, L, tag)
        k += 1
    part.count('texts_with_every_position')
    part.count('positions_in_exhaustive_texts', k)


def work_gen(arg):
    """G-prog programs: lint + every (line, col) for the small ones, stratified positions for the others"""
    _silence()
    from vf import gen_prog, dynexec
    part = core.Part()
    m = Mon(part)
    proj = dynexec.Project()
    try:
        files = dict(gen_prog.PROJECT_FILES)
        for i in range(arg['start'], arg['start'] + arg['count']):
            rng = random.Random('%s:C08:gen:%d' % (arg['seed'], i))
            mode = rng.choice(['c01', 'c02'])
            size = rng.choice(arg['sizes'])
            text = gen_prog.generate(rng, mode, size)['text']
            ctx = Ctx(proj.root, 'app/main.py', files=files, workload='gen-prog:%s:%s' % (mode, size))
            part.hist('gen_prog_size', size)
            m.lint(ctx, text, 'gen')
            L = ci.Lines(text)
            if size in arg['exhaustive_sizes']:
                _all_positions(m, ctx, text, 'gen-all', part)
            else:
                for cls, pos in ci.pick_positions(text, rng, arg['npos'], L):
                    part.hist('position_class', cls)
                    m.both(ctx, text, pos, L, cls)
            for mu in ci.mutations(text, rng, arg['nmut'], L):
                part.hist('mutation_kind', mu['kind'])
                if m.lint(ctx, mu['text'], mu['kind']) is not None:
                    m.both(ctx, mu['text'], mu['pos'], ci.Lines(mu['text']), mu['kind'])
            part.case('gen:%d' % i, nontrivial=len(L) >= 8)
            if not part.samples:
                part.sample({'workload': 'gen-prog', 'mode': mode, 'size': size, 'lines': len(L), 'text_head': text[:300]})
    finally:
        proj.close()
    return m.dump()


def work_class(arg):
    """G-class projects: the generator's queries plus stratified positions in every file"""
    _silence()
    try:
        from vf import gen_class
    except Exception:
        part = core.Part()
        part.count('gen_class_not_importable')
        return part.dump()
    part = core.Part()
    m = Mon(part)
    for i in range(arg['start'], arg['start'] + arg['count']):
        rng = random.Random('%s:C08:class:%d' % (arg['seed'], i))
        pr = gen_class.gen_project(rng)
        tmp = tempfile.mkdtemp(prefix='vf-')
        try:
            write_tree(tmp, pr['files'])
            for q in pr['queries']:
                for attr in (None, 'name'):
                    text, pos = gen_class.query_text(pr, q, attr)
                    ctx = Ctx(tmp, q['file'], files=pr['files'], workload='gen-class-query:' + q['kind'])
                    part.hist('class_query_kind', q['kind'])
                    m.both(ctx, text, pos, ci.Lines(text), 'query')
            for rel, text in sorted(pr['files'].items()):
                ctx = Ctx(tmp, rel, files=pr['files'], workload='gen-class-file')
                m.lint(ctx, text, 'gen-class')
                L = ci.Lines(text)
                for cls, pos in ci.pick_positions(text, rng, arg['npos'], L):
                    part.hist('position_class', cls)
                    m.both(ctx, text, pos, L, cls)
            part.case('class:%d' % i, nontrivial=len(pr['files']) >= 2)
        finally:
            shutil.rmtree(tmp, ignore_errors=True)
    return m.dump()


def _run_hostile(m, part, h, stride=1, family='hostile'):
    tmp = tempfile.mkdtemp(prefix='vf-')
    try:
        write_tree(tmp, h['files'])
        ctx = Ctx(tmp, h['fname'], files=h['files'], workload='%s:%s' % (family, h['name']))
        if m.lint(ctx, h['text'], h['name']) is None:
            # outside the domain (CPython itself cannot parse-or-reject the text): what supp does is recorded, not judged
            L = ci.Lines(h['text'])
            for entry, pos in (('lint', None), ('assist', (1, 1)), ('location', (1, 1))):
                if pos is None or L.inside(pos):
                    kind, val, _ = m._call(entry, ctx.project(), h['text'], pos, ctx.filename, budget_for(h['text'], h['files']))
                    part.hist('outside_domain_outcomes(observation only)', '%s on %s -> %s' % (
                        entry, h['name'].rsplit(':', 1)[0], type(val).__name__ if kind == 'exc' else kind))
            return
        if h.get('positions') is None:
            _all_positions(m, ctx, h['text'], h['name'], part, stride)
        else:
            L = ci.Lines(h['text'])
            for pos in h['positions']:
                m.both(ctx, h['text'], pos, L, h['name'])
    finally:
        shutil.rmtree(tmp, ignore_errors=True)


def work_hostile(arg):
    _silence()
    part = core.Part()
    m = Mon(part)
    fam = arg.get('family', 'hostile')
    H = ci.family(fam, arg.get('tier', 'quick'))
    for idx in arg['indexes']:
        h = H[idx]
        if fam == 'hostile':
            part.hist('hostile_family', re.sub(r'(-\d+)?(-row\d+)?(:unfinished-row\d+)?$', '', h['name']))
        else:
            part.hist('family:' + fam, ':'.join(h['name'].split(':')[1:3]))
        _run_hostile(m, part, h, family=fam)
        part.case('%s:%s' % (fam, h['name']), nontrivial=True)
    if arg.get('outside'):
        # cursors outside the text: not judged (the property quantifies over positions inside the text), only recorded
        from supp import assistant
        from supp.project import Project
        for text in ('x = 1', 'x = 1\n', ''):
            n = len(ci.Lines(text))
            for pos in ((n + 1, 0), (n + 5, 0), (1, len(text) + 3), (0, 0), (-1, 0), (1, -1)):
                for name, fn in (('assist', assistant.assist), ('location', assistant.location)):
                    try:
                        fn(Project(['/nonexistent']), text, pos, None)
                        r = 'returns'
                    except BaseException as e:
                        r = type(e).__name__
                    part.hist('outside_domain:cursor_not_inside_text(observation only)',
                              '%s(%r, %s) -> %s' % (name, text, pos, r))
    part.sample({'workload': fam, 'names': [H[i]['name'] for i in arg['indexes'][:5]]})
    return m.dump()


def compiled_text(modname):
    """a text that touches every type and a few callables of a compiled module"""
    import importlib
    try:
        mod = importlib.import_module(modname)
    except Exception:
        return None
    if getattr(mod, '__file__', None) and mod.__file__.endswith('.py'):
        return None
    names = sorted(k for k in vars(mod) if k.isidentifier() and not k.startswith('__'))
    tps = [k for k in names if isinstance(getattr(mod, k), type)][:60]
    fns = [k for k in names if callable(getattr(mod, k)) and not isinstance(getattr(mod, k), type)][:4]
    lines = ['import %s' % modname, modname, '%s.zz' % modname]
    for k in tps + fns:
        lines += ['%s.%s' % (modname, k), 'v_%s = %s.%s()' % (k, modname, k), 'v_%s.zz' % k, '%s.%s().zz' % (modname, k)]
    if modname == 'builtins':
        for k in tps:
            lines += [k, 'w_%s = %s()' % (k, k), 'w_%s.zz' % k]
    return '\n'.join(lines) + '\n'


def work_compiled(arg):
    """cursor on compiled modules: every type of the module is reached (and instantiated by supp)"""
    _silence()
    part = core.Part()
    m = Mon(part)
    for modname in arg['modules']:
        text = compiled_text(modname)
        if text is None:
            part.count('compiled_modules_unavailable')
            continue
        part.count('compiled_modules')
        tmp = tempfile.mkdtemp(prefix='vf-')
        try:
            ctx = Ctx(tmp, 'main.py', files={}, workload='compiled:' + modname)
            m.lint(ctx, text, 'compiled')
            L = ci.Lines(text)
            for i, line in enumerate(L.lines):
                if line.endswith('.zz'):
                    m.both(ctx, text, (i + 1, len(line) - 2), L, 'compiled')
                elif line and ' = ' not in line:
                    m.both(ctx, text, (i + 1, len(line)), L, 'compiled')
            part.case('compiled:' + modname, nontrivial=True)
        finally:
            shutil.rmtree(tmp, ignore_errors=True)
    return m.dump()


SCENARIO_FILES = {'m.py': 'x = ""\nclass C:\n    a = 1\n', 'pkg/__init__.py': 'from .sub import y\n', 'pkg/sub.py': 'y = ""\n',
                  'user.py': 'from m import *\nfrom pkg.sub import y as z\n'}
SCENARIO_TEXT = ('import m\nm.x.zz\nfrom m import C\nC.a\nfrom m import *\nx\nimport pkg.sub\npkg.sub.y\nfrom pkg import y\ny.zz\n'
                 'import user\nuser.x.zz\nuser.z\n')


def _scenario_history(m, part, name, ops):
    """one long-lived Project; between rounds of requests files of cached modules are deleted / rewritten / recreated"""
    tmp = tempfile.mkdtemp(prefix='vf-')
    try:
        write_tree(tmp, SCENARIO_FILES)
        ctx = Ctx(tmp, 'main.py', files=SCENARIO_FILES, workload='scenario:' + name)
        done = []
        m.check_changes = True
        for op in [None] + ops:
            if op is not None:
                kind, rel, content = op
                path = os.path.join(tmp, rel)
                if kind == 'delete':
                    if os.path.isdir(path):
                        shutil.rmtree(path)
                    elif os.path.exists(path):
                        os.remove(path)
                else:
                    os.makedirs(os.path.dirname(path), exist_ok=True)
                    with open(path, 'w') as f:
                        f.write(content)
                    st = os.stat(path)
                    os.utime(path, (st.st_atime, st.st_mtime + 10 * (len(done) + 1)))
                done.append(list(op))
            ctx.extra = {'scenario': name, 'history_before_request': list(done)}
            m.lint(ctx, SCENARIO_TEXT, name)
            L = ci.Lines(SCENARIO_TEXT)
            for pos in L.all_positions():
                m.both(ctx, SCENARIO_TEXT, pos, L, name)
            part.count('scenario_rounds')
        part.case('scenario:' + name, nontrivial=True)
    finally:
        m.check_changes = False
        shutil.rmtree(tmp, ignore_errors=True)


SCENARIOS = {
    'module-deleted': [('delete', 'm.py', None)],
    'module-deleted-then-recreated': [('delete', 'm.py', None), ('write', 'm.py', 'x = 1\n')],
    'submodule-deleted': [('delete', 'pkg/sub.py', None)],
    'package-deleted': [('delete', 'pkg', None)],
    'package-init-deleted': [('delete', 'pkg/__init__.py', None)],
    'star-imported-module-deleted': [('delete', 'm.py', None), ('delete', 'user.py', None)],
    'module-rewritten-invalid-then-valid': [('write', 'm.py', 'x = 2\n'), ('delete', 'm.py', None), ('write', 'm.py', 'x = []\n')],
    'module-becomes-package': [('delete', 'm.py', None), ('write', 'm/__init__.py', 'x = {}\n')],
    'everything-deleted': [('delete', 'm.py', None), ('delete', 'pkg', None), ('delete', 'user.py', None)],
}

# the buffer is valid, the copy of the edited file on disk is not, and it is reached through an import cycle
ONDISK_CASES = [
    ('ondisk-invalid-star-cycle', {'main.py': 'def broken(:\n', 'other.py': 'from main import *\ny = ""\n'},
     'from other import *\ny\ny.zz\nimport other\nother.y.zz\n'),
    ('ondisk-invalid-import-cycle', {'main.py': 'x = (\n', 'other.py': 'import main\ny = main.z\nfrom main import w\n'},
     'import other\nother.y.zz\nother.w\nfrom other import w, y\nw.zz\n'),
    ('ondisk-invalid-self-import', {'main.py': 'class A:\nx = 1\n'}, 'from main import x\nx.zz\nimport main\nmain.x\nfrom main import *\nx\n'),
    ('ondisk-invalid-package-init', {'pkg/__init__.py': 'from .sub import *\n(\n', 'pkg/sub.py': 'from pkg import q\ns = 1\n'},
     'from .sub import s\ns.zz\nfrom . import sub\nsub.s\n'),
    ('ondisk-undecodable', {'main.py': None, 'other.py': 'from main import *\ny = 1\n'}, 'from other import *\ny\ny.zz\n'),
    ('ondisk-empty', {'main.py': '', 'other.py': 'from main import *\ny = 1\n'}, 'from other import *\ny\ny.zz\nz = 1\n'),
]


def work_scenarios(arg):
    _silence()
    part = core.Part()
    m = Mon(part)
    for name in arg['names']:
        if name in SCENARIOS:
            _scenario_history(m, part, name, [tuple(o) for o in SCENARIOS[name]])
    for name, files, text in ONDISK_CASES:
        if name not in arg['names']:
            continue
        fname = 'pkg/__init__.py' if 'pkg/__init__.py' in files else 'main.py'
        tmp = tempfile.mkdtemp(prefix='vf-')
        try:
            write_tree(tmp, {k: v for k, v in files.items() if v is not None})
            for k, v in files.items():
                if v is None:
                    with open(os.path.join(tmp, k), 'wb') as f:
                        f.write(b'x = "\xff\xfe"\n')
            shown = {k: (v if v is not None else '<bytes ff fe: not UTF-8>') for k, v in files.items()}
            ctx = Ctx(tmp, fname, files=shown, workload='scenario:' + name)
            ctx.extra = {'scenario': name}
            m.lint(ctx, text, name)
            _all_positions(m, ctx, text, name, part)
            part.case('scenario:' + name, nontrivial=True)
        finally:
            shutil.rmtree(tmp, ignore_errors=True)
    part.sample({'workload': 'scenarios', 'names': arg['names'][:4]})
    return m.dump()


def dispatch(arg):
    import time
    fn, a = arg
    t0, c0 = time.time(), time.process_time()
    r = globals()[fn](a)
    if isinstance(r, dict):
        r['c08_wall'] = round(time.time() - t0, 1)
        r['c08_cpu'] = round(time.process_time() - c0, 1)
    return r


# ---------------------------------------------------------------------------------------------
# driver

def _bins(files, nbins):
    """size-balanced bins, biggest first"""
    sized = sorted(((os.path.getsize(f), f) for f in files), reverse=True)
    bins = [[0, []] for _ in range(max(1, min(nbins, len(sized))))]
    for sz, f in sized:
        b = min(bins, key=lambda x: x[0])
        b[0] += sz + 20000
        b[1].append(f)
    bins.sort(key=lambda b: -b[0])
    return [b[1] for b in bins if b[1]]


def _split(job):
    """single-case jobs out of a chunk (used to re-run a chunk whose worker died)"""
    fn, a = job
    if fn == 'work_corpus':
        return [[fn, dict(a, files=[f])] for f in a['files']]
    if fn in ('work_gen', 'work_class'):
        return [[fn, dict(a, start=i, count=1)] for i in range(a['start'], a['start'] + a['count'])]
    if fn == 'work_hostile':
        return [[fn, dict(a, indexes=[i], outside=False)] for i in a['indexes']]  # keeps 'family' and 'tier'
    if fn == 'work_compiled':
        return [[fn, dict(a, modules=[x])] for x in a['modules']]
    if fn == 'work_scenarios':
        return [[fn, dict(a, names=[x])] for x in a['names']]
    return [job]


def collect(run, jobs, timeout):
    maxs = {}
    walls = run.extra.setdefault('slowest_jobs(wall seconds, diagnostic only)', [])

    def take(r, a=None):
        if a is not None and 'c08_wall' in r:
            run.extra['worker_cpu_seconds(diagnostic only)'] = round(
                run.extra.get('worker_cpu_seconds(diagnostic only)', 0) + r.get('c08_cpu', 0), 1)
            walls.append([r['c08_wall'], r.get('c08_cpu'), a[0], json.dumps(a[1])[:100]])
            walls.sort(reverse=True)
            del walls[8:]
        for entry, v in (r.get('c08_max_steps') or {}).items():
            cur = maxs.get(entry)
            if cur is None or v[0] * cur[1] > cur[0] * v[1]:
                maxs[entry] = v
        run.merge(r)
    failed = []
    for a, r in core.pmap('vf.props.c08:dispatch', jobs, timeout=timeout):
        if isinstance(r, dict) and ('_died' in r or '_timeout' in r):
            failed.append(a)
            run.count('worker_chunks_failed_first_run')
        elif isinstance(r, dict) and '_error' in r:
            run.inconclusive.append('harness error in worker on %s: %s' % (json.dumps(a)[:120], r['_error'][-1500:]))
        else:
            take(r, a)
    if failed:
        singles = [s for job in failed for s in _split(job)]
        for a, r in core.pmap('vf.props.c08:dispatch', singles, timeout=timeout):
            if isinstance(r, dict) and '_died' in r:
                run.violation('worker-death', 'the worker process died while serving %s: %s' % (
                    json.dumps(a)[:300], r['_died']), {'job': a, 'result': r})
            elif isinstance(r, dict) and '_timeout' in r:
                run.inconclusive.append('watchdog (%ss) fired on %s' % (timeout, json.dumps(a)[:300]))
            elif isinstance(r, dict) and '_error' in r:
                run.inconclusive.append('harness error in worker on %s: %s' % (json.dumps(a)[:120], r['_error'][-1500:]))
            else:
                take(r)
    return maxs


def prune(run):
    """keep the smallest inputs of every mechanism (all instances stay counted in the histogram)"""
    by = collections.OrderedDict()
    for v in run.violations:
        by.setdefault(v['mech'], []).append(v)
    out = []
    for mech, vs in by.items():
        vs.sort(key=lambda v: len((v['case'].get('text') or '')) + sum(len(t) for t in ((v['case'].get('root') or {}).get('files') or {}).values()))
        out.extend(vs[:KEEP_PER_MECH])
    run.violations = out


def main(run):
    seed = run.seed
    files = corpus.select(run, 60)
    npos, nmut = run.pick(10, 60), run.pick(9, 18)
    jobs = [['work_corpus', {'seed': seed, 'files': b, 'npos': npos, 'nmut': nmut, 'lint_mut_max': run.pick(30000, 100000)}]
            for b in _bins(files, run.pick(32, 192))]
    H = ci.hostile_cases()
    def hcost(i):
        n = len(H[i]['text'])
        return -(n * n if H[i].get('positions') is None else n * len(H[i]['positions']))
    idx = sorted(range(len(H)), key=hcost)
    nh = 48
    hjobs = [['work_hostile', {'indexes': idx[k::nh], 'outside': k == 0}] for k in range(nh) if idx[k::nh]]
    fjobs = []
    for fam, nchunks in (('targets', 32), ('del', 24), ('chars', 24), ('growth', 40), ('calls', 48), ('chains', 26), ('flatscopes', 40), ('namespace', 32), ('blank', 16), ('flat', 10 ** 6)):
        cases = ci.family(fam, run.tier)

        def fcost(i, cases=cases):
            c = cases[i]
            n = len(c['text']) + sum(len(t) for t in c['files'].values())
            return -(n * n if c.get('positions') is None else n * (3 + len(c['positions'])))
        order = sorted(range(len(cases)), key=fcost)
        k = min(nchunks, len(order))
        fjobs += [['work_hostile', {'family': fam, 'tier': run.tier, 'indexes': order[j::k], 'outside': False}] for j in range(k)]
        run.extra.setdefault('family_sizes', {})[fam] = len(cases)
    fjobs.sort(key=lambda j: -sum(len(ci.family(j[1]['family'], run.tier)[i]['text']) for i in j[1]['indexes'])
               if j[1]['family'] == 'flat' else 0)
    snames = sorted(SCENARIOS) + [c[0] for c in ONDISK_CASES]
    sjobs = [['work_scenarios', {'names': snames[k::8]}] for k in range(8)]
    cjobs = [['work_compiled', {'modules': c}] for c in core.chunks(ci.COMPILED_MODULES, 5)]
    ngen = run.pick(16, 96)
    gjobs = [['work_gen', {'seed': seed, 'start': s, 'count': 2, 'sizes': ['tiny', 'small'], 'exhaustive_sizes': ['tiny', 'small'],
                           'npos': 0, 'nmut': 4}] for s in range(0, ngen, 2)]
    nbig = run.pick(16, 160)
    gjobs += [['work_gen', {'seed': seed, 'start': 100000 + s, 'count': 8, 'sizes': ['medium', 'large'], 'exhaustive_sizes': [],
                            'npos': run.pick(24, 48), 'nmut': 9}] for s in range(0, nbig, 8)]
    ncls = run.pick(16, 128)
    kjobs = [['work_class', {'seed': seed, 'start': s, 'count': 4, 'npos': run.pick(8, 20)}] for s in range(0, ncls, 4)]
    # long jobs first
    # the cases that are expected to need the whole 9*B line events go first, one per job
    probes = [i for i, c in enumerate(ci.family('growth', run.tier)) if int(c['name'].rsplit(':', 1)[1]) >= 16]
    pjobs = [['work_hostile', {'family': 'growth', 'tier': run.tier, 'indexes': [i], 'outside': False}] for i in probes]
    for j in fjobs:
        if j[1]['family'] == 'growth':
            j[1]['indexes'] = [i for i in j[1]['indexes'] if i not in probes]
    fjobs = pjobs + [j for j in fjobs if j[1]['indexes']]
    nflat = len(pjobs) + sum(1 for j in fjobs if j[1]['family'] == 'flat')
    alljobs = (fjobs[:nflat // 3] + hjobs[:8] + jobs[:len(jobs) // 2] + gjobs + fjobs[nflat // 3:] + hjobs[8:] +
               jobs[len(jobs) // 2:] + kjobs + sjobs + cjobs)
    maxs = collect(run, alljobs, timeout=run.pick(1200, 3600))
    run.extra['step_budget'] = {
        'budget': 'B(n) = 2e7 + 2e4*n LINE events on supp code objects for an n-byte text; 8*B on the second run',
        'largest_fraction_of_budget_used': {e: {'line_events': v[0], 'budget': v[1], 'text_chars': v[2],
                                                 'fraction': round(v[0] / float(v[1]), 6)} for e, v in sorted(maxs.items())},
        'median_decade_of_line_events': {h.split(':', 1)[1]: _median_decade(c) for h, c in run.hists.items()
                                         if h.startswith('steps_log10:')},
    }
    run.extra['violation_instances_by_mechanism'] = dict(run.hists.get('violation_instances', {}))
    prune(run)
    run.extra['inconclusive_reasons'] = [x[:600] for x in run.inconclusive[:20]]
    return run.finish(
        rule='case = one real file (with its stratified cursor positions), one typing-state mutation of a file, one generated '
             'program / class project, one hostile text (every (line, col) tried) or one compiled module; non-trivial = files whose '
             'positions covered >= 6 token classes, every mutation, generated programs of >= 8 lines, projects of >= 2 files, every '
             'hostile text and compiled module; distinct by file path / (file, mutation index) / generator index / name',
        require=('calls:lint', 'calls:assist', 'calls:location', 'e01_agreements', 'e01_agreements_on_syntax_errors',
                 'syntaxerror_agreements', 'results_checked:assist', 'results_checked:location', 'texts_with_every_position',
                 'files', 'compiled_modules'),
        assumptions=['cursor positions are (1-based line, 0-based column) inside the text under the tokenizer line model '
                     '(lines end at \\n, \\r\\n, \\r only); positions outside the text are recorded, not judged',
                     'texts on which ast.parse itself raises something other than SyntaxError, and RecursionError on texts whose AST '
                     'nests EXPRESSIONS %d or more deep (statement nesting such as elif chains does not count), are outside the domain (counted)' % DEPTH_LIMIT,
                     'non-termination is bounded: a call is reported only after exceeding 8*B line events of supp code; a worker '
                     'watchdog firing is inconclusive, a worker death is a violation',
                     'one long-lived Project per worker chunk for real files (as the server keeps one); every unexpected exception '
                     'is re-tried on a fresh Project and the outcome recorded in the case'],
        exhaustive=False)


def _median_decade(counter):
    total = sum(counter.values())
    acc = 0
    for k in sorted(counter, key=int):
        acc += counter[k]
        if acc * 2 >= total:
            return '1e%s..1e%d' % (k, int(k) + 1)
    return None


# ---------------------------------------------------------------------------------------------
# replay

def replay(run, path):
    _silence()
    with open(path) as f:
        data = json.load(f)
    part = core.Part()
    m = Mon(part)
    seen_scenarios = set()
    for v in data['violations']:
        c = v['case']
        if c.get('scenario'):
            print('replay: scenario %s is re-run as a whole' % c['scenario'])
            if c['scenario'] not in seen_scenarios:
                seen_scenarios.add(c['scenario'])
                run.merge(work_scenarios({'names': [c['scenario']]}))
            continue
        if 'job' in c:
            print('replay: re-running the job %s in a worker process' % json.dumps(c['job'])[:300])
            core.run_parts(run, 'vf.props.c08:dispatch', [c['job']], timeout=3600, died_is_violation=True)
            continue
        tmp = None
        try:
            if c['root']['kind'] == 'files':
                tmp = tempfile.mkdtemp(prefix='vf-')
                write_tree(tmp, c['root']['files'])
                root = tmp
            else:
                root = c['root']['path']
            ctx = Ctx(root, c.get('fname'), files=c['root'].get('files'), workload='replay:' + str(c.get('workload')))
            part.case(json.dumps([c['entry'], c.get('pos'), c.get('fname')]) + hashlib.sha1(c['text'].encode('utf-8', 'surrogatepass')).hexdigest(),
                      nontrivial=True)
            if c['entry'] == 'lint':
                m.lint(ctx, c['text'], 'replay')
            else:
                m.cursor(c['entry'], ctx, c['text'], c['pos'], ci.Lines(c['text']), 'replay')
        finally:
            if tmp:
                shutil.rmtree(tmp, ignore_errors=True)
    run.merge(m.dump())
    for v in run.violations:
        print('REPLAYED', v['mech'], v['what'][:300])
    return 1 if run.violations else 0
