"""C09 - a long-lived project answers exactly like a fresh one (cache transparency).

Monitor: a history of file operations (create / rewrite with a new mtime / touch) and
requests is executed against the REAL supp on a scratch project.  Every request is made
under `with project.check_changes():` on one long-lived Project([root]); the compared
requests are made a second time on a Project([root]) created at that moment (same process,
same disk state, also under check_changes).  The two answers must be equal.

Workload: (1) every history of length <= N over an 11-operation alphabet on two fixed
4-module chains (vf/gen_hist.py: chain S = star-import chain, chain R = import/_ref chain),
(2) random histories of length <= 40 on random projects.

The mechanism label of a mismatch is derived from the failing case itself: which module the
differing identifiers / files belong to, what the history did to that module and to the
modules on the import path between the requested file and it, and the kind of the import
edge that leads into it (classify()).
"""
import json
import os
import random
import shutil
import tempfile

from vf import core, gen_hist as G

T0 = 1500000000


# --------------------------------------------------------------------------------------
# the world: a scratch tree whose mtimes are set explicitly to strictly increasing seconds

class World(object):
    """A scratch tree.  Every modification sets the file's mtime explicitly (integer seconds) to a value
    that differs from the current one and that this file never had: direction 'f' = one second above
    every mtime the file ever had, 'b' = one second below every one (mtime moving BACKWARD: restored
    backup, VCS checkout, cp -p).  A file is created at a base value in the middle of the range."""

    def __init__(self, spec, root):
        self.spec = spec
        self.root = root
        self.version = {}
        self.broken = {}               # mid -> the file on disk has a syntax error
        self.used = {}                 # mid -> set of mtimes this file ever had
        self.mtime = {}                # mid -> current mtime
        for mid in spec['order']:
            m = spec['modules'][mid]
            if m['init']:
                os.mkdir(os.path.join(root, G.stem(spec, mid)))
        for mid in spec['order']:
            if spec['modules'][mid]['present']:
                b = spec['modules'][mid].get('broken') or False
                self.write(mid, 0, 'f', 'syntax' if b is True else b)

    def path(self, mid):
        return os.path.join(self.root, G.relpath(self.spec, mid))

    def stamp(self, mid, direction):
        used = self.used.setdefault(mid, set())
        if not used:
            t = T0 + 1000 * self.spec['order'].index(mid)
        elif direction == 'b':
            t = min(used) - 1
        else:
            t = max(used) + 1
        assert t not in used and t != self.mtime.get(mid)
        used.add(t)
        self.mtime[mid] = t
        os.utime(self.path(mid), (t, t))

    def write(self, mid, version, direction, broken=False):
        """broken: False | 'syntax' (does not parse) | 'bytes' (not valid UTF-8)"""
        if broken == 'bytes':
            with open(self.path(mid), 'wb') as f:
                f.write(G.garbled(version))
        else:
            with open(self.path(mid), 'w') as f:
                f.write(G.render(self.spec, mid, version, bool(broken)))
        self.version[mid] = version
        self.broken[mid] = broken
        self.stamp(mid, direction)

    def text(self, mid):
        return G.render(self.spec, mid, self.version[mid], self.broken.get(mid) == 'syntax')

    def apply(self, op):
        """returns the effective operation kind ('create', 'rewrite-fwd', 'rewrite-back', 'touch-fwd',
        'touch-back') or None for a no-op (outside the alphabet's meaning)"""
        kind, mid = op[0], op[1]
        direction = op[2] if len(op) > 2 else 'f'
        here = mid in self.version
        if kind == 'put':
            kind = 'rewrite' if here else 'create'
        if kind == 'create':
            if here:
                return None
            self.write(mid, 0, 'f')
            return 'create'
        elif kind == 'rewrite':
            if not here:
                return None
            self.write(mid, self.version[mid] + 1, direction)
        elif kind in ('break', 'garble'):
            # saved with a syntax error / as undecodable bytes (created that way if it did not exist)
            how = 'syntax' if kind == 'break' else 'bytes'
            if not here:
                self.write(mid, 0, 'f', how)
                return 'create-broken' if kind == 'break' else 'create-garbled'
            self.write(mid, self.version[mid] + 1, direction, how)
        elif kind == 'touch':
            if not here:
                return None
            self.stamp(mid, direction)
        else:
            raise ValueError(op)
        return kind + ('-back' if direction == 'b' else '-fwd')


def canon(x, root):
    if isinstance(x, (list, tuple)):
        return [canon(e, root) for e in x]
    if isinstance(x, dict):
        return {k: canon(v, root) for k, v in x.items()}
    if isinstance(x, str) and x.startswith(root + os.sep):
        return x[len(root) + 1:]
    if isinstance(x, (str, int, float, bool)) or x is None:
        return x
    return repr(x)


def _entry_key(e):
    return json.dumps(e, sort_keys=True)


class InjectedFault(Exception):
    """raised by the harness inside supp while a request's fault flag is armed"""


_fault = {'lookup': None, 'scope': None, 'hits': 0}


def install_fault_hooks():
    """Signature-transparent wrappers around Project.get_module and SourceModule.scope: while a request is
    armed, the lookup (resp. the analysis) of ONE designated module name raises InjectedFault - on whatever
    project is asked, long-lived or fresh.  Disarmed, the wrappers only forward."""
    from supp.project import Project
    from supp.module import SourceModule
    from supp.util import cached_property
    if getattr(Project.get_module, '_vf_wrapped', False):
        return
    orig_get = Project.get_module

    def get_module(self, *args, **kwargs):
        if _fault['lookup'] is not None:
            name = args[0] if args else kwargs.get('name')
            if name == _fault['lookup']:
                _fault['hits'] += 1
                raise InjectedFault(name)
        return orig_get(self, *args, **kwargs)
    get_module._vf_wrapped = True
    Project.get_module = get_module
    orig_scope = SourceModule.__dict__['scope'].func

    def scope(self):
        if _fault['scope'] is not None and self.name == _fault['scope']:
            _fault['hits'] += 1
            raise InjectedFault(self.name)
        return orig_scope(self)
    SourceModule.scope = cached_property(scope)


def armed(op):
    """(mode, module id) of an armed request op ['req', probe, mode, mid], else (None, None)"""
    if op is not None and len(op) >= 4:
        return op[2], op[3]
    return None, None


def ask(project, world, probe, op=None):
    """['ok', canonical result] | ['exc', exception type name]; op: the request op (an armed one injects its
    fault for the duration of this request; _fault['hits'] then tells how often the hook fired)"""
    from supp import assistant, linter
    install_fault_hooks()
    mode, fmid = armed(op)
    _fault['hits'] = 0
    if mode:
        _fault[mode] = G.dotted(world.spec, fmid)
    try:
        return _ask(project, world, probe)
    finally:
        _fault['lookup'] = _fault['scope'] = None


def _ask(project, world, probe):
    from supp import assistant, linter
    mid = probe['file']
    src, pos = G.request_source(world.spec, probe, world.text(mid))
    fn = world.path(mid)
    kind = probe['kind']
    try:
        with project.check_changes():
            if kind in ('assist-attr', 'assist-bare'):
                r = assistant.assist(project, src, pos, fn)
            elif kind == 'location':
                r = assistant.location(project, src, pos, fn)
            else:
                r = [row[:4] for row in linter.lint(project, src, fn)]
    except Exception as e:
        return ['exc', type(e).__name__]
    r = canon(r, world.root)
    if kind == 'location':
        # alternatives inside one entry are ordered by object address (a C17 matter): sort them
        r = [sorted(e, key=_entry_key) if isinstance(e, list) else e for e in r]
    return ['ok', r]


# --------------------------------------------------------------------------------------
# label derivation (pure function of spec + history + the two answers)

def atoms(spec, probe, ans):
    """set of (atom, owner module id or None)"""
    out = set()
    if ans[0] != 'ok':
        return out
    r = ans[1]
    k = probe['kind']
    if k in ('assist-attr', 'assist-bare'):
        for n in r[1]:
            out.add((n, G.owner_of(spec, n)))
    elif k == 'location':
        for e in r:
            for d in (e if isinstance(e, list) else [e]):
                if isinstance(d, dict):
                    f = d.get('file')
                    out.add((json.dumps([f, d.get('loc')]), G.owner_of_path(spec, f) if isinstance(f, str) else None))
                else:
                    out.add((json.dumps(d), None))
    else:
        for row in r:
            out.add((json.dumps(row), G.owner_of(spec, str(row[1])) if len(row) > 1 else None))
    return out


def timeline(spec, hist, upto):
    """state of the history before op index `upto`"""
    mods = spec['modules']
    st = {'present': {m for m in mods if mods[m]['present']}, 'lm': {m: -1 for m in mods},
          'lc': {m: -1 for m in mods}, 'created_at': {}, 'reqs': [], 'ops': {}, 'back': {}, 'ever_back': set()}
    for i, op in enumerate(hist[:upto]):
        kind = op[0]
        if kind == 'req':
            st['reqs'].append(i)
            continue
        mid = op[1]
        here = mid in st['present']
        if kind == 'put':
            kind = 'rewrite' if here else 'create'
        if kind in ('break', 'garble'):
            kind = 'rewrite' if here else 'create'
        if kind == 'create' and not here:
            st['present'].add(mid)
            st['created_at'][mid] = i
            st['lm'][mid] = st['lc'][mid] = i
        elif kind == 'rewrite' and here:
            st['lm'][mid] = st['lc'][mid] = i
        elif kind == 'touch' and here:
            st['lm'][mid] = i
        else:
            continue
        back = kind != 'create' and len(op) > 2 and op[2] == 'b'
        st['back'][mid] = back
        if back:
            st['ever_back'].add(mid)
        st['ops'].setdefault(mid, []).append(kind + ('-back' if back else ''))
    return st


def classify(spec, hist, i, a_long, a_fresh, rerun=None, failed_reqs=()):
    """(mechanism label, info) for a mismatch at request hist[i].
    rerun: None, or a function (history, index) -> bool that executes a variant of the history quietly and
    tells whether the long-lived and the fresh answer differ at that request (counterfactuals: all mtimes
    moving forward; the last failing request left out).
    failed_reqs: indices of earlier requests that raised on the long-lived project."""
    probe = spec['probes'][hist[i][1]]
    F = probe['file']
    st = timeline(spec, hist, i)
    suffix = ''
    if a_long[0] == 'exc' and a_fresh[0] == 'ok':
        suffix = '+long-raises-' + a_long[1]
    elif a_fresh[0] == 'exc' and a_long[0] == 'ok':
        suffix = '+fresh-raises-' + a_fresh[1]
    info = {'requested_file': F, 'request': probe['kind'], 'expr': probe['expr']}
    if not st['reqs']:
        return 'first-request-differs' + suffix, info
    r0 = st['reqs'][0]
    modified = [m for m in spec['modules'] if st['lm'][m] > r0]
    info['modified_since_first_request'] = {m: st['ops'][m] for m in modified}
    if not modified:
        return 'differs-without-modification' + suffix, info
    al, af = atoms(spec, probe, a_long), atoms(spec, probe, a_fresh)
    owners = {o for _, o in (al ^ af) if o}
    info['owners_of_differing_atoms'] = sorted(owners)
    dist = G.distances(spec, F)
    changed = [m for m in modified if st['lc'][m] > r0 and m != F]
    def near(ms):
        return sorted(ms, key=lambda m: (dist.get(m, 99), -st['lc'][m], m))
    # candidate groups, most specific first:
    # 1. a module whose own identifiers / file differ and whose content was changed
    groups = [near(m for m in owners if m in changed)]
    # 2. a changed module on an import path from the requested file to a module whose identifiers differ
    #    (e.g. a module created later that makes an unchanged module reachable)
    between = set()
    for o in owners:
        for p in G.all_paths(spec, F, o):
            between.update(x for x, _ in p[1:-1])
    groups.append(near(m for m in changed if m in between))
    # 3. changed modules the probe expression walks through, 4. any changed module, 5. anything modified
    groups.append(near(m for m in changed if m in (probe.get('path') or [])))
    groups.append(near(changed))
    groups.append(near(m for m in modified if m != F))
    groups.append(near(modified))
    cands = []
    for g in groups:
        cands.extend(m for m in g if m not in cands)
    ppath = probe.get('path') or [F]

    def consistent(p):
        ids = [x for x, _ in p]
        if probe['kind'] in ('assist-bare', 'lint'):
            return all(k == 'star' for _, k in p[1:])
        n = min(len(ids), len(ppath))
        return ids[:n] == ppath[:n]

    def explain(M):
        """(label, explained by an importer that was not modified since, extra info)"""
        if M not in dist:
            return 'stale-unreachable-module', False, {}
        if M == F:
            return 'stale-requested-file', False, {}
        created = M in st['created_at'] and any(r < st['created_at'][M] for r in st['reqs'])
        if created and spec['modules'][M]['init']:
            # the directory became a package after a request: relative imports of the files in it
            rel = [x for x in spec['modules'] if x in dist and spec['modules'][x]['pkg'] == M and x != M
                   and any(G.is_relative(spec, x, e) for e in spec['modules'][x]['edges'])]
            if rel:
                return ('package-init-created-relative-imports-stale-dist%d' % dist[M], True,
                        {'files_with_relative_imports': sorted(rel)})
        paths = G.all_paths(spec, F, M)
        paths.sort(key=lambda p: (not consistent(p), len(p)))
        if created:
            t = st['created_at'][M]
            for p in paths:
                held = [x for x, _ in p[1:-1] if st['lm'][x] < t and any(st['lm'][x] < r < t for r in st['reqs'])]
                if held:
                    star = '-star' if p[-1][1] == 'star' else ''
                    if spec['modules'][M].get('shadow'):
                        # a sub-module created next to a package attribute of the same name
                        return ('created-submodule-shadows-package-attribute%s-dist%d' % (star, len(p) - 1), True,
                                {'path': [[x, k] for x, k in p], 'importers_not_modified_since': held})
                    if p[-1][1] == 'attr_sub':
                        # a sub-module that its user reaches only as an attribute of the imported package
                        return ('created-submodule-reached-by-package-attribute-dist%d' % (len(p) - 1), True,
                                {'path': [[x, k] for x, k in p], 'importers_not_modified_since': held})
                    return ('created-after-failed-lookup%s-dist%d' % (star, len(p) - 1), True,
                            {'path': [[x, k] for x, k in p], 'importers_not_modified_since': held})
        for p in paths:
            # an importer that was not modified after the module it imports (on this path) was last modified
            # keeps an analysis that may predate that modification; with strictly decreasing modification
            # times from the requested file down to M every module on the path is re-examined
            ids = [x for x, _ in p]
            held = [ids[j] for j in range(1, len(ids) - 1) if st['lm'][ids[j]] < st['lm'][ids[j + 1]]]
            if held:
                kind = 'star' if p[-1][1] == 'star' else 'indirect'
                return ('stale-%s-import-dist%d' % (kind, len(p) - 1), True,
                        {'path': [[x, k] for x, k in p], 'importers_not_modified_since': held})
        if dist[M] == 1:
            return ('created-module-unseen-dist1' if created else 'stale-direct-import-dist1'), False, {}
        return 'stale-though-importers-modified-dist%d' % dist[M], False, {}

    # Which explanation?  (1) a module of which the long-lived answer shows one version and the fresh answer
    # another (identifiers / positions owned by it on BOTH sides of the difference) and that has an importer
    # which was not modified since: stale content.  (2) otherwise a module created after a failed lookup
    # behind such an importer.  (3) otherwise any explained candidate, (4) otherwise the nearest candidate.
    def both_sides(m):
        return any(o == m for _, o in al - af) and any(o == m for _, o in af - al)
    explained = [(m,) + explain(m) for m in cands]
    pick = next((e for e in explained if e[2] and e[1].startswith('stale-') and both_sides(e[0])), None) or \
        next((e for e in explained if e[2] and e[1].startswith('created-')), None) or \
        next((e for e in explained if e[2]), explained[0])
    info['outdated_version_visible'] = bool(pick[2] and pick[1].startswith('stale-') and both_sides(pick[0]))
    M, label, _, extra = pick
    # some modification moved an mtime backward: if the same history with forward-moving mtimes gives no
    # difference at this request, the direction of the mtime change is what the cache got wrong; blame the
    # culprit if its latest modification was backward, else the nearest module that was ever moved backward
    backs = sorted((m for m in st['ever_back'] if m != F), key=lambda m: (dist.get(m, 99), m))
    # the failing requests directly before this one (no successful request in between)
    ok_before = [r for r in st['reqs'] if r not in failed_reqs]
    failed = [j for j in failed_reqs if j < i and (not ok_before or j > ok_before[-1])]
    decided = False
    if failed and rerun is not None:
        # if the same history WITHOUT those failing requests gives no difference here, a failing request
        # left something behind
        j = failed[-1]
        still = rerun([op for k, op in enumerate(hist[:i + 1]) if k not in failed], i - len(failed))
        info['differs_without_the_failing_request_too'] = still
        if not still:
            label = 'stale-after-failed-request-dist%s' % dist.get(M, '?')
            info['failing_request'] = G.op_code(hist[j]) + '@%d' % j
            decided = True
    if backs and rerun is not None and not decided:
        still = rerun(G.forward_only(hist[:i + 1]), i)
        info['differs_with_forward_mtimes_too'] = still
        if not still:
            if not st['back'].get(M) or M == F:
                M, extra = backs[0], {}
            label = 'stale-after-backward-mtime-dist%s' % dist.get(M, '?')
    info['culprit'] = M
    info['culprit_ops'] = st['ops'].get(M)
    info['distance'] = dist.get(M)
    info.update(extra)
    return label + suffix, info


def describe(spec, hist, i, a_long, a_fresh, info):
    probe = spec['probes'][hist[i][1]]
    al, af = atoms(spec, probe, a_long), atoms(spec, probe, a_fresh)
    only_long = sorted(a for a, _ in al - af)[:4]
    only_fresh = sorted(a for a, _ in af - al)[:4]
    def side(a):
        return a[0] if a[0] == 'ok' else 'raises %s' % a[1]
    return ('history %s; %s %s on %s: long-lived %s, fresh %s; only long-lived: %s; only fresh: %s; culprit %s %s' % (
        ' '.join(G.op_code(o) for o in hist[:i + 1]), probe['kind'], probe['expr'] or '', G.relpath(spec, probe['file']),
        side(a_long), side(a_fresh), only_long, only_fresh, info.get('culprit'), info.get('path') or ''))


# --------------------------------------------------------------------------------------
# executing one history

def mentions_generated(spec, ans):
    return ans[0] == 'ok' and spec['tag'] in json.dumps(ans[1])


def run_history(spec, hist, part, compare, key, seen_mechs, selfcheck=False):
    """compare: 'last' (only the final request; the earlier ones were compared as the final
    request of the prefix history) or 'all'.  Returns True if the history is non-trivial."""
    from supp.project import Project
    root = tempfile.mkdtemp(prefix='vf-')
    nontrivial = False
    try:
        world = World(spec, root)
        longp = Project([root])
        first_req = None
        failed_reqs = []              # indices of requests that raised on the long-lived project
        pkg_created = False
        last_mod = -1
        mods_since = []               # (mid, kind) effective modifications after the first request
        for i, op in enumerate(hist):
            if op[0] != 'req':
                kind = world.apply(op)
                if kind is None:
                    part.count('ops_without_effect')
                else:
                    part.hist('modification_kind', kind)
                    last_mod = i
                    if kind == 'create' and spec['modules'][op[1]]['init']:
                        part.count('package_inits_created')
                        if not pkg_created:
                            pkg_created = True
                            part.count('histories_with_a_package_creation')
                    if kind == 'create' and any(e['kind'] == 'attr_sub' and e['to'] == op[1]
                                                for mm in spec['modules'].values() for e in mm['edges']):
                        part.count('submodules_created_that_are_reached_only_by_package_attribute')
                    if kind == 'create' and spec['modules'][op[1]].get('shadow'):
                        part.count('submodules_created_over_a_package_attribute')
                    if kind.endswith('-back'):
                        part.count('modifications_mtime_backward')
                    elif kind.endswith('-fwd'):
                        part.count('modifications_mtime_forward')
                    if first_req is not None:
                        mods_since.append((op[1], kind))
                continue
            probe = spec['probes'][op[1]]
            a_long = ask(longp, world, probe, op)
            mode, fmid = armed(op)
            hits_long = _fault['hits']
            part.count('requests_issued_on_long_lived_project')
            if mode:
                part.count('armed_requests(%s)' % mode)
                part.count('armed_requests')
                if a_long == ['exc', 'InjectedFault']:
                    part.count('armed_requests_raised_on_long_lived_project')
            if failed_reqs and last_mod > failed_reqs[-1] and a_long[0] != 'exc':
                part.count('requests_answered_after_a_failing_request_and_a_later_modification')
            if pkg_created and spec['modules'][probe['file']]['pkg'] and a_long[0] != 'exc':
                part.count('requests_on_a_file_inside_a_package_after_a_package_creation')
            if a_long[0] == 'exc':
                part.count('requests_raising_on_long_lived_project')
                part.hist('exception_on_long_lived_project', a_long[1])
                if not failed_reqs:
                    part.count('histories_with_a_failing_request')
                failed_reqs.append(i)
            was_first = first_req is None
            if was_first:
                first_req = i
            if compare == 'last' and i != len(hist) - 1:
                continue
            a_fresh = ask(Project([root]), world, probe, op)
            if mode:
                # an injected fault is never a verdict: the step only has to fail identically on both sides
                part.count('armed_requests_compared')
                both = a_long == ['exc', 'InjectedFault'] and a_fresh == ['exc', 'InjectedFault']
                if mode == 'scope':
                    # raised only where the module is actually analysed: the sides may legitimately differ
                    part.hist('armed_scope_fault_outcome', 'long:%s fresh:%s' % (a_long[0] if a_long[0] == 'ok' else a_long[1],
                                                                                   a_fresh[0] if a_fresh[0] == 'ok' else a_fresh[1]))
                    continue
                if both and hits_long and _fault['hits']:
                    part.count('armed_requests_raised_on_both')
                    part.count('both_raise_same_type')
                    part.hist('exception_on_both_sides', 'InjectedFault')
                else:
                    part.count('armed_requests_not_reached_on_both_sides(inconclusive step, not judged)')
                continue
            part.count('requests_compared')
            if any(v == 'syntax' for v in world.broken.values()):
                part.count('requests_compared_while_a_module_has_a_syntax_error')
            part.hist('request_kind', probe['kind'])
            dist = G.distances(spec, probe['file'])
            ds = sorted({dist[m] for m, _ in mods_since if m in dist})
            for d in ds:
                part.hist('requests_after_modification_at_distance', 'd%d' % d)
            if not ds:
                part.hist('requests_after_modification_at_distance', 'first-request' if was_first else 'none')
            for m, k in set(mods_since):
                if m in dist:
                    part.hist('modification_before_request', '%s@d%d' % (k, dist[m]))
            if selfcheck:
                a2 = ask(Project([root]), world, probe, op)
                part.count('fresh_vs_fresh_checks')
                if a2 != a_fresh:
                    part.count('oracle_unstable_discarded')
                    continue
            if mentions_generated(spec, a_fresh) and any(d >= 1 for d in ds):
                nontrivial = True
                part.count('requests_nontrivial')
            if a_long[0] == 'exc' and a_fresh[0] == 'exc':
                part.count('both_raise_same_type' if a_long == a_fresh else 'both_raise_different_type(not judged)')
                part.hist('exception_on_both_sides', a_fresh[1])
                continue
            if a_long == a_fresh:
                part.count('answers_equal')
                continue
            # a difference: make sure the oracle itself is stable before blaming the cache
            a2 = ask(Project([root]), world, probe, op)
            if a2 != a_fresh:
                part.count('oracle_unstable_discarded')
                continue
            part.count('answers_differ')
            mech, info = classify(spec, hist, i, a_long, a_fresh,
                                  lambda h2, i2: differs_at(spec, h2, i2), [j for j in failed_reqs if j < i])
            part.hist('mismatch_mechanism', mech)
            part.hist('mismatch_request_kind', '%s:%s' % (mech, probe['kind']))
            cap = 1 if compare == 'last' else 2
            if seen_mechs.get(mech, 0) < cap and (key, mech) not in seen_mechs:
                seen_mechs[mech] = seen_mechs.get(mech, 0) + 1
                seen_mechs[(key, mech)] = 1
                part.violation(mech, describe(spec, hist, i, a_long, a_fresh, info),
                               {'spec': spec, 'history': hist[:i + 1], 'index': i, 'key': key,
                                'long_lived': a_long, 'fresh': a_fresh, 'info': info})
            else:
                part.count('violations_not_stored(same mechanism already stored by this worker chunk)')
    finally:
        shutil.rmtree(root, ignore_errors=True)
    return nontrivial


def differs_at(spec, hist, i):
    """quiet re-execution of a history: do the long-lived and the fresh answer differ at request i?"""
    from supp.project import Project
    root = tempfile.mkdtemp(prefix='vf-')
    try:
        world = World(spec, root)
        longp = Project([root])
        for j, op in enumerate(hist[:i + 1]):
            if op[0] != 'req':
                world.apply(op)
                continue
            probe = spec['probes'][op[1]]
            a_long = ask(longp, world, probe, op)
            if j == i:
                a_fresh = ask(Project([root]), world, probe, op)
                return a_long != a_fresh and not (a_long[0] == 'exc' and a_fresh[0] == 'exc')
    finally:
        shutil.rmtree(root, ignore_errors=True)
    return False


_counter = [0]


def new_tag():
    """identifier prefix unique per project within this process (and distinct across workers)"""
    _counter[0] += 1
    n = _counter[0]
    s = ''
    while n:
        n, r = divmod(n, 36)
        s = '0123456789abcdefghijklmnopqrstuvwxyz'[r] + s
    return 'v%s%x_' % (s, os.getpid() % 4096)


# --------------------------------------------------------------------------------------
# workers

def work_chain(arg):
    variant, length, start, count = arg[:4]
    seed = arg[4] if len(arg) > 4 else 0
    part = core.Part()
    seen = {}
    for idx in range(start, start + count):
        spec = G.chain_spec(variant, new_tag())
        mods, reqs = G.chain_alphabet(variant, spec)
        hist = G.chain_history(mods, reqs, length, idx)
        # the operation sequences are enumerated; the direction of each mtime change is drawn from the seed
        hist = G.with_directions(hist, random.Random('%s:C09:dir:%s:%d:%d' % (seed, variant, length, idx)))
        key = 'chain%s:%s' % (variant, ' '.join(G.op_code(o) for o in hist))
        part.count('histories')
        part.count('histories_exhaustive_chain%s_len%d' % (variant, length))
        part.hist('history_length', length)
        nt = run_history(spec, hist, part, 'last', key, seen, selfcheck=(idx % 16 == 0))
        part.case(key, nontrivial=nt)
        if nt and idx % 997 == 0:
            part.sample({'chain': variant, 'history': key})
    return part.dump()


def work_random(arg):
    seed, start, count, maxlen = arg
    part = core.Part()
    seen = {}
    for idx in range(start, start + count):
        rng = random.Random('%s:C09:rand:%d' % (seed, idx))
        spec = G.random_spec(rng, new_tag())
        hist = G.random_history(rng, spec, maxlen)
        key = 'rand:%s:%d' % (seed, idx)
        part.count('histories')
        part.count('histories_random')
        part.hist('history_length', '%d-%d' % (len(hist) // 10 * 10, len(hist) // 10 * 10 + 9))
        part.hist('random_project_modules', len(spec['modules']))
        part.hist('random_project_packages', sum(1 for m in spec['modules'].values() if m['init']))
        for m in spec['modules'].values():
            for e in m['edges']:
                part.hist('random_project_edge_kinds', e['kind'] + ('(relative)' if e.get('rel') and m['pkg'] and m['pkg'] == spec['modules'][e['to']]['pkg'] else ''))
        depth = max(max(G.distances(spec, x).values()) for x in spec['modules'] if spec['modules'][x]['main'])
        part.hist('random_project_chain_length', depth + 1)
        nt = run_history(spec, hist, part, 'all', key, seen, selfcheck=(idx % 8 == 0))
        part.case(key, nontrivial=nt)
        if nt and len(part.samples) < 1:
            part.sample({'random_project': {m: [G.import_line(spec, m, e) for e in spec['modules'][m]['edges']] for m in spec['order']},
                         'history': ' '.join(G.op_code(o) for o in hist)})
    return part.dump()


def dispatch(arg):
    fn, a = arg
    return {'chain': work_chain, 'random': work_random}[fn](a)


# --------------------------------------------------------------------------------------

CHAINS = ('S', 'R', 'X', 'P', 'A')


def main(run):
    jobs = []
    enumerated = {}
    alphabets = {}
    maxlen = run.pick(4, 6)
    # budget: number of exhaustive histories the tier can afford (see evidence 'enumerated')
    budget = run.pick(18500, 260000)
    complete = True
    used = 0
    spent = 0
    for length in range(1, maxlen + 1):
        level = {}
        for variant in CHAINS:
            spec = G.chain_spec(variant, 'vx_')
            mods, reqs = G.chain_alphabet(variant, spec)
            level[variant] = (spec, mods, reqs, G.chain_count(mods, reqs, length))
        level_total = sum(v[3] for v in level.values())
        for variant in CHAINS:
            spec, mods, reqs, total = level[variant]
            take = total
            if used + level_total > budget:
                # the level does not fit: share what is left between the two chains in proportion
                take = max(0, (budget - used) * total // level_total)
                complete = False
            spent += take
            enumerated['chain%s_len%d' % (variant, length)] = {'histories_ending_in_a_request': total, 'run': take}
            alphabets[variant] = [G.op_code(o) for o in mods] + [
                '%s=%s %s' % (G.op_code(o), spec['probes'][o[1]]['kind'], spec['probes'][o[1]]['expr'] or '') for o in reqs]
            if take < total:
                # a budget-capped level is sampled evenly over the index space, deterministically per seed
                rng = run.rng('cap', variant, length)
                per = 200
                starts = sorted(rng.sample(range(0, total, per), max(1, take // per))) if take >= per else []
                for s in starts:
                    jobs.append(['chain', [variant, length, s, min(per, total - s), run.seed]])
                enumerated['chain%s_len%d' % (variant, length)]['run'] = sum(min(per, total - s) for s in starts)
                enumerated['chain%s_len%d' % (variant, length)]['how'] = 'budget-capped: %d blocks of %d consecutive indices drawn per seed' % (len(starts), per)
            else:
                per = run.pick(250, 1000)
                for s in range(0, total, per):
                    jobs.append(['chain', [variant, length, s, min(per, total - s), run.seed]])
        used = spent
    nrand = run.pick(2400, 24000)
    per = run.pick(25, 100)
    for s in range(0, nrand, per):
        jobs.append(['random', [run.seed, s, per, 40]])
    # long jobs first
    jobs.sort(key=lambda j: (j[0] != 'random', -(j[1][1] if j[0] == 'chain' else 0)))
    failures = 0
    for a, r in core.pmap('vf.props.c09:dispatch', jobs, timeout=run.pick(600, 3000)):
        if isinstance(r, dict) and ('_died' in r or '_timeout' in r or '_error' in r):
            failures += 1
            run.inconclusive.append('worker failure on %s: %s' % (json.dumps(a)[:100], json.dumps(r)[:1500]))
        else:
            run.merge(r)
    full_to = 0
    for length in range(1, maxlen + 1):
        if all(enumerated['chain%s_len%d' % (v, length)]['run'] == enumerated['chain%s_len%d' % (v, length)]['histories_ending_in_a_request'] for v in CHAINS):
            full_to = length
        else:
            break
    run.extra['enumerated'] = {
        'fixed_chains': 'S: m star-imports a (+ from a import K_c), a star-imports b, b re-exports K_c,c_s from the package c and star-imports d (absent at start); '
                        'R: m imports a (+ from a import b), a imports b, b re-exports from the package c and imports d (absent at start); in both, '
                        's = c/K_c.py (absent at start) is a sub-module named like the class K_c defined in c/__init__.py; '
                        'X (error path): m star-imports a and then w, a imports w; R..!w = the request is ARMED: the harness wrapper around '
                        'Project.get_module raises InjectedFault when w is looked up (after a was validated), on the long-lived and on the '
                        'fresh project alike; such a step is never judged, the following ones are (B = save w with a syntax error, G = save it '
                        'as bytes that are not UTF-8, P = repair: ordinary compared steps); '
                        'A (attribute-only sub-module): m imports a; a does `import p` and uses p.t.K_t as base class (KA_a), instance attribute source '
                        '(KB_a().helper) and plain read; p/t.py is absent at the start (Pt creates it); '
                        'P (package creation): directory p holds r (requested, relative imports only) and h but no __init__.py at the start (Pp creates it)',
        'alphabets (E=rewrite with new content+mtime, T=touch, P=create-or-rewrite, R=request; lower case in a history = mtime moved backward)': alphabets,
        'levels': enumerated,
        'complete_up_to_length': full_to,
        'note': 'a history that ends in a modification adds nothing to its longest prefix ending in a request, so every history of '
                'length <= N is covered by the histories ending in a request; only the final request of each is compared (the '
                'earlier ones are the final requests of its prefixes); levels above complete_up_to_length are budget-capped samples',
        'mtime_policy': 'every rewrite/touch moves the file to an integer-second mtime it never had: forward (above all earlier ones) '
                        'or backward (below all earlier ones); exhaustive part: the operation sequences are enumerated completely, the '
                        'direction of each modification is drawn from the seed (p=1/2); random part: backward with p=0.4',
        'random': '%d random histories of 6..40 operations on random projects (every request compared)' % nrand,
    }
    return run.finish(
        rule='case = one history (exhaustive: ends in a request, keyed by its operation string; random: keyed by seed:index); '
             'non-trivial = it contains a compared request that was issued after an earlier request and a later modification of a '
             'module at import distance >= 1 from the requested file, and whose fresh-project answer mentions generated identifiers',
        require=('requests_compared', 'requests_nontrivial', 'answers_equal', 'fresh_vs_fresh_checks', 'histories_random',
                 'modifications_mtime_forward', 'modifications_mtime_backward',
                 'submodules_created_over_a_package_attribute', 'submodules_created_that_are_reached_only_by_package_attribute',
                 'histories_with_a_failing_request',
                 'histories_with_a_package_creation', 'requests_answered_after_a_failing_request_and_a_later_modification',
                 'requests_on_a_file_inside_a_package_after_a_package_creation', 'both_raise_same_type',
                 'armed_requests', 'armed_requests_raised_on_long_lived_project', 'armed_requests_raised_on_both',
                 'requests_compared_while_a_module_has_a_syntax_error'),
        assumptions=[
            'oracle = Project([root]) created after the last write, asked the same request in the same process; its stability is '
            're-checked on every difference (and on a sample of agreements) by asking a third fresh project',
            'every modification sets the mtime with os.utime to an integer second that differs from the current one and was never used '
            'for that file (forward or backward, see mtime_policy); no deletion, no removal of '
            '__init__.py, no second root, import graphs are acyclic, module-level code is straight-line (no MultiName alternatives)',
            'alternatives inside one location entry are compared as sets (their order is an address-order matter of C17); when both '
            'sides raise, nothing is judged (C08)',
            'failing requests are produced by an injected fault (harness wrapper around Project.get_module / SourceModule.scope '
            'raising InjectedFault for one designated module while the request is armed); an armed step is never judged (counted as '
            'raised-on-both or not-reached), the steps after it are compared as usual; modules saved with a syntax error or as '
            'undecodable bytes are ordinary steps (compared; if both sides raise the same type nothing is judged)',
        ],
        exhaustive=(complete and failures == 0 and full_to == maxlen))


def replay(run, path):
    with open(path) as f:
        data = json.load(f)
    part = core.Part()
    bad = 0
    for v in data['violations']:
        c = v['case']
        spec, hist = c['spec'], c['history']
        seen = {}
        before = len(part.violations)
        run_history(spec, hist, part, 'last', c.get('key'), seen)
        part.case(c.get('key'), nontrivial=True)
        for nv in part.violations[before:]:
            bad += 1
            print('REPLAYED', nv['mech'], nv['what'][:400])
        if len(part.violations) == before:
            print('replay: no difference for', c.get('key'), '(recorded mech %s)' % v['mech'])
    run.merge(part.dump())
    return 1 if bad else 0
