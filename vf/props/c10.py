"""C10 - unused-name diagnostics follow the exemption rules exactly.

Monitor: the real supp.linter.lint() is run on generated modules and on real files; its
W01/W02 entries, restricted to identifiers that have no read occurrence in the file, are
compared with a purely syntactic reference written here (Oracle below): bindings are
enumerated from CPython's AST with their kind and owning scope kind, and the rule of the
property statement decides per binding whether W01, W02 or nothing is expected.

The oracle never looks at supp's data structures; it only uses ast + the text.
"""
import ast
import json
import os
import re
import shutil
import tokenize
import tempfile

from vf import core

EXOTIC_LINEBREAKS = '\x0b\x0c\x1c\x1d\x1e\x85\u2028\u2029'
MSG = {'W01': 'Unused name: ', 'W02': 'Unused import: '}
MSG_RE = re.compile(r'^(Unused name|Unused import): (.*)$', re.S)
IMPORT_KINDS = ('import', 'import-as', 'import-dotted', 'from', 'from-as', 'star')
TEXTSEARCH_KINDS = ('import', 'import-as', 'import-dotted', 'from', 'from-as', 'def', 'asyncdef', 'class')

# project modules the generated code imports from (a real module is needed for `import *`)
PROJECT_FILES = {
    'pm.py': 'def use(*a):\n    return a\n\n\ndef it(*a):\n    return ()\n\n\nclass cm(object):\n'
             '    def __enter__(self):\n        return self\n\n    def __exit__(self, *a):\n        return False\n\n\n'
             'class Err(Exception):\n    pass\n\n\nsa = 1\nsb = 2\n_sc = 3\n',
    'ps.py': 'sa = 1\nsb = 2\nv1 = 3\nv2 = 4\n_hid = 5\n\n\ndef sf():\n    pass\n',
    'pk/__init__.py': 'pa = 1\n',
    'pk/sub.py': 'z = 1\n',
    'pk/sub2.py': 'z2 = 1\n',
    '_pk/__init__.py': '',
    '_pk/sub.py': 'z = 1\n',
}


def make_project(root):
    for rel, body in PROJECT_FILES.items():
        p = os.path.join(root, rel)
        os.makedirs(os.path.dirname(p), exist_ok=True)
        with open(p, 'w') as f:
            f.write(body)


# ---------------------------------------------------------------------------------------
# the reference: bindings, their kind, their owning scope kind

class Sc(object):
    def __init__(self, kind, node, parent, via_class_comp=False):
        self.kind = kind                  # module / class / function / lambda
        self.node = node
        self.parent = parent
        self.globals = set()
        self.nonlocals = set()
        self.reads_locals = False
        self.local_ids = set()            # identifiers bound lexically in this scope (params included)
        self.via_class_comp = via_class_comp


class B(object):
    """one binding occurrence"""
    def __init__(self, id, kind, site, exact, lo, hi, unv=None, in_comp=False, module=None, trystar=False):
        self.id = id
        self.kind = kind
        self.site = site
        self.exact = exact                # (line, col) supp should report, None if unknown
        self.lo = lo
        self.hi = hi                      # lines of the binding statement / header
        self.unv = unv
        self.in_comp = in_comp
        self.module = module
        self.trystar = trystar
        # filled in by resolve()
        self.owner = None
        self.via = None
        self.expected = None
        self.why = None
        self.skip = None
        self.nth_in_statement = 0         # n-th alias of one import statement that binds this same top-level name
        self.shares_read_dotted_package = False   # another import of a package read through a dotted import
        self.strict = False               # position taken from the tokenizer and demanded exactly (multi-line import)
        self.cond = False                 # sits inside a compound statement of its scope
        self.nested_locals = False        # a scope nested in the owner reads `locals`
        self.rebound = None               # (kind of nested locals-reading scope that binds id again, conditionally?)

    def shape(self):
        if self.id == '_':
            return 'bare_'
        if self.id.startswith('__') and self.id.endswith('__'):
            return 'dunder'
        if self.id.startswith('_'):
            return 'under'
        return 'plain'

    def scope_label(self):
        s = self.site
        if s.kind == 'module':
            base = 'module'
        elif s.kind == 'class':
            base = 'class' if _fparent(s) is None else 'class-in-func'
        elif s.kind == 'function':
            pk = s.parent.kind
            base = 'function' if pk == 'module' else 'method' if pk == 'class' else 'nested-func'
        else:
            pk = s.parent.kind
            base = 'lambda-in-module' if pk == 'module' else 'lambda-in-class' if pk == 'class' else 'lambda-in-func'
        if self.via:
            base += '+' + self.via
        return base

    def describe(self):
        return {'id': self.id, 'kind': self.kind, 'scope': self.scope_label(), 'shape': self.shape(),
                'position': self.exact, 'lines': [self.lo, self.hi], 'expected': self.expected,
                'why': self.why, 'inside_unvisited': self.unv}


def _fparent(s):
    p = s.parent
    while p is not None:
        if p.kind in ('function', 'lambda'):
            return p
        p = p.parent
    return None


def _charcol(lines, lineno, bytecol):
    try:
        line = lines[lineno - 1]
    except IndexError:
        return bytecol
    if line.isascii():
        return bytecol
    return len(line.encode('utf-8')[:bytecol].decode('utf-8', 'replace'))


COMPOUND = tuple(getattr(ast, n) for n in ('If', 'For', 'AsyncFor', 'While', 'With', 'AsyncWith', 'Try', 'TryStar',
                                            'Match') if hasattr(ast, n))

DEF_RE = re.compile(r'(?:async(?:[ \t\f]|\\\n)+)?(?:def|class)((?:[ \t\f]|\\\n)+)')


class Oracle(object):
    def __init__(self, text, tree=None):
        self.text = text
        self.lines = text.split('\n')
        self.tree = tree if tree is not None else ast.parse(text)
        self.bindings = []
        self.excluded_ids = set()         # AugAssign targets, del targets
        self.match_captures = set()
        self.star_lines = []              # (lo, hi) of star-import statements
        self.read_ids = set()
        for n in ast.walk(self.tree):
            if isinstance(n, ast.Name) and isinstance(n.ctx, ast.Load):
                self.read_ids.add(n.id)
        self.module = Sc('module', self.tree, None)
        self.scopes = [self.module]
        self._stmt_tokens = {}
        self.strict_positions = 0
        self._cond = 0                    # depth of compound statements inside the current scope
        self.stmts(self.tree.body, self.module, None, 0)
        self.locals_context()
        # packages whose top-level name is read while bound by a dotted import (`import a.b` + a read of `a`)
        self.read_dotted_tops = set(b.id for b in self.bindings if b.kind == 'import-dotted' and b.id in self.read_ids)
        for b in self.bindings:
            self.resolve(b)

    # -- enumeration ----------------------------------------------------------------------
    def add(self, id, kind, sc, exact, lo, hi, unv, comp, node=None, **kw):
        b = B(id, kind, sc, exact, lo, hi, unv=unv, in_comp=bool(comp), **kw)
        b.node = node
        b.cond = self._cond > 0
        self.bindings.append(b)
        if kind != 'comp' and kind != 'star':
            sc.local_ids.add(id)
        return b

    def stmts(self, body, sc, unv, comp):
        for s in body:
            self.visit(s, sc, unv, comp)

    def exprs(self, nodes, sc, unv, comp):
        for n in nodes:
            if n is not None:
                self.visit(n, sc, unv, comp)

    def target(self, t, kind, sc, unv, comp, sub=''):
        if isinstance(t, ast.Name):
            self.add(t.id, kind + sub, sc, (t.lineno, t.col_offset), t.lineno, t.lineno, unv, comp, node=t)
        elif isinstance(t, (ast.Tuple, ast.List)):
            for e in t.elts:
                self.target(e, kind, sc, unv, comp, sub or ('-unpack' if kind == 'assign' else ''))
        elif isinstance(t, ast.Starred):
            self.target(t.value, kind, sc, unv, comp, '-star' if kind == 'assign' else sub)
        else:
            self.visit(t, sc, unv, comp)      # attribute / subscript: only sub-expressions

    def def_name_pos(self, node):
        """position of the identifier after def/class, from the text"""
        line = self.lines[node.lineno - 1] if node.lineno - 1 < len(self.lines) else ''
        col = _charcol(self.lines, node.lineno, node.col_offset)
        rest = '\n'.join([line[col:]] + self.lines[node.lineno:node.lineno + 3])
        m = DEF_RE.match(rest)
        if not m or not rest[m.end():].startswith(node.name):
            return None
        before = rest[:m.end()]
        nl = before.count('\n')
        if nl == 0:
            return (node.lineno, col + m.end())
        return (node.lineno + nl, len(before) - before.rfind('\n') - 1)

    def arguments(self, a, inner, outer, unv, comp):
        for x in a.posonlyargs:
            self.add(x.arg, 'param-posonly', inner, (x.lineno, x.col_offset), x.lineno, x.lineno, unv, comp, node=x)
        for x in a.args:
            self.add(x.arg, 'param', inner, (x.lineno, x.col_offset), x.lineno, x.lineno, unv, comp, node=x)
        if a.vararg:
            x = a.vararg
            self.add(x.arg, 'param-vararg', inner, (x.lineno, x.col_offset), x.lineno, x.lineno, unv, comp, node=x)
        for x in a.kwonlyargs:
            self.add(x.arg, 'param-kwonly', inner, (x.lineno, x.col_offset), x.lineno, x.lineno, unv, comp, node=x)
        if a.kwarg:
            x = a.kwarg
            self.add(x.arg, 'param-kwarg', inner, (x.lineno, x.col_offset), x.lineno, x.lineno, unv, comp, node=x)
        # evaluated in the enclosing scope
        self.exprs(a.defaults, outer, unv, comp)
        self.exprs(a.kw_defaults, outer, unv or (inner.kind == 'lambda' and 'lambda-kw-default' or 'def-kw-default'), comp)
        self.exprs([x.annotation for x in a.posonlyargs], outer, unv or 'posonly-annotation', comp)
        self.exprs([x.annotation for x in a.args + a.kwonlyargs], outer, unv, comp)
        self.exprs([x.annotation for x in (a.vararg, a.kwarg) if x], outer, unv, comp)

    def visit(self, node, sc, unv, comp):
        compound = type(node) in COMPOUND
        if compound:
            self._cond += 1
        try:
            self._visit(node, sc, unv, comp)
        finally:
            if compound:
                self._cond -= 1

    def new_scope(self, kind, node, parent, **kw):
        inner = Sc(kind, node, parent, **kw)
        self.scopes.append(inner)
        return inner

    def in_scope(self, fn, *a):
        saved, self._cond = self._cond, 0
        try:
            fn(*a)
        finally:
            self._cond = saved

    def locals_context(self):
        """for the accounting of the `locals` exclusion: which scopes have a nested scope that reads
        `locals`, and which (outer scope, identifier) pairs are bound again inside such a nested scope"""
        self.has_nested_locals = set()
        self.rebound_in_locals_scope = {}
        self.nonlocal_in_locals_scope = set()
        for S in self.scopes:
            if not S.reads_locals or S.kind == 'module':
                continue
            self.nonlocal_in_locals_scope.update(S.nonlocals)
            mine = {}
            for b in self.bindings:
                if b.site is S and b.kind != 'star':
                    mine[b.id] = mine.get(b.id, False) or b.cond
            A = S.parent
            while A is not None:
                self.has_nested_locals.add(id(A))
                for name, cond in mine.items():
                    k = (id(A), name)
                    old = self.rebound_in_locals_scope.get(k)
                    self.rebound_in_locals_scope[k] = (S.kind, cond or bool(old and old[1]))
                A = A.parent

    def _visit(self, node, sc, unv, comp):
        T = type(node)
        if T in (ast.FunctionDef, ast.AsyncFunctionDef):
            kind = 'def' if T is ast.FunctionDef else 'asyncdef'
            self.add(node.name, kind, sc, self.def_name_pos(node), node.lineno,
                     max(node.lineno, node.body[0].lineno), unv, comp)
            self.exprs(node.decorator_list, sc, unv, comp)
            inner = self.new_scope('function', node, sc, via_class_comp=(sc.kind == 'class' and comp > 0))
            self.arguments(node.args, inner, sc, unv, comp)
            self.exprs([node.returns], sc, unv, comp)
            self.in_scope(self.stmts, node.body, inner, unv, 0)
        elif T is ast.Lambda:
            inner = self.new_scope('lambda', node, sc, via_class_comp=(sc.kind == 'class' and comp > 0))
            self.arguments(node.args, inner, sc, unv, comp)
            self.in_scope(self.visit, node.body, inner, unv, 0)
        elif T is ast.ClassDef:
            self.add(node.name, 'class', sc, self.def_name_pos(node), node.lineno,
                     max(node.lineno, node.body[0].lineno), unv, comp)
            self.exprs(node.decorator_list, sc, unv, comp)
            self.exprs(node.bases, sc, unv, comp)
            self.exprs([k.value for k in node.keywords], sc, unv or 'class-keyword', comp)
            inner = self.new_scope('class', node, sc)
            self.in_scope(self.stmts, node.body, inner, unv, 0)
        elif T in (ast.ListComp, ast.SetComp, ast.GeneratorExp, ast.DictComp):
            first = True
            for g in node.generators:
                self.visit(g.iter, sc, unv, comp if first else comp + 1)
                first = False
                self.target(g.target, 'comp', sc, unv, comp + 1)
                self.exprs(g.ifs, sc, unv, comp + 1)
            if T is ast.DictComp:
                self.exprs([node.key, node.value], sc, unv, comp + 1)
            else:
                self.visit(node.elt, sc, unv, comp + 1)
        elif T is ast.Global:
            sc.globals.update(node.names)
        elif T is ast.Nonlocal:
            sc.nonlocals.update(node.names)
        elif T is ast.Name:
            if isinstance(node.ctx, ast.Load) and node.id == 'locals':
                sc.reads_locals = True
        elif T is ast.Assign:
            for t in node.targets:
                self.target(t, 'assign', sc, unv, comp)
            self.visit(node.value, sc, unv, comp)
        elif T is ast.AugAssign:
            if isinstance(node.target, ast.Name):
                self.excluded_ids.add(node.target.id)
            else:
                self.visit(node.target, sc, unv, comp)
            self.visit(node.value, sc, unv, comp)
        elif T is ast.AnnAssign:
            if isinstance(node.target, ast.Name):
                if node.value is not None:
                    self.target(node.target, 'annassign', sc, unv, comp)
            else:
                self.visit(node.target, sc, unv, comp)
            self.exprs([node.annotation, node.value], sc, unv, comp)
        elif T is ast.NamedExpr:
            self.target(node.target, 'walrus', sc, unv, comp)
            self.visit(node.value, sc, unv, comp)
        elif T in (ast.For, ast.AsyncFor):
            self.visit(node.iter, sc, unv, comp)
            self.target(node.target, 'for', sc, unv, comp)
            self.stmts(node.body, sc, unv, comp)
            self.stmts(node.orelse, sc, unv, comp)
        elif T in (ast.With, ast.AsyncWith):
            for it in node.items:
                self.visit(it.context_expr, sc, unv, comp)
                if it.optional_vars is not None:
                    self.target(it.optional_vars, 'with', sc, unv, comp)
            self.stmts(node.body, sc, unv, comp)
        elif T is ast.Try or T is getattr(ast, 'TryStar', None):
            star = T is not ast.Try
            self.stmts(node.body, sc, unv, comp)
            for h in node.handlers:
                if h.type is not None:
                    self.visit(h.type, sc, unv, comp)
                if h.name:
                    self.add(h.name, 'except', sc, (h.lineno, h.col_offset), h.lineno, h.lineno, unv, comp,
                             trystar=star)
                self.stmts(h.body, sc, unv, comp)
            self.stmts(node.orelse, sc, unv, comp)
            self.stmts(node.finalbody, sc, unv, comp)
        elif T is ast.Delete:
            def deltarget(t):
                if isinstance(t, ast.Name):
                    self.excluded_ids.add(t.id)
                elif isinstance(t, (ast.Tuple, ast.List)):
                    for x in t.elts:
                        deltarget(x)
                else:
                    self.visit(t, sc, unv, comp)      # subscript / attribute: sub-expressions may bind
            for t in node.targets:
                deltarget(t)
        elif T is ast.Import:
            hi = getattr(node, 'end_lineno', node.lineno) or node.lineno
            seen_tops = {}
            for a in node.names:
                if a.asname:
                    kind, id = 'import-as', a.asname
                elif '.' in a.name:
                    kind, id = 'import-dotted', a.name.split('.')[0]
                else:
                    kind, id = 'import', a.name
                b = self.add(id, kind, sc, self.alias_pos(a), node.lineno, hi, unv, comp, module=a.name)
                if kind != 'import-as':
                    b.nth_in_statement = seen_tops[id] = seen_tops.get(id, 0) + 1
                self.multiline_alias(node, a, b)
        elif T is ast.ImportFrom:
            hi = getattr(node, 'end_lineno', node.lineno) or node.lineno
            mod = '.' * (node.level or 0) + (node.module or '')
            for a in node.names:
                if a.name == '*':
                    self.star_lines.append((node.lineno, hi))
                    self.add('*', 'star', sc, None, node.lineno, hi, unv, comp, module=mod)
                else:
                    b = self.add(a.asname or a.name, 'from-as' if a.asname else 'from', sc, self.alias_pos(a),
                                 node.lineno, hi, unv, comp, module=mod)
                    self.multiline_alias(node, a, b)
        elif T is getattr(ast, 'Match', None):
            self.visit(node.subject, sc, unv, comp)
            for c in node.cases:
                for n in ast.walk(c.pattern):
                    for f in ('name', 'rest'):
                        v = getattr(n, f, None)
                        if isinstance(v, str) and isinstance(n, (ast.MatchAs, ast.MatchStar, ast.MatchMapping)):
                            self.match_captures.add(v)
                    if isinstance(n, ast.MatchValue):
                        self.visit(n.value, sc, unv, comp)
                    elif isinstance(n, ast.MatchClass):
                        self.visit(n.cls, sc, unv, comp)
                    elif isinstance(n, ast.MatchMapping):
                        self.exprs(n.keys, sc, unv, comp)
                if c.guard is not None:
                    self.visit(c.guard, sc, unv, comp)
                self.stmts(c.body, sc, unv, comp)
        elif T is getattr(ast, 'TypeAlias', None):
            pass                           # PEP 695: outside the modelled syntax
        else:
            for child in ast.iter_child_nodes(node):
                self.visit(child, sc, unv, comp)

    def multiline_alias(self, node, a, b):
        """an import statement that spans several physical lines: take the position of the bound identifier
        from the tokenizer (independent of the AST end offsets) and demand it exactly"""
        hi = getattr(node, 'end_lineno', None)
        if not hi or hi == node.lineno or getattr(a, 'end_lineno', None) is None:
            return
        frag = self.lines[node.lineno - 1:hi]
        if not all(l.isascii() for l in frag) or any(ch in l for l in frag for ch in EXOTIC_LINEBREAKS):
            return
        toks = self._stmt_tokens.get(node.lineno)
        if toks is None:
            toks = []
            try:
                src = iter([l + '\n' for l in frag])
                for t in tokenize.generate_tokens(lambda: next(src, '')):
                    if t.type == tokenize.NAME:
                        toks.append((t.start[0] + node.lineno - 1, t.start[1], t.string))
            except (tokenize.TokenError, SyntaxError, IndentationError):
                pass                      # what was tokenized before the error is still good
            self._stmt_tokens[node.lineno] = toks
        lo_, hi_ = (a.lineno, a.col_offset), (a.end_lineno, a.end_col_offset)
        inside = [t for t in toks if lo_ <= (t[0], t[1]) < hi_]
        if not inside:
            return
        t = inside[-1] if a.asname else inside[0]
        if t[2] != b.id:
            return
        b.exact = (t[0], t[1])
        b.strict = True
        self.strict_positions += 1

    def alias_pos(self, a):
        if not hasattr(a, 'end_col_offset') or a.end_col_offset is None:
            return None
        if a.asname:
            line = a.end_lineno
            bcol = a.end_col_offset - len(a.asname.encode('utf-8'))
        else:
            line, bcol = a.lineno, a.col_offset
        return (line, _charcol(self.lines, line, bcol))

    # -- where an expression-level binding construct sits (evidence only) ---------------------
    def hosts(self, b):
        """(statement-level position, immediate expression position) hosting the lambda / comprehension /
        walrus that makes binding b, e.g. ('AugAssign.value', 'Call.args'); None for statement-level bindings"""
        if b.node is None or not (b.kind in ('comp', 'walrus') or
                                  (b.kind.startswith('param') and b.site.kind == 'lambda')):
            return None
        if not hasattr(self, '_parent'):
            self._parent = {}
            for n in ast.walk(self.tree):
                for f, v in ast.iter_fields(n):
                    if isinstance(v, ast.AST):
                        self._parent[id(v)] = (n, f)
                    elif isinstance(v, list):
                        for x in v:
                            if isinstance(x, ast.AST):
                                self._parent[id(x)] = (n, f)
        cur = b.node
        root_types = (ast.Lambda, ast.NamedExpr, ast.ListComp, ast.SetComp, ast.DictComp, ast.GeneratorExp)
        while not isinstance(cur, root_types):
            pf = self._parent.get(id(cur))
            if pf is None:
                return None
            cur = pf[0]
        pf = self._parent.get(id(cur))
        if pf is None:
            return None
        expr_host = '%s.%s' % (type(pf[0]).__name__, pf[1])
        stop = (ast.stmt, ast.arguments, ast.arg, ast.ExceptHandler, ast.withitem, ast.match_case)
        while True:
            pf = self._parent.get(id(cur))
            if pf is None:
                return None
            if isinstance(pf[0], stop):
                return '%s.%s' % (type(pf[0]).__name__, pf[1]), expr_host
            cur = pf[0]

    # -- the rule of the property statement -------------------------------------------------
    def resolve(self, b):
        sc = b.site
        owner, via = sc, None
        if b.kind.startswith('param'):
            pass
        elif b.kind == 'comp':
            if b.id in sc.globals:
                via = 'comp-under-global'
            elif b.id in sc.nonlocals:
                via = 'comp-under-nonlocal'
        elif b.id in sc.globals:
            owner, via = self.module, 'global'
        elif b.id in sc.nonlocals:
            via = 'nonlocal'
            p = sc.parent
            owner = None
            while p is not None:
                if p.kind in ('function', 'lambda') and b.id in p.local_ids \
                        and b.id not in p.globals and b.id not in p.nonlocals:
                    owner = p
                    break
                p = p.parent
        b.owner, b.via = owner, via
        if b.kind == 'star':
            b.skip = 'star-import-statement'
            return
        if owner is None:
            b.skip = 'nonlocal-owner-not-found'
            return
        if sc.reads_locals or owner.reads_locals:
            b.skip = 'scope-reads-locals'
            return
        if b.id in self.nonlocal_in_locals_scope and owner.kind in ('function', 'lambda'):
            # a nested function that declares the name nonlocal and calls locals() does read it
            b.skip = 'declared-nonlocal-in-a-scope-that-reads-locals'
            return
        b.nested_locals = id(owner) in self.has_nested_locals
        if b.kind in IMPORT_KINDS and b.module and not b.module.startswith('.'):
            b.shares_read_dotted_package = b.module.split('.')[0] in self.read_dotted_tops
        b.rebound = self.rebound_in_locals_scope.get((id(owner), b.id))
        under = b.id.startswith('_')
        is_import = b.kind in IMPORT_KINDS
        if is_import and sc.kind in ('module', 'class'):
            if via == 'nonlocal' or (via == 'global' and sc.kind == 'class'):
                b.skip = 'ambiguous:import-in-class-under-global-or-nonlocal'
            elif under:
                b.why = 'underscore-name'
            elif b.module == '__future__':
                if b.kind in ('from', 'from-as'):
                    b.why = 'future-import'
                else:
                    b.skip = 'ambiguous:plain-import-of-__future__'
            else:
                b.expected = 'W02'
            return
        if owner.kind in ('function', 'lambda'):
            if under:
                b.why = 'underscore-name'
            elif b.kind.startswith('param') and sc.parent.kind == 'class':
                if sc.via_class_comp:
                    b.skip = 'ambiguous:lambda-in-class-level-comprehension'
                else:
                    b.why = 'method-param'
            else:
                b.expected = 'W01'
            return
        b.why = 'owner-is-' + owner.kind


def binding_kind_for_hist(b):
    if b.kind in ('from', 'from-as') and b.module == '__future__':
        return 'future'
    return b.kind


# ---------------------------------------------------------------------------------------
# comparison

def missing_label(b):
    if b.via == 'comp-under-global':
        return 'missing:comp-var-under-global-decl'
    if b.via == 'nonlocal' and b.site.kind == 'class':
        return 'missing:nonlocal-in-class-body'
    if b.unv:
        return 'missing:inside-' + b.unv
    if b.rebound:
        return 'missing:outer-binding-rebound-in-nested-%s-that-reads-locals' % (
            'class-body' if b.rebound[0] == 'class' else b.rebound[0])
    if b.nth_in_statement > 1:
        return 'missing:repeated-package-in-one-import-statement:' + b.kind
    if b.shares_read_dotted_package:
        return 'missing:import-of-package-read-through-dotted-import:' + b.kind
    if b.kind == 'param-posonly':
        return 'missing:posonly-param'
    if b.kind == 'except' and b.trystar:
        return 'missing:except-star-name'
    if b.via == 'global' and b.site.kind == 'module' and b.kind in IMPORT_KINDS:
        return 'missing:import-under-module-level-global-decl'
    return 'missing:other:%s:%s' % (b.kind, b.scope_label())


_PROBE = {}


def _install_probe():
    """observation only: count the names supp binds for `import *` (so that 'no report on a star name' is not vacuous)"""
    if not _PROBE:
        from supp import scope as sscope
        orig = sscope.Flow.add_name
        _PROBE['star'] = 0

        def add_name(self, name, *args, **kwargs):
            if getattr(name, 'is_star', False):
                _PROBE['star'] += 1
            return orig(self, name, *args, **kwargs)
        sscope.Flow.add_name = add_name
    return _PROBE


def marginals(part, b, orc=None):
    h = orc.hosts(b) if orc is not None else None
    if h:
        part.hist('host_statement_position', h[0])
        part.hist('host_expression_position', h[1])
        if h[0].startswith('AugAssign') and b.expected:
            part.count('reportable_bindings_inside_augmented_assignments')
    part.hist('binding_kind', binding_kind_for_hist(b))
    part.hist('scope_kind', b.scope_label())
    part.hist('name_shape', b.shape())
    part.hist('expected_by_kind', '%s->%s' % (binding_kind_for_hist(b), b.expected or 'silent'))
    if b.nested_locals:
        part.count('bindings_checked_although_a_nested_scope_reads_locals')
    if b.nth_in_statement > 1:
        part.hist('repeated_package_in_one_import_statement', '%s #%d in %s -> %s' % (
            b.kind, min(b.nth_in_statement, 4), b.site.kind, b.expected or 'silent'))
        if b.expected:
            part.count('reportable_repeated_package_aliases_in_one_import_statement')
    if b.shares_read_dotted_package:
        part.hist('imports_of_a_package_read_through_a_dotted_import', '%s in %s (module %s) -> %s' % (
            b.kind, b.site.kind, 'package' if '.' not in b.module else 'sub-package', b.expected or 'silent'))
        if b.expected == 'W02':
            part.count('unread_W02_imports_of_a_package_read_through_a_dotted_import')
    if b.rebound:
        k, cond = b.rebound
        part.count('outer_bindings_checked_although_rebound_in_nested_%s_reading_locals' % k)
        part.hist('locals_rebinding', 'nested %s, %s rebinding; outer %s in %s -> %s' % (
            k, 'conditional' if cond else 'unconditional', binding_kind_for_hist(b), b.owner.kind,
            b.expected or 'silent'))
        if b.expected and cond and k == 'class':
            part.count('reportable_outer_bindings_conditionally_rebound_in_class_body_reading_locals')


def compare(part, text, filename, projdir, origin, case_extra=None, histname='matrix'):
    """Run the real lint on text and compare with the oracle.  Returns a dict of figures or None."""
    from supp.linter import lint
    from supp.project import Project
    try:
        tree = ast.parse(text)
    except (SyntaxError, ValueError, RecursionError):
        part.count('skipped_not_valid_python')
        return None
    try:
        orc = Oracle(text, tree)
    except RecursionError:
        part.count('skipped_oracle_recursion')
        return None
    part.count('lint_calls')
    probe = _install_probe()
    before = probe['star']
    try:
        res = lint(Project([projdir]), text, filename)
    except Exception as e:
        part.count('lint_raised(left to C08)')
        part.hist('lint_raised', type(e).__name__)
        return None
    part.count('star_names_resolved_by_supp', probe['star'] - before)
    if any(r[0] == 'E01' for r in res):
        part.count('lint_said_syntax_error(left to C08)')
        return None

    base_case = {'origin': origin, 'filename': os.path.relpath(filename, projdir) if origin == 'gen' else filename}
    if len(text) < 150000:
        base_case['text'] = text
    if case_extra:
        base_case.update(case_extra)
    per_mech = {}

    def viol(mech, what, **kw):
        n = per_mech[mech] = per_mech.get(mech, 0) + 1
        if n > 2:
            part.count('violations_beyond_2_per_mech_and_case')
            return
        c = dict(base_case)
        c.update(kw)
        part.violation(mech, '%s: %s' % (os.path.basename(filename) if origin == 'gen' else filename, what), c)

    exotic = any(ch in text for ch in EXOTIC_LINEBREAKS)
    reports = {}
    for r in res:
        code = r[0]
        if code not in ('W01', 'W02'):
            if code.startswith('W'):
                viol('unknown-warning-code', 'lint returned %r' % (r[:4],), report=list(r[:4]))
            continue
        part.count('reports_total')
        m = MSG_RE.match(r[1] or '')
        if not m:
            viol('malformed-report', 'message %r' % (r[1],), report=list(r[:4]))
            continue
        reports.setdefault(m.group(2), []).append(r[:4])

    by_id = {}
    for b in orc.bindings:
        part.count('bindings_enumerated')
        by_id.setdefault(b.id, []).append(b)

    fig = {'compared': 0, 'expected_report': 0, 'expected_silent': 0}
    for id in sorted(set(by_id) | set(reports)):
        Bs = by_id.get(id, [])
        Rs = reports.get(id, [])
        if id in orc.read_ids:
            part.count('bindings_of_read_identifiers(outside domain)', len(Bs))
            part.count('reports_on_read_identifiers(outside domain)', len(Rs))
            continue
        if id in orc.excluded_ids:
            part.count('bindings_excluded_augassign_or_del', len(Bs))
            part.count('reports_excluded_augassign_or_del', len(Rs))
            continue
        if id == '*':
            for b in Bs:
                part.count('star_import_statements')
            continue
        part.count('never_read_identifiers')
        unB = list(Bs)
        unR = list(Rs)
        pairs = []

        def take(r, cands, how):
            if not cands:
                return False
            cands.sort(key=lambda b: (b.expected != r[0], b.skip is not None))
            b = cands[0]
            unB.remove(b)
            unR.remove(r)
            pairs.append((b, r, how))
            return True

        for r in list(unR):
            take(r, [b for b in unB if b.exact == (r[2], r[3])], 'exact')
        # an exact repeat of a report already matched to a target / parameter (AST position) is a duplicate
        early_dups = [r for r in unR if any(tuple(r) == tuple(r2) and b2.kind not in TEXTSEARCH_KINDS
                                            for b2, r2, _ in pairs)]
        for r in early_dups:
            unR.remove(r)
        for r in list(unR):
            take(r, [b for b in unB if b.kind in TEXTSEARCH_KINDS and b.lo <= r[2] <= b.hi], 'line-span')
        for r in list(unR):
            take(r, [b for b in unB if b.kind not in TEXTSEARCH_KINDS and b.lo == r[2]], 'same-line')
        dups = early_dups + [r for r in unR if any(tuple(r) == tuple(r2) for _, r2, _ in pairs)]
        for r in dups[len(early_dups):]:
            unR.remove(r)
        if exotic:
            for r in list(unR):
                take(r, [b for b in unB if b.kind in TEXTSEARCH_KINDS and b.expected == r[0]], 'exotic-linebreaks')
        for r in list(unR):
            take(r, [b for b in unB if b.expected == r[0] and not b.skip], 'position-mismatch')

        for b, r, how in pairs:
            if b.skip:
                part.count('bindings_skipped:' + b.skip)
                continue
            fig['compared'] += 1
            part.count('bindings_compared')
            part.count('position_match:' + how)
            if how not in ('exact', 'position-mismatch'):
                part.hist('position_left_to_C11', '%s:%s' % (how, b.kind))
                if os.environ.get('VF_C10_DEBUG'):
                    part.sample({'position_left_to_C11': how, 'report': list(r), 'binding': b.describe(),
                                 'line': orc.lines[r[2] - 1] if 0 < r[2] <= len(orc.lines) else None}, limit=50)
            cell = '%s|%s|%s' % (binding_kind_for_hist(b), b.scope_label(), b.shape())
            part.hist(histname, cell)
            marginals(part, b, orc)
            if b.strict and how == 'exact':
                part.count('multiline_import_positions_confirmed_against_tokenizer')
            if b.strict and how != 'exact' and how != 'position-mismatch':
                viol('position-multiline-import:%s:%s' % ('wrong-line' if r[2] != b.exact[0] else 'wrong-column', b.kind),
                     '%s %r reported at %s, the identifier token is at %s (import statement lines %d-%d)' % (
                         r[0], id, (r[2], r[3]), b.exact, b.lo, b.hi), binding=b.describe(), report=list(r))
            if how == 'position-mismatch':
                viol('position-not-at-binding:' + b.kind,
                     '%s %r reported at %s, binding %s is at %s (lines %d-%d)' % (
                         r[0], id, (r[2], r[3]), b.kind, b.exact, b.lo, b.hi),
                     binding=b.describe(), report=list(r))
            if b.expected is None:
                fig['expected_silent'] += 1
                part.count('expected_silent')
                viol('spurious:%s:%s:%s' % (r[0], b.kind, b.why),
                     '%s reported for %r (%s in %s, exempt: %s) at %s' % (
                         r[0], id, b.kind, b.scope_label(), b.why, (r[2], r[3])),
                     binding=b.describe(), report=list(r))
                continue
            fig['expected_report'] += 1
            part.count('expected_' + b.expected)
            if r[0] != b.expected or r[1] != MSG[b.expected] + id:
                viol(('wrong-kind:%s-as-%s:%s' % (b.expected, r[0], b.kind)) if r[0] != b.expected
                     else 'wrong-message:%s:%s' % (r[0], b.kind),
                     'expected %s %r for %r (%s in %s), got %r' % (
                         b.expected, MSG[b.expected] + id, id, b.kind, b.scope_label(), tuple(r)),
                     binding=b.describe(), report=list(r))
            else:
                part.count('reports_confirmed')
        for b in unB:
            if b.skip:
                part.count('bindings_skipped:' + b.skip)
                continue
            fig['compared'] += 1
            part.count('bindings_compared')
            cell = '%s|%s|%s' % (binding_kind_for_hist(b), b.scope_label(), b.shape())
            part.hist(histname, cell)
            marginals(part, b, orc)
            if b.expected is None:
                fig['expected_silent'] += 1
                part.count('expected_silent')
                part.count('silence_confirmed')
                part.hist('exempt_reason', b.why)
                continue
            fig['expected_report'] += 1
            part.count('expected_' + b.expected)
            viol(missing_label(b),
                 'no %s for never-read %r (%s in %s) at %s' % (b.expected, id, b.kind, b.scope_label(), b.exact),
                 binding=b.describe())
        for r in dups:
            viol('duplicate-report', '%r reported more than once' % (tuple(r),), report=list(r))
        seen = set()
        for r in unR:
            if tuple(r) in seen:
                viol('duplicate-report', '%r reported more than once' % (tuple(r),), report=list(r))
            elif any(lo <= r[2] <= hi for lo, hi in orc.star_lines):
                viol('spurious:star-imported-name', '%r reported on a star import' % (tuple(r),), report=list(r))
            elif id in orc.match_captures and not Bs:
                part.count('reports_on_match_captures(outside modelled syntax)')
            elif Bs:
                viol('report-at-non-binding:' + r[0],
                     '%r: no unmatched binding of %r there (bindings at %s)' % (
                         tuple(r), id, [b.exact for b in Bs][:6]), report=list(r))
            else:
                viol('report-without-binding:' + r[0], '%r: %r is never bound syntactically' % (tuple(r), id),
                     report=list(r))
            seen.add(tuple(r))
    return fig


# ---------------------------------------------------------------------------------------
# workers

EXPECTED_STMT_HOSTS = [
    'AugAssign.value', 'AugAssign.target', 'Assign.value', 'Assign.targets', 'AnnAssign.annotation', 'AnnAssign.value',
    'Expr.value', 'Return.value', 'Delete.targets', 'Raise.exc', 'Raise.cause', 'Assert.test', 'Assert.msg', 'If.test',
    'While.test', 'For.iter', 'For.target', 'AsyncFor.iter', 'withitem.context_expr', 'withitem.optional_vars',
    'ExceptHandler.type', 'Match.subject', 'match_case.guard', 'FunctionDef.decorator_list', 'FunctionDef.returns',
    'AsyncFunctionDef.returns', 'ClassDef.decorator_list', 'ClassDef.bases', 'ClassDef.keywords', 'arguments.defaults',
    'arguments.kw_defaults', 'arg.annotation']
EXPECTED_EXPR_HOSTS = [
    'Await.value', 'Yield.value', 'YieldFrom.value', 'FormattedValue.value', 'Subscript.slice', 'Slice.lower',
    'Slice.upper', 'Slice.step', 'Call.args', 'keyword.value', 'Starred.value', 'Attribute.value', 'Dict.keys',
    'Dict.values', 'List.elts', 'Tuple.elts', 'Set.elts', 'BinOp.left', 'BinOp.right', 'BoolOp.values',
    'UnaryOp.operand', 'Compare.left', 'Compare.comparators', 'IfExp.test', 'IfExp.body', 'IfExp.orelse',
    'Lambda.body', 'comprehension.iter', 'comprehension.ifs', 'ListComp.elt', 'SetComp.elt', 'GeneratorExp.elt',
    'DictComp.key', 'DictComp.value', 'NamedExpr.value', 'AugAssign.value', 'Return.value', 'Expr.value']


def work_gen(arg):
    seed, start, count = arg
    import random
    import warnings
    warnings.simplefilter('ignore')
    from vf import gen_unused
    part = core.Part()
    root = tempfile.mkdtemp(prefix='vf-')
    try:
        make_project(root)
        for i in range(start, start + count):
            rng = random.Random('%s:C10:gen:%d' % (seed, i))
            text = gen_unused.generate(rng)
            try:
                compile(text, '<gen>', 'exec', dont_inherit=True)
            except (SyntaxError, ValueError) as e:
                part.count('generated_invalid_discarded')
                part.hist('generated_invalid', str(getattr(e, 'msg', e))[:60])
                continue
            part.count('generated_modules')
            fn = os.path.join(root, 'pk', 'g%d.py' % i) if rng.random() < 0.3 else os.path.join(root, 'g%d.py' % i)
            fig = compare(part, text, fn, root, 'gen', {'seed': seed, 'index': i})
            if fig is None:
                part.case(('gen', seed, i), nontrivial=False)
                continue
            part.case(('gen', seed, i), nontrivial=fig['expected_report'] > 0 and fig['expected_silent'] > 0)
            if not part.samples and len(text) < 2500 and fig['expected_report'] and fig['expected_silent']:
                part.sample({'generated_module': text, 'figures': fig})
    finally:
        shutil.rmtree(root, ignore_errors=True)
    return part.dump()


def work_files(paths):
    from vf import corpus
    part = core.Part()
    root = tempfile.mkdtemp(prefix='vf-')
    try:
        make_project(root)
        for path in paths:
            text = corpus.read_text(path)
            if text is None:
                part.count('files_unreadable_or_invalid')
                continue
            part.count('real_files')
            fig = compare(part, text, path, root, 'file', histname='matrix_real_files')
            if fig is None:
                part.case(path, nontrivial=False)
                continue
            part.case(path, nontrivial=fig['compared'] > 0)
            part.count('real_file_bindings_compared', fig['compared'])
    finally:
        shutil.rmtree(root, ignore_errors=True)
    return part.dump()


def main(run):
    from vf import corpus, gen_unused
    nmod = run.pick(3000, 60000)
    per = run.pick(50, 100)
    jobs = [['vf.props.c10:work_gen', [run.seed, s, min(per, nmod - s)]] for s in range(0, nmod, per)]
    files = corpus.select(run, 120)
    files.sort(key=lambda p: -os.path.getsize(p))
    fjobs = [['vf.props.c10:work_files', files[i::max(1, len(files) // 4)]] for i in range(max(1, len(files) // 4))]
    for a, r in core.pmap('vf.props.c10:dispatch', fjobs + jobs, timeout=1200):
        if isinstance(r, dict) and ('_died' in r or '_timeout' in r or '_error' in r):
            run.inconclusive.append('worker failure on %s: %s' % (json.dumps(a)[:120], json.dumps(r)[:1500]))
        else:
            run.merge(r)
    # keep every mechanism visible in the (size-capped) replay file: interleave by mechanism
    groups = {}
    for v in run.violations:
        groups.setdefault(v['mech'], []).append(v)
    inter = []
    k = 0
    while any(groups.values()):
        for m in sorted(groups):
            if groups[m]:
                inter.append(groups[m].pop(0))
        k += 1
    run.violations = inter
    hs = run.hists.get('host_statement_position', {})
    he = run.hists.get('host_expression_position', {})
    run.extra['host_positions'] = {
        'meaning': 'where the lambda / comprehension / walrus that makes a never-read, compared binding sits: nearest '
                   'statement-level position and immediate expression parent',
        'statement_level': dict(sorted(hs.items())), 'expression_level': dict(sorted(he.items())),
        'expected_statement_level_with_zero_instances': sorted(k for k in EXPECTED_STMT_HOSTS if k not in hs),
        'expected_expression_level_with_zero_instances': sorted(k for k in EXPECTED_EXPR_HOSTS if k not in he),
    }
    run.count('host_positions_covered', len([k for k in EXPECTED_STMT_HOSTS if k in hs]) +
              len([k for k in EXPECTED_EXPR_HOSTS if k in he]))
    seen = set(run.hists.get('matrix', {}))
    cells = gen_unused.feasible_cells()
    zero = sorted(c for c in cells if c not in seen)
    run.extra['matrix'] = {
        'cells_feasible': len(cells), 'cells_with_instances': len(cells) - len(zero),
        'cells_with_zero_instances': zero,
        'instances_per_cell': dict(sorted(run.hists.get('matrix', {}).items())),
        'cells_seen_outside_declared_matrix': sorted(seen - set(cells)),
        'cell_format': 'binding kind | scope kind of the binding site (+global/+nonlocal: declared so there) | name shape; '
                       'only never-read, compared bindings are counted',
    }
    run.count('matrix_cells_covered', len(cells) - len(zero))
    return run.finish(
        rule='case = one generated module or one real file; a generated module is non-trivial when it holds at least '
             'one never-read binding for which a report is expected and one for which silence is expected; a real '
             'file when at least one never-read binding was compared; distinct by (seed, index) or path',
        require=('lint_calls', 'bindings_compared', 'reports_confirmed', 'silence_confirmed', 'expected_W01',
                 'expected_W02', 'generated_modules', 'real_files', 'matrix_cells_covered', 'star_names_resolved_by_supp',
                 'reportable_outer_bindings_conditionally_rebound_in_class_body_reading_locals',
                 'bindings_skipped:scope-reads-locals', 'bindings_checked_although_a_nested_scope_reads_locals',
                 'reportable_bindings_inside_augmented_assignments', 'host_positions_covered',
                 'unread_W02_imports_of_a_package_read_through_a_dotted_import',
                 'multiline_import_positions_confirmed_against_tokenizer',
                 'reportable_repeated_package_aliases_in_one_import_statement'),
        assumptions=[
            'never read = no ast.Name(id, Load) anywhere in the file (strings, __all__, attribute names do not count)',
            'a comprehension variable is owned by the function/lambda/class/module that contains the comprehension '
            '(W01 expected only when that is a function or lambda); a walrus target likewise',
            'a parameter is "of a method" when the def/lambda that declares it is evaluated directly in a class scope',
            '`locals` exclusion: only bindings whose own (site or owning) scope reads `locals` are excluded '
            '(counter bindings_skipped:scope-reads-locals), plus names a locals-reading scope declares nonlocal; a '
            'never-read binding of an enclosing scope stays in the domain even when a nested class body / function '
            'binds the same identifier and calls locals() (counters bindings_checked_although_a_nested_scope_reads_locals, '
            'outer_bindings_checked_although_rebound_in_nested_*_reading_locals, histogram locals_rebinding)',
            'excluded and counted: scopes that read `locals`, identifiers that are AugAssign or del targets, match '
            'captures, PEP 695 names, `import __future__ as x`, imports in a class body under a global/nonlocal '
            'declaration, lambdas inside class-level comprehensions',
            'positions: the identifier token (AST position for targets/parameters, `except` keyword for handlers); '
            'for import/def/class a report anywhere inside the statement header is accepted and the column left to C11',
        ],
        exhaustive=False)


def dispatch(arg):
    fn, a = arg
    import importlib
    mod, _, name = fn.partition(':')
    return getattr(importlib.import_module(mod), name)(a)


def replay(run, path):
    with open(path) as f:
        data = json.load(f)
    part = core.Part()
    root = tempfile.mkdtemp(prefix='vf-')
    done = set()
    try:
        make_project(root)
        for v in data['violations']:
            c = v['case']
            text = c.get('text')
            if text is None and c.get('origin') == 'file':
                from vf import corpus
                text = corpus.read_text(c['filename'])
            if text is None:
                print('replay: no text for', c.get('filename'))
                continue
            key = (c.get('filename'), hash(text))
            if key in done:
                continue
            done.add(key)
            fn = os.path.join(root, c['filename']) if c.get('origin') == 'gen' else c['filename']
            fig = compare(part, text, fn, root, c.get('origin', 'gen'))
            part.case(str(key), nontrivial=bool(fig and fig['compared']))
    finally:
        shutil.rmtree(root, ignore_errors=True)
    run.merge(part.dump())
    for v in run.violations:
        print('REPLAYED', v['mech'], v['what'][:300])
    return 1 if run.violations else 0
