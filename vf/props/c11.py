"""C11 - every reported position points at the identifier it names.

Monitor: the three places where supp reports the position of a binding are observed on the
real code
  (1) supp.linter.lint()            W01/W02 rows ('Unused name: n' / 'Unused import: n', line, col)
  (2) supp.assistant.location()     for a cursor at the end of a name read (the Name objects behind the
                                    returned entries are captured by a recording wrapper around
                                    EvalCtx.declarations, so that the identifier of every entry is known)
  (3) SourceScope.all_names + _global_names of extract_scope(Source(text, filename), project)
and every (identifier, file, line, col) is compared with the text of that file:

  oracle = the text itself, tokenised by CPython's tokenizer (lines are the tokenizer's lines):
           the position must lie inside the file and be the start of a NAME token whose string is the
           identifier; for an `except ... as n` binding it must be the `except` keyword of that clause.
           The same binding must get the same position from all entry points: every lint row and every
           location() entry in the analysed file must be one of the (kind, identifier, position) triples
           that (3) enumerates for the user's text.

Domain (enforced before comparing, filtered cases are counted): ASCII-only lines; star-import names and
names without a source position (builtins, (0, 0)) are outside; module entries of location() are not
bindings; location() raising is C08's business.
"""
import ast
import io
import json
import os
import random
import re
import shutil
import signal
import tempfile
import tokenize
import warnings

from vf import core, corpus
from vf import gen_layout_bindings as G

MARK = '__supp_mark__'
MARKLEN = len(MARK)
SPLIT_ONLY = '\x0b\x0c\x1c\x1d\x1e'          # ASCII characters where str.splitlines() breaks but the tokenizer does not
KINDS = {'ImportedName': 'import', 'FuncScope': 'def', 'ClassScope': 'class', 'ArgumentName': 'param',
         'AssignedName': 'target'}
FIND_KINDS = ('import', 'def', 'class')        # positions recovered by searching the text
CHARNAME = {' ': 'space', '\t': 'tab', '\n': 'newline', '\r': 'newline', ')': 'rparen', ',': 'comma', '.': 'dot',
            ';': 'semicolon', '': 'eof', '\\': 'backslash', '#': 'hash', '\x0c': 'formfeed'}


BUILTIN_NAMES = frozenset(dir(__import__('builtins')))


HUNG = []          # watchdog firings in this worker (their presence makes the run inconclusive, never a violation)


class Watchdog(BaseException):
    pass


def _alarm(signum, frame):
    raise Watchdog()


def guarded(fn, *a):
    """call into supp under a generous watchdog; -> ('ok', value) | ('raised', exc) | ('hung', None)"""
    signal.signal(signal.SIGALRM, _alarm)
    signal.setitimer(signal.ITIMER_REAL, 60)
    try:
        return 'ok', fn(*a)
    except Watchdog:
        HUNG.append(getattr(fn, '__name__', '?'))
        return 'hung', None
    except Exception as e:
        return 'raised', e
    finally:
        signal.setitimer(signal.ITIMER_REAL, 0)


# ------------------------------------------------------------------------------------------
# observation of the Name objects behind location() entries

_CAP = {'depth': 0, 'last': None, 'calls': 0}


def install_capture():
    from supp import evaluator
    cur = evaluator.EvalCtx.declarations
    if getattr(cur, '_vf_c11', False):
        return
    orig = cur

    def declarations(self, node, *a, **k):
        _CAP['depth'] += 1
        try:
            r = orig(self, node, *a, **k)
        finally:
            _CAP['depth'] -= 1
        if _CAP['depth'] == 0:
            _CAP['last'] = r
            _CAP['calls'] += 1
        return r
    declarations._vf_c11 = True
    evaluator.EvalCtx.declarations = declarations


# ------------------------------------------------------------------------------------------
# the oracle: tokens of the text (verdict) and binding sites from CPython's ast (labels, domain)

class Oracle(object):
    def __init__(self, text):
        self.text = text
        self.usable = True
        self.why = None
        if re.search(r'\r(?!\n)', text):
            self.usable, self.why = False, 'lone-CR'
            return
        raw = text.split('\n')
        if raw and raw[-1] == '':
            raw.pop()
        self.lines = raw or ['']
        self.ascii = [all(ord(ch) < 128 for ch in ln) for ln in self.lines]
        self.starts = []
        off = 0
        for ln in text.split('\n'):
            self.starts.append(off)
            off += len(ln) + 1
        self.names = {}           # (l, c) -> NAME token string
        self.spans = []           # (kind, start, end) of comments and strings
        self.sig = []             # significant tokens (type, string, start, end)
        try:
            with warnings.catch_warnings():
                warnings.simplefilter('ignore')
                for t in tokenize.generate_tokens(io.StringIO(text).readline):
                    if t.type == tokenize.NAME:
                        self.names[t.start] = t.string
                    if t.type == tokenize.COMMENT:
                        self.spans.append(('comment', t.start, t.end))
                    elif t.type in (tokenize.STRING, getattr(tokenize, 'FSTRING_MIDDLE', -1)):
                        self.spans.append(('string', t.start, t.end))
                    if t.type not in (tokenize.COMMENT, tokenize.NL, tokenize.NEWLINE, tokenize.INDENT,
                                      tokenize.DEDENT, tokenize.ENDMARKER):
                        self.sig.append((t.type, t.string, t.start, t.end))
        except (tokenize.TokenError, SyntaxError, IndentationError, ValueError) as e:
            self.usable, self.why = False, 'tokenize: %r' % (e,)
            return
        self.sig_at = {t[2]: i for i, t in enumerate(self.sig)}
        # NAME tokens standing alone in parentheses: `(x)`, `( x )`, `(\n x\n)`
        self.paren_wrapped = set()
        for i in range(1, len(self.sig) - 1):
            if self.sig[i][0] == tokenize.NAME and self.sig[i - 1][1] == '(' and self.sig[i + 1][1] == ')':
                self.paren_wrapped.add(self.sig[i][2])
        self.sep_lines = [i + 1 for i, ln in enumerate(text.split('\n')) if any(ch in ln for ch in SPLIT_ONLY)]
        self._sites = None

    # -- text helpers -------------------------------------------------------------------------
    def inside(self, P):
        l, c = P
        return 1 <= l <= len(self.lines) and 0 <= c < len(self.lines[l - 1].rstrip('\r'))

    def is_ascii_line(self, l):
        return 1 <= l <= len(self.lines) and self.ascii[l - 1]

    def off(self, P):
        return self.starts[P[0] - 1] + P[1]

    def span_at(self, P):
        for kind, s, e in self.spans:
            if s <= P < e:
                return kind
        return None

    def excerpt(self, P, width=40):
        l, c = P
        if not (1 <= l <= len(self.lines)):
            return '<line %d of %d>' % (l, len(self.lines))
        return self.lines[l - 1][max(0, c):c + width]

    # -- binding sites --------------------------------------------------------------------------
    @property
    def sites(self):
        if self._sites is None:
            self._sites = []
            self.declared = set()         # identifiers named in a global / nonlocal statement
            self.except_kw = set()        # (name, pos of `except`)
            self.except_name_pos = set()  # pos of the name token after `as`
            try:
                with warnings.catch_warnings():
                    warnings.simplefilter('ignore')
                    tree = ast.parse(self.text)
                self.tree = tree
                self._collect(tree)
            except (SyntaxError, ValueError, RecursionError):
                self.tree = None
            self.site_set = set((s['name'], s['pos']) for s in self._sites)
            self.by_name = {}
            for s in self._sites:
                self.by_name.setdefault(s['name'], []).append(s)
        return self._sites

    def _next_char(self, end):
        o = self.off(end)
        return self.text[o] if o < len(self.text) else ''

    def _site(self, kind, name, pos, end=None, **kw):
        d = {'kind': kind, 'name': name, 'pos': pos}
        if end is None:
            end = (pos[0], pos[1] + len(name))
        d['next'] = self._next_char(end) if self.inside(pos) else ''
        d.update(kw)
        self._sites.append(d)

    def _collect(self, tree):
        for node in ast.walk(tree):
            if isinstance(node, (ast.Import, ast.ImportFrom)):
                start = (node.lineno, node.col_offset)
                for a in node.names:
                    if a.name == '*':
                        continue
                    s = (a.lineno, a.col_offset)
                    e = (a.end_lineno, a.end_col_offset)
                    if a.asname:
                        name = a.asname
                        cand = [t for t in self.sig if s <= t[2] < e and t[0] == tokenize.NAME]
                        pos = cand[-1][2] if cand else s
                    else:
                        name = a.name.partition('.')[0] if isinstance(node, ast.Import) else a.name
                        pos = s
                    self._site('import', name, pos, stmt=start, alias=bool(a.asname),
                               path=a.name, module=getattr(node, 'module', None))
            elif isinstance(node, (ast.FunctionDef, ast.AsyncFunctionDef, ast.ClassDef)):
                start = (node.lineno, node.col_offset)
                i = self.sig_at.get(start)
                if i is None:
                    continue
                is_async = self.sig[i][1] == 'async'
                k = i + 1 if is_async else i
                if k + 1 >= len(self.sig) or self.sig[k][1] not in ('def', 'class'):
                    continue
                kwt, nt = self.sig[k], self.sig[k + 1]
                if nt[0] != tokenize.NAME or nt[1] != node.name:
                    continue
                sep = self.text[self.off(kwt[3]):self.off(nt[2])]
                self._site('class' if isinstance(node, ast.ClassDef) else 'def', node.name, nt[2], stmt=start,
                           sep=sep, is_async=is_async, kw_pos=kwt[2])
            elif isinstance(node, (ast.Global, ast.Nonlocal)):
                self.declared.update(node.names)
            elif isinstance(node, ast.arg):
                self._site('param', node.arg, (node.lineno, node.col_offset))
            elif isinstance(node, ast.Name) and isinstance(node.ctx, ast.Store):
                self._site('target', node.id, (node.lineno, node.col_offset))
            elif isinstance(node, ast.ExceptHandler) and node.name:
                start = (node.lineno, node.col_offset)
                self.except_kw.add((node.name, start))
                i = self.sig_at.get(start)
                npos = None
                if i is not None:
                    depth = 0
                    for t in self.sig[i + 1:]:
                        if t[0] == tokenize.OP:
                            if t[1] in '([{':
                                depth += 1
                            elif t[1] in ')]}':
                                depth -= 1
                            elif t[1] == ':' and depth == 0:
                                break
                        if t[0] == tokenize.NAME and t[1] == node.name:
                            npos = t[2]
                if npos:
                    self.except_name_pos.add(npos)
                self._site('target', node.name, start, end=(start[0], start[1] + 6), is_except=True, name_pos=npos)

    def nearest_site(self, name, kind, P, claimed=()):
        """the binding site a failing report most plausibly belongs to (used for labels only): a site of
        that identifier and kind that no report hits exactly; for text-searched kinds the search runs forward
        from the statement start, so the statement is the last one starting at or before P"""
        self.sites
        cands = [s for s in self.by_name.get(name, []) if kind is None or s['kind'] == kind]
        free = [s for s in cands if s['pos'] not in claimed] or cands
        if not free:
            return None
        before = [s for s in free if 'stmt' in s and s['stmt'] <= P]
        if before:
            return max(before, key=lambda s: (s['stmt'], [-x for x in s['pos']]))
        return min(free, key=lambda s: (abs(s['pos'][0] - P[0]), s['pos']))

    def judge(self, name, P):
        """-> ('ok', how) | ('bad', why); the verdict is decided on tokens only"""
        self.sites
        if not self.inside(P):
            return 'bad', 'outside-file'
        tok = self.names.get(P)
        if tok == name:
            if P in self.except_name_pos and (name, P) not in self.site_set:
                return 'bad', 'except-binding-not-at-keyword'
            return 'ok', 'binding-site' if (name, P) in self.site_set else 'other-token'
        if tok == 'except' and (name, P) in self.except_kw:
            return 'ok', 'except-keyword'
        return 'bad', 'text-mismatch'


def tup(p):
    try:
        l, c = p
        return int(l), int(c)
    except Exception:
        return None


# ------------------------------------------------------------------------------------------
# mechanism labels, decided from the syntactic features of the failing case

def classify(orc, name, kind, P, entry, cursor=None, s3=None):
    l, c = P
    orc.sites
    if entry == 'location' and cursor and l == cursor[0] and c - MARKLEN >= cursor[1]:
        Q = (l, c - MARKLEN)
        if orc.judge(name, Q)[0] == 'ok' and (s3 is None or (kind, name, Q) in s3):
            if name in orc.declared:
                # the binding is made through a global / nonlocal declaration
                return 'location-marker-shift-global-declared-binding'
            return 'location-marker-shift'
        if s3 is not None and (kind, name, Q) in s3:
            # the unmarked analysis reports Q for this binding and Q is itself wrong: name the underlying mechanism
            return classify(orc, name, kind, Q, 'all_names', None, s3)
    claimed = set(q for (k, n, q) in s3 if n == name) if s3 else ()
    if entry == 'location-other-file' and cursor and l == cursor[0]:
        Q = (l, c + MARKLEN)
        if Q[1] >= cursor[1] + MARKLEN and orc.judge(name, Q)[0] == 'ok' and (s3 is None or (kind, name, Q) in s3):
            # a position in ANOTHER file, on the cursor's line number, moved left by the length of the cursor mark
            return 'location-mark-unshift-applied-to-other-file'
    site = orc.nearest_site(name, kind, P, claimed) or orc.nearest_site(name, None, P, claimed)
    ff = bool(orc.sep_lines) and orc.sep_lines[0] <= max(l, site['pos'][0] if site else 0)
    if site is None:
        return 'formfeed-line-shift' if ff else 'other'
    k = site['kind']
    if k == 'import':
        if site['stmt'] <= P < site['pos'] and orc.span_at(P) == 'comment':
            return 'comment-contains-name'
        nxt = site['next']
        if nxt == '\\':
            return 'import-continuation'
        if nxt == '#':
            return 'import-name-abuts-comment'
        if site['pos'][0] - site['stmt'][0] > 50:
            return 'import-beyond-50-lines'
        if ff:
            return 'formfeed-line-shift'
        if site['stmt'] <= P < site['pos'] and orc.span_at(P) == 'string':
            return 'string-contains-name'
        return 'import-name-before-' + CHARNAME.get(nxt, 'other')
    if k in ('def', 'class'):
        sep = site['sep']
        if site.get('is_async') and 'def'.startswith(name) and P == site['kw_pos']:
            return 'async-def-name-prefix-of-def'
        if '\n' in sep and site['pos'][0] == len(orc.lines):
            # continued header whose name stands on the very last line of the file
            return 'continued-def-header-ends-on-last-line'
        if sep.endswith('\t'):
            return 'def-tab-separator'
        if sep.endswith('\n'):
            return 'def-continuation'
        if ff:
            return 'formfeed-line-shift'
        return k + '-position-other'
    if k == 'target' and not site.get('is_except') and orc.inside(P) and P < site['pos'] and site['pos'] in orc.paren_wrapped:
        between = orc.text[orc.off(P):orc.off(site['pos'])]
        if re.match(r'\((?:[\s(\\]|#[^\n]*\n)*$', between):
            # reported at the parenthesis that opens a parenthesised target
            return 'parenthesised-target-at-open-paren'
    if ff:
        return 'formfeed-line-shift'
    if site.get('is_except'):
        return 'except-position-other'
    return k + '-position-other'


# ------------------------------------------------------------------------------------------
# the monitor for one text

class Monitor(object):
    def __init__(self, part, max_per_mech=4):
        self.p = part
        self.per_mech = {}
        self.max_per_mech = max_per_mech
        self.file_oracles = {}
        install_capture()

    def report(self, mech, what, case):
        self.p.hist('violations_by_mechanism(all instances)', mech)
        self.p.hist('violations_by_mechanism_and_workload', '%s:%s' % (mech, case.get('kind')))
        n = self.per_mech.get(mech, 0)
        self.per_mech[mech] = n + 1
        if n < self.max_per_mech:
            self.p.violation(mech, what, case)
        else:
            self.p.count('violation_records_folded(same mechanism, same chunk)')

    def other_oracle(self, path):
        o = self.file_oracles.get(path)
        if o is None:
            try:
                with open(path) as f:      # the way supp reads it
                    text = f.read()
                o = Oracle(text)
            except (OSError, UnicodeDecodeError, ValueError):
                o = False
            if len(self.file_oracles) > 150:
                self.file_oracles.clear()
            self.file_oracles[path] = o
        return o or None

    def other_bindings(self, path):
        """(kind, identifier, position) triples that all_names/_global_names enumerate for another file, analysed on
        its own (unmarked) text; None if that analysis is not available"""
        key = ('s3', path)
        if key in self.file_oracles:
            return self.file_oracles[key]
        from supp.nast import extract_scope
        from supp.util import Source
        out = None
        try:
            with open(path) as f:
                text = f.read()
            st, names = guarded(lambda: (lambda sc: [n for _, n in sc.all_names] + list(sc._global_names.values()))(
                extract_scope(Source(text, path), _mk_project(os.path.dirname(path)))))
            if st == 'ok':
                out = set()
                for n in names:
                    kind = KINDS.get(type(n).__name__)
                    P = tup(getattr(n, 'declared_at', None))
                    if kind and P and P != (0, 0) and not getattr(n, 'is_star', False):
                        out.add((kind, n.name, P))
        except (OSError, UnicodeDecodeError, ValueError):
            out = None
        self.file_oracles[key] = out
        return out

    def check(self, orc, name, kind, P, entry, case, shown_file, cursor=None, s3=None, claims=None):
        """one oracle comparison; -> True if the position is right"""
        p = self.p
        if orc.inside(P) and not orc.is_ascii_line(P[0]):
            p.count('skipped_position_on_non_ascii_line')
            return None
        verdict, how = orc.judge(name, P)
        if verdict == 'ok' and s3 is not None and (kind, name, P) not in s3:
            verdict, how = 'bad', 'differs-from-module-bindings'
        p.count('positions_compared')
        p.count('positions_compared:' + entry)
        if getattr(self, 'unsaved', False):
            p.count('positions_compared(unsaved buffer)')
        if verdict == 'ok':
            p.hist('agreement', '%s:%s:%s' % (entry, kind, how))
            if how == 'other-token':
                site = orc.nearest_site(name, kind, P)
                where = 'unknown'
                if site is not None and kind == 'import':
                    where = 'same-import-statement' if site['stmt'] <= P <= site['pos'] else 'different-statement'
                elif site is not None:
                    where = 'different-statement'
                p.hist('observation_only:position_is_another_token_of_the_same_identifier', '%s:%s' % (kind, where))
            return True
        # failing: domain filter on the true sites of the identifier
        if any(not orc.is_ascii_line(s['pos'][0]) for s in orc.by_name.get(name, [])):
            p.count('skipped_failure_identifier_has_site_on_non_ascii_line')
            return None
        mech = classify(orc, name, kind, P, entry, cursor, s3 if s3 is not None else claims)
        if getattr(self, 'unsaved', False) and case.get('named_file_held', False):
            # the same text analysed under a file name had no failure: the mechanism needs the missing file name
            mech += '-unsaved-buffer'
        site = orc.nearest_site(name, kind, P, set(q for (k, n, q) in (s3 if s3 is not None else claims or ()) if n == name))
        what = '%s reports %s %r at %s:%d:%d where the text is %r (%s)%s%s' % (
            entry, kind, name, shown_file, P[0], P[1], orc.excerpt(P, 24), how,
            '; nearest binding of that kind is at %d:%d' % site['pos'] if site else '',
            '; cursor at %d:%d' % tuple(cursor) if cursor else '')
        c = dict(case)
        c.update({'entry': entry, 'name': name, 'binding_kind': kind, 'reported': list(P),
                  'reported_file': shown_file, 'cursor': list(cursor) if cursor else None})
        self.report(mech, what, c)
        return False

    # -- one text through all three entry points ---------------------------------------------------
    def analyse(self, text, filename, project, case, shown, rng, nreads, cursors=None, prefer_right=False):
        """-> dict of per-text numbers, or None if the text is outside what can be judged.
        filename=None is the unsaved-buffer configuration: supp names the text '<string>'."""
        self.unsaved = filename is None
        own_file = filename if filename is not None else '<string>'
        if self.unsaved:
            case = dict(case)
            case['unsaved_buffer'] = True
            self.p.count('texts_analysed_as_unsaved_buffer(filename=None)')
        from supp.linter import lint
        from supp.assistant import location
        from supp.nast import extract_scope
        from supp.util import Source
        p = self.p
        orc = Oracle(text)
        if not orc.usable:
            p.count('texts_skipped:' + (orc.why or '?').split(':')[0])
            return None
        orc.sites
        if orc.tree is None:
            p.count('texts_skipped:not-parsable')
            return None
        stats = {'checked': 0, 'find_kind': 0, 'loc_entries': 0, 'bad': 0, 'failures': 0, 'right_of_cursor': 0}

        # (3) bindings enumerated for the module
        st, scope = guarded(lambda: extract_scope(Source(text, filename), project))
        if st != 'ok':
            p.count('extract_scope_%s(C08: skipped)' % st)
            return None
        names = []
        st, r = guarded(lambda: [n for _, n in scope.all_names] + list(scope._global_names.values()))
        if st != 'ok':
            p.count('all_names_%s(C08: skipped)' % st)
            return None
        names = r
        s3 = set()
        s3_any = set()
        for n in names:
            kind = KINDS.get(type(n).__name__)
            if kind is None:
                p.count('module_bindings_skipped:type-' + type(n).__name__)
                continue
            if getattr(n, 'is_star', False):
                p.count('module_bindings_skipped:star-import')
                continue
            P = tup(getattr(n, 'declared_at', None))
            if P is None or P == (0, 0):
                p.count('module_bindings_skipped:no-position')
                continue
            s3.add((kind, n.name, P))
            s3_any.add((n.name, P))
        for kind, name, P in sorted(s3):
            r = self.check(orc, name, kind, P, 'all_names', case, shown, claims=s3)
            if r is None:
                continue
            stats['checked'] += 1
            p.hist('binding_kinds_checked', kind)
            if kind in FIND_KINDS:
                stats['find_kind'] += 1
                p.count('text_searched_bindings_checked(import/def/class)')
            if (name, P) in orc.except_kw:
                p.count('except_bindings_checked')
            if kind in FIND_KINDS and any(s['kind'] == kind and s['pos'][0] == len(orc.lines) and '\n' in s.get('sep', '')
                                          for s in orc.by_name.get(name, [])):
                p.count('continued_def_class_headers_ending_on_the_last_line_checked')
            if any(s['pos'][0] == len(orc.lines) for s in orc.by_name.get(name, [])):
                p.count('bindings_checked_on_the_last_line_of_the_file')
            if kind == 'target' and any(s['pos'] in orc.paren_wrapped for s in orc.by_name.get(name, []) if s['kind'] == 'target'):
                p.count('bindings_checked_of_identifiers_with_a_parenthesised_target')
            if name in orc.declared:
                p.count('bindings_checked_of_global_or_nonlocal_declared_identifiers')
            if not r:
                stats['bad'] += 1
                stats['failures'] += 1

        # (1) lint rows
        st, rows = guarded(lint, project, text, filename)
        if st != 'ok':
            p.count('lint_%s(C08: skipped)' % st)
            rows = []
        for row in rows:
            code = row[0]
            if code not in ('W01', 'W02'):
                continue
            m = re.match(r'Unused (?:name|import): (.*)$', row[1])
            P = tup((row[2], row[3]))
            if not m or P is None:
                p.count('lint_rows_unreadable')
                continue
            name = m.group(1)
            kind = 'import' if code == 'W02' else None
            if kind is None:
                ks = sorted(k for (k, n, q) in s3 if n == name and q == P)
                kind = ks[0] if ks else None
            if (name, P) not in s3_any:
                # the row names a binding that (3) does not enumerate at this position
                if orc.inside(P) and not orc.is_ascii_line(P[0]):
                    p.count('skipped_position_on_non_ascii_line')
                    continue
                p.count('positions_compared')
                p.count('positions_compared:lint')
                c = dict(case)
                c.update({'entry': 'lint', 'name': name, 'reported': list(P)})
                stats['failures'] += 1
                self.report('lint-differs-from-module-bindings',
                            'lint reports %r at %s:%d:%d, all_names has no binding of that name there' % (
                                name, shown, P[0], P[1]), c)
                continue
            r = self.check(orc, name, kind, P, 'lint', case, shown, claims=s3)
            if r is not None:
                p.count('lint_rows_checked')
            if r is False:
                stats['failures'] += 1

        # (2) go-to-definition from the end of name reads
        reads = []
        for node in ast.walk(orc.tree):
            if isinstance(node, ast.Name) and isinstance(node.ctx, ast.Load) and orc.is_ascii_line(node.lineno):
                reads.append((node.lineno, node.col_offset, node.id))
        reads.sort()
        # reads of builtins have no source position (outside the property; location() on them is C08's business)
        nb = len(reads)
        reads = [rd for rd in reads if not (rd[2] in BUILTIN_NAMES and rd[2] not in orc.by_name)]
        p.count('reads_of_builtins_not_queried', nb - len(reads))
        if cursors is not None:     # replay: only the recorded cursors
            want = set(tuple(c) for c in cursors)
            reads = [rd for rd in reads if (rd[0], rd[1] + len(rd[2])) in want]
        right = [rd for rd in reads if any(s['pos'][0] == rd[0] and s['pos'][1] > rd[1] and not s.get('is_except')
                                           for s in orc.by_name.get(rd[2], []))]
        if len(reads) > nreads:
            first = rng.sample(right, min(len(right), nreads if prefer_right else nreads // 2))
            fs = set(first)
            rest = [rd for rd in reads if rd not in fs]
            reads = first + rng.sample(rest, min(len(rest), nreads - len(first)))
            reads.sort()
        for (l, c, ident) in reads:
            cur = (l, c + len(ident))
            _CAP['last'] = None
            calls0 = _CAP['calls']
            st, locs = guarded(location, project, text, cur, filename)
            p.count('location_calls')
            if st != 'ok':
                p.count('location_%s(C08: skipped)' % st)
                continue
            objs = _CAP['last'] if _CAP['calls'] > calls0 else []
            pairs = self.pair(objs, locs)
            if pairs is None:
                p.count('location_results_not_matched_to_names(skipped)')
                continue
            if not pairs:
                p.count('location_empty_results')
            for obj, e in pairs:
                kind = KINDS.get(type(obj).__name__)
                if kind is None:
                    p.count('location_entries_skipped:' + type(obj).__name__)
                    continue
                if getattr(obj, 'is_star', False):
                    p.count('location_entries_skipped:star-import')
                    continue
                P = tup(e.get('loc'))
                if P is None or P == (0, 0):
                    p.count('location_entries_skipped:no-position')
                    continue
                f = e.get('file')
                if f == own_file:
                    if P[0] == cur[0] and P[1] >= cur[1]:
                        p.count('location_entries_right_of_cursor_on_cursor_line')
                        if obj.name in orc.declared:
                            p.count('location_entries_right_of_cursor_on_cursor_line(global/nonlocal declared)')
                        stats['right_of_cursor'] += 1
                        if self.unsaved:
                            p.count('location_entries_right_of_cursor_on_cursor_line(unsaved buffer)')
                    r = self.check(orc, obj.name, kind, P, 'location', case, shown, cursor=cur, s3=s3)
                    if r is False:
                        stats['failures'] += 1
                    if r is not None:
                        stats['loc_entries'] += 1
                        p.count('location_entries_checked')
                else:
                    o2 = self.other_oracle(f) if isinstance(f, str) and os.path.isfile(f) else None
                    if o2 is None or not o2.usable:
                        p.count('location_entries_skipped:file-not-readable')
                        continue
                    sf = os.path.relpath(f, case['root']) if case.get('root') and f.startswith(case['root']) else f
                    c2 = dict(case)
                    c2.pop('root', None)
                    s3o = self.other_bindings(f)
                    if s3o is None:
                        p.count('other_file_bindings_not_available(token oracle only)')
                    if P[0] == cur[0]:
                        p.count('other_file_entries_on_the_cursor_line_number')
                        true_col = None
                        if o2.judge(obj.name, P)[0] == 'ok':
                            true_col = P[1]
                        elif o2.judge(obj.name, (P[0], P[1] + MARKLEN))[0] == 'ok':
                            true_col = P[1] + MARKLEN
                        if true_col is not None and true_col >= cur[1] + MARKLEN:
                            # the definition sits where a same-file definition would have been moved by the mark
                            p.count('other_file_entries_on_the_cursor_line_number_right_of_cursor_plus_mark')
                    r = self.check(o2, obj.name, kind, P, 'location-other-file', c2, sf, cursor=cur, s3=s3o)
                    if r is False:
                        stats['failures'] += 1
                    if r is not None:
                        p.count('location_entries_checked_in_other_files')
        return stats

    @staticmethod
    def pair(objs, locs):
        """match the Name objects behind a location() answer with its entries, by order and shape; objects without
        a position or a file (builtins, compiled modules) may be left out of the answer"""
        def has_pos(o):
            return getattr(o, 'declared_at', None) is not None and getattr(o, 'filename', None) is not None

        def attempt(objs):
            if len(objs) != len(locs):
                return None
            out = []
            for o, e in zip(objs, locs):
                if isinstance(e, list):
                    if not isinstance(o, list):
                        return None
                    if len(o) != len(e):
                        o = [x for x in o if has_pos(x)]
                        if len(o) != len(e):
                            return None
                    out.extend(zip(o, e))
                elif isinstance(e, dict):
                    if isinstance(o, list):
                        return None
                    out.append((o, e))
                else:
                    return None
            return out
        if not isinstance(locs, list) or not isinstance(objs, list):
            return None if locs else []
        r = attempt(objs)
        if r is None:
            kept = []
            for o in objs:
                if isinstance(o, list):
                    if any(has_pos(x) for x in o):
                        kept.append(o)
                elif has_pos(o):
                    kept.append(o)
            r = attempt(kept)
        if r is None and not locs:
            return []
        return r


# ------------------------------------------------------------------------------------------
# enumerated layout probes (one per layout family; the design's hand probes are among them)

PROBES = [
    ('def-tab', 'cur_mod.py', 'def\tf():\n    return 1\n\n\nprint(f)\n'),
    ('def-two-tabs-class-tab', 'cur_mod.py', 'class\tC(object):\n    def\t\tm(self): pass\n\n\nprint(C)\n'),
    ('def-continuation', 'cur_mod.py', 'def \\\nf(): pass\n\n\nclass \\\nC: pass\n\n\nprint(f, C)\n'),
    ('def-continuation-indented', 'cur_mod.py', 'def \\\n    f(): pass\n\n\nprint(f)\n'),
    ('async-def-d', 'cur_mod.py', 'async def d(): pass\n\n\nasync def de(): pass\n\n\nasync  def  f(): pass\nprint(d, de, f)\n'),
    ('import-continuation', 'cur_mod.py', 'import x\\\n.y\nprint(1)\n'),
    ('import-continuation-later-read', 'cur_mod.py', 'import x\\\n.y\nprint(x)\n'),
    ('import-continuation-from', 'cur_mod.py', 'from os import sep\\\n    , path\nprint(path)\n'),
    ('import-abuts-comment', 'cur_mod.py', 'import os#c\nprint(os)\n'),
    ('formfeed-own-line', 'cur_mod.py', 'import os\n\x0c\nimport glob\n\n\ndef g(): pass\n\n\nprint(glob, g, os)\n'),
    ('formfeed-line-start', 'cur_mod.py', 'x = 1\n\x0cimport os\nprint(os, x)\n'),
    ('formfeed-in-comment', 'cur_mod.py', 'x = 1  # page \x0c break\ny = 2\n\n\ndef f(a): return a\n\n\nprint(x, y, f)\n'),
    ('comment-contains-name', 'cur_mod.py', 'from os import (  # path\n    sep, path)\nprint(sep, path)\n'),
    ('comment-between-names', 'cur_mod.py', 'from os import (\n    sep,  # was: getcwd , path\n    getcwd,\n    path,\n)\nprint(sep, path, getcwd)\n'),
    ('cursor-before-binding-loop', 'cur_mod.py', 'xs = [1]\nfor i in xs:\n    print(ab); ab = i\n'),
    ('cursor-before-binding-comprehension', 'cur_mod.py', 'xs = [1]\ny = [ab for ab in xs]\nprint(y)\n'),
    ('cursor-before-binding-lambda', 'cur_mod.py', 'g = lambda: ab; ab = 1\nprint(g)\n'),
    ('alias-equals-module', 'cur_mod.py', 'from time import time\nimport os.path as os\nimport a.b as a\nfrom b import ab as b\nprint(time, os, a, b)\n'),
    ('other-file-definition-on-cursor-line-number', 'cur_mod.py', "from shim import text_type\ns = text_type('x')\nsquares = [value * value for value in range(3)]\n"),
    ('other-file-long-lines', 'cur_mod.py', 'from wide import w2a, w3c, w4b, w5c\nw2a\nw3c\nprint(w4b)\nw5c\n'),
    ('global-binding-right-of-cursor', 'cur_mod.py', 'counter = 0\n\n\ndef bump(step):\n    global counter\n    print(counter); counter = step\n    print(counter)\n\n\n'
                                                     'class G:\n    global cg; print(cg); cg = 1\n\n\ndef outer():\n    nl = 0\n\n    def inner():\n        nonlocal nl; print(nl); nl += 1\n'
                                                     '    print(nl); return inner\n\n\nprint(counter, cg, outer)\n'),
    ('parenthesised-targets', 'cur_mod.py', 'total = acc = 0\nn = 2\n(total) += n\n( total ) *= 2\n(\n    acc\n) -= 1\n(x) = 1\n(y): int = 1\nfor (i) in [1]: pass\n'
                                            'with open(n) as (fh): pass\n[(p), q] = 1, 2\n((r), s) = 1, 2\ndel (x)\nzs = [k for (k) in [1]]\n'
                                            'print(total, acc, y, i, fh, p, q, r, s, zs)\n'),
    ('eof-def-continued-no-newline', 'cur_mod.py', 'x = 1\n\n\ndef \\\nfact(n): return n'),
    ('eof-def-continued-one-newline', 'cur_mod.py', 'x = 1\n\n\ndef \\\nfact(n): return n\n'),
    ('eof-def-continued-extra-line', 'cur_mod.py', 'x = 1\n\n\ndef \\\nfact(n): return n\n\n'),
    ('eof-def-continued-comment-line', 'cur_mod.py', 'x = 1\n\n\ndef \\\nfact(n): return n\n# fact'),
    ('eof-async-class-continued', 'cur_mod.py', 'async \\\n def \\\n  go(): pass\n\n\nclass \\\n K: pass'),
    ('eof-class-continued-one-newline', 'cur_mod.py', 'async \\\n def \\\n  go(): pass\n\n\nclass \\\n K: pass\n'),
    ('eof-nested-def-continued', 'cur_mod.py', 'def outer():\n    def \\\n inner(): pass'),
    ('eof-method-continued', 'cur_mod.py', 'class K(object):\n    async def \\\n        m(self): pass\n'),
    ('eof-import-no-newline', 'cur_mod.py', 'x = 1\nfrom os import (sep,\n    path as \\\n p)'),
    ('eof-assignment-no-newline', 'cur_mod.py', 'x = 1\n(a,\n (b)) = \\\n 1, 2'),
    ('except-as', 'cur_mod.py', 'try:\n    pass\nexcept   ValueError   as   e: print(e)\nexcept (KeyError, OSError)as e2:\n    print(e2)\n'),
    ('plain-layouts', 'vfp/cur_mod.py', 'import os, glob as g\nfrom . import alpha, sub as s\nfrom .alpha import (ab,\n                    b as bb)\n\n\n'
                                        '@staticmethod\ndef f(a, b=1, *args, c, **kw):\n    global G; G = 1\n    return a, b, args, c, kw\n\n\n'
                                        'class  K (object) :\n    x: int = 1\n\n\n(p, (q, *r)), [u, v] = 1, 2\nwith open(os) as fh, f() as (m, n): print(fh, m, n)\n'
                                        'print(os, g, alpha, s, ab, bb, f, K, p, q, r, u, v, G)\nif (w := 1): print(w)\n'),
    ('import-more-than-50-lines', 'cur_mod.py', 'from os import (\n' + '\n' * 52 + '    sep,\n)\nprint(sep)\n'),
    ('crlf', 'cur_mod.py', 'import os\r\nfrom os import (sep,\r\n    path)\r\ndef f(a):\r\n    return a\r\nprint(os, sep, path, f)\r\n'),
]


# ------------------------------------------------------------------------------------------
# workers

def _mk_project(root):
    from supp.project import Project
    return Project([root])


def work_gen(arg):
    seed, start, count, nreads = arg[:4]
    nreads_unsaved = arg[4] if len(arg) > 4 else 10
    part = core.Part()
    mon = Monitor(part)
    root = tempfile.mkdtemp(prefix='vf-')
    try:
        G.write_tree(root)
        for i in range(start, start + count):
            rng = random.Random('%s:C11:gen:%d' % (seed, i))
            g = G.generate(rng)
            part.count('generated_texts')
            part.count('generated_invalid_discarded', g['discarded'])
            for f in g['features']:
                part.hist('layout_features_generated', f)
            case = {'kind': 'gen', 'seed': seed, 'index': i, 'filename': g['filename'], 'text': g['text'],
                    'tree': G.TREE, 'root': root}
            st = mon.analyse(g['text'], os.path.join(root, g['filename']), _mk_project(root), case,
                             g['filename'], rng, nreads)
            nontrivial = bool(st and st['find_kind'] >= 2 and st['checked'] >= 4 and st['loc_entries'] >= 1 and
                              len(g['features']) >= 2)
            part.case(('gen', seed, i), nontrivial=nontrivial)
            # the same text as an unsaved buffer (filename=None); relative imports need a file name
            if st and not g['filename'].startswith('vfp/') and 'relative-import' not in g['features']:
                case2 = dict(case)
                case2['named_file_held'] = st['failures'] == 0
                st2 = mon.analyse(g['text'], None, _mk_project(root), case2, '<string>', rng, nreads_unsaved, prefer_right=True)
                part.case(('gen-unsaved', seed, i), nontrivial=bool(st2 and st2['right_of_cursor'] >= 1 and st2['checked'] >= 4))
            elif st:
                part.count('unsaved_buffer_configuration_skipped:relative-imports')
            if st and len(part.samples) < 1 and len(g['text']) < 700:
                part.sample({'generated_text': g['text'], 'features': g['features'], 'numbers': st})
        _strip_roots(part, root)
    finally:
        shutil.rmtree(root, ignore_errors=True)
    return part.dump()


def work_probes(arg):
    nreads = arg
    part = core.Part()
    mon = Monitor(part, max_per_mech=3)
    root = tempfile.mkdtemp(prefix='vf-')
    try:
        G.write_tree(root)
        for label, rel, text in PROBES:
            rng = random.Random('C11:probe:' + label)
            case = {'kind': 'probe', 'probe': label, 'filename': rel, 'text': text, 'tree': G.TREE, 'root': root}
            before = dict(mon.per_mech)
            st = mon.analyse(text, os.path.join(root, rel), _mk_project(root), case, rel, rng, nreads)
            new = sorted(m for m, n in mon.per_mech.items() if n > before.get(m, 0))
            part.hist('probe_outcomes', '%s -> %s' % (label, ','.join(new) if new else ('held' if st else 'skipped')))
            part.count('probe_texts')
            part.case(('probe', label), nontrivial=bool(st and st['checked'] >= 1))
            if st and not rel.startswith('vfp/'):
                case2 = dict(case)
                case2['named_file_held'] = st['failures'] == 0
                before = dict(mon.per_mech)
                st2 = mon.analyse(text, None, _mk_project(root), case2, '<string>', rng, nreads)
                new = sorted(m for m, n in mon.per_mech.items() if n > before.get(m, 0))
                part.hist('probe_outcomes', '%s [unsaved buffer] -> %s' % (label, ','.join(new) if new else ('held' if st2 else 'skipped')))
                part.case(('probe-unsaved', label), nontrivial=bool(st2 and st2['checked'] >= 1))
        _strip_roots(part, root)
    finally:
        shutil.rmtree(root, ignore_errors=True)
    return part.dump()


def work_files(arg):
    seed, paths, nreads = arg
    part = core.Part()
    mon = Monitor(part)
    std = corpus.stdlib_root()
    for path in paths:
        text = corpus.read_text(path)
        if text is None:
            part.count('files_skipped:unreadable-or-invalid')
            continue
        part.count('real_files')
        shown = os.path.relpath(path, core.REPO) if path.startswith(core.REPO + os.sep) else (
            'stdlib:' + os.path.relpath(path, std) if path.startswith(std + os.sep) else path)
        rng = random.Random('%s:C11:file:%s' % (seed, shown))
        case = {'kind': 'file', 'path': path, 'shown': shown}
        if len(text) < 30000:
            case['text'] = text
        st = mon.analyse(text, path, _mk_project(core.REPO), case, shown, rng, nreads)
        part.case(('file', shown), nontrivial=bool(st and st['find_kind'] >= 1 and st['loc_entries'] >= 1))
        if any(ch in text for ch in SPLIT_ONLY):
            part.count('real_files_with_formfeed_like_characters')
    _hung(part)
    return part.dump()


def _hung(part):
    if HUNG:
        part.inconclusive.append('%d call(s) into supp did not answer within the 60 s watchdog (%s): termination is C08\'s '
                                 'business, positions could not be compared for those texts' % (len(HUNG), sorted(set(HUNG))))
        del HUNG[:]


def _strip_roots(part, root):
    """scratch directory names must not leak into evidence / replay files"""
    _hung(part)
    for v in part.violations:
        v['case'].pop('root', None)
        v['what'] = v['what'].replace(root + os.sep, '')


def dispatch(arg):
    fn, a = arg
    return globals()[fn](a)


# ------------------------------------------------------------------------------------------

def main(run):
    files = corpus.select(run, 150)
    sizes = {}
    for f in files:
        try:
            sizes[f] = os.path.getsize(f)
        except OSError:
            sizes[f] = 0
    files.sort(key=lambda f: -sizes[f])
    nreads_file = run.pick(12, 30)
    nreads_gen = run.pick(24, 30)
    jobs = []
    # big files alone, small ones in groups
    group, gsize = [], 0
    for f in files:
        if sizes[f] > 60000:
            jobs.append(['work_files', [run.seed, [f], nreads_file]])
            continue
        group.append(f)
        gsize += sizes[f]
        if gsize > 120000 or len(group) >= 12:
            jobs.append(['work_files', [run.seed, group, nreads_file]])
            group, gsize = [], 0
    if group:
        jobs.append(['work_files', [run.seed, group, nreads_file]])
    jobs.append(['work_probes', 40])
    ngen = run.pick(480, 12000)
    per = run.pick(20, 100)
    for s in range(0, ngen, per):
        jobs.append(['work_gen', [run.seed, s, min(per, ngen - s), nreads_gen, run.pick(8, 12)]])
    for a, r in core.pmap('vf.props.c11:dispatch', jobs, timeout=run.pick(600, 1800)):
        if isinstance(r, dict) and ('_died' in r or '_timeout' in r or '_error' in r):
            run.inconclusive.append('worker failure on %s: %s' % (json.dumps(a)[:120], json.dumps(r)[:1500]))
        else:
            run.merge(r)
    # the replay file keeps the first 200 records: interleave mechanisms so that each one is represented
    by = {}
    for v in run.violations:
        by.setdefault(v['mech'], []).append(v)
    order = []
    i = 0
    while any(i < len(vs) for vs in by.values()):
        for m in sorted(by):
            if i < len(by[m]):
                order.append(by[m][i])
        i += 1
    run.violations[:] = order
    run.extra['workload'] = {
        'real_files': '%d files of stdlib + repository (%s), up to %d name reads per file for location()' % (
            len(files), 'all' if run.tier != 'quick' else 'feature-rich list + seed-rotated sample + repo', nreads_file),
        'generated_layouts': '%d generated texts (vf/gen_layout_bindings.py), up to %d name reads each' % (ngen, nreads_gen),
        'probes': '%d enumerated layout probes' % len(PROBES),
    }
    return run.finish(
        rule='case = one text (real file, generated layout, or enumerated probe) taken through all_names, lint and '
             'location(); a real file is non-trivial if at least one import/def/class binding and one location() entry '
             'were compared; a generated text if >= 2 import/def/class bindings, >= 4 bindings in all and >= 1 '
             'location() entry were compared and it carries >= 2 layout features; distinct by file path or (seed, index)',
        require=('positions_compared', 'positions_compared:all_names', 'positions_compared:lint',
                 'positions_compared:location', 'text_searched_bindings_checked(import/def/class)',
                 'location_entries_right_of_cursor_on_cursor_line', 'except_bindings_checked',
                 'location_entries_checked_in_other_files', 'generated_texts', 'real_files',
                 'positions_compared(unsaved buffer)',
                 'continued_def_class_headers_ending_on_the_last_line_checked',
                 'bindings_checked_of_identifiers_with_a_parenthesised_target',
                 'location_entries_right_of_cursor_on_cursor_line(global/nonlocal declared)',
                 'other_file_entries_on_the_cursor_line_number_right_of_cursor_plus_mark',
                 'location_entries_right_of_cursor_on_cursor_line(unsaved buffer)'),
        assumptions=[
            '"the text at that line and column is exactly the bound identifier" is decided on CPython tokens: the position '
            'must start a NAME token equal to the identifier; a position on ANOTHER token of the same identifier (e.g. the '
            'module name in `import a.b as a`) satisfies the statement as written and is recorded as an observation only',
            'lines are the tokenizer\'s lines (split at LF / CRLF only); texts with a lone CR are skipped',
            'only positions on ASCII-only lines are judged; a failing identifier that also has a binding site on a '
            'non-ASCII line is filtered out (counted)',
            'identity of a binding across entry points: every lint row and every same-file location() entry must equal a '
            '(kind, identifier, position) triple enumerated by all_names/_global_names for the unmarked text',
            'generated texts and probes without relative imports are analysed twice: under a file name and as an unsaved '
            'buffer (filename=None, supp names it \'<string>\'), with reads that have a binding to their right on the '
            'same line queried first; a failure seen only in the second configuration gets the suffix -unsaved-buffer',
            'entries of location() in other files are compared with that file\'s text and with the bindings all_names '
            'enumerates for that file analysed on its own; the generated project has a long-lined module (`wide`) whose '
            'names are read in the analysed text on the same line numbers as their definitions',
            'module entries of location() (SourceModule, position (1, 0)) are not bindings and are skipped; location() '
            'raising or not answering within 60 s is counted and left to C08',
        ],
        exhaustive=False)


def replay(run, path):
    """re-run the recorded texts through all_names and lint, and location() at the recorded cursors"""
    with open(path) as f:
        data = json.load(f)
    part = core.Part()
    mon = Monitor(part, max_per_mech=10 ** 6)
    texts = {}
    for v in data['violations']:
        c = v['case']
        key = json.dumps([c.get('kind'), c.get('filename') or c.get('path'), c.get('text'), bool(c.get('unsaved_buffer'))],
                         sort_keys=True)
        t = texts.setdefault(key, {'case': c, 'cursors': []})
        if c.get('cursor') and c['cursor'] not in t['cursors']:
            t['cursors'].append(c['cursor'])
    for key, t in texts.items():
        c = {k: v for k, v in t['case'].items() if k not in ('entry', 'name', 'binding_kind', 'reported', 'reported_file', 'cursor')}
        part.case(key[:200], nontrivial=True)
        rng = random.Random('C11:replay')
        if c.get('kind') in ('gen', 'probe'):
            root = tempfile.mkdtemp(prefix='vf-')
            try:
                G.write_tree(root, c.get('tree') or G.TREE)
                case = dict(c)
                case['root'] = root
                unsaved = bool(c.get('unsaved_buffer'))
                mon.analyse(c['text'], None if unsaved else os.path.join(root, c['filename']), _mk_project(root), case,
                            '<string>' if unsaved else c['filename'], rng, 10 ** 6, cursors=t['cursors'])
                _strip_roots(part, root)
            finally:
                shutil.rmtree(root, ignore_errors=True)
        else:
            text = c.get('text') or corpus.read_text(c['path'])
            if text is None:
                print('replay: cannot read', c.get('path'))
                continue
            mon.analyse(text, c['path'], _mk_project(core.REPO), dict(c), c.get('shown', c['path']), rng,
                        10 ** 6, cursors=t['cursors'])
    _hung(part)
    run.merge(part.dump())
    for v in run.violations[:60]:
        print('REPLAYED', v['mech'], v['what'][:300])
    print('replayed %d text(s): %d violation instance(s), mechanisms %s' % (
        len(texts), len(run.violations), sorted(set(v['mech'] for v in run.violations))))
    return 1 if run.violations else 0
