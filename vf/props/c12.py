"""C12 - completion contract: exact prefix, clean sorted proposals, transparent cursor.

Monitor: the real ``supp.assistant.assist(Project([root]), text, (line, col), filename)`` is
called for cursor positions at the end of / inside / right after the dot of name reads,
attribute accesses (Load and Store context) and import names, and inside strings and comments,
and every answer ``(prefix, proposals)`` is compared with

 (1) prefix  : the longest run of identifier characters immediately left of the cursor on the
               line as the Python tokenizer splits lines (pure text oracle);
 (2) clean   : proposals is a list of str, sorted, duplicate free, every item an identifier,
               none containing the internal marker ``__supp_mark__``;
 (3) transparent cursor: a second, independent analysis of the UNMARKED text on a fresh
               Project (``extract_scope(Source(text, filename), Project([root]))``):
               cursor at the end of a bare name read  -> sorted keys of
               ``node.flow.names_at(cursor)`` of the unmarked tree's node;
               cursor in the attribute part of ``expr.attr`` -> sorted
               ``EvalCtx(project).evaluate(node.value).attr_list(ctx)`` ([] when evaluate
               gives None).

Workloads: real files (stdlib + repo; sites sampled stratified by the character class that
precedes the identifier), G-prog programs and G-class projects (natural sites plus ~135 spliced
variants that put every preceding-character class before the identifier), and a few fixed
minimal inputs.  Clauses (1) and (2) are also checked at every other identifier token (binding
targets, augmented-assignment targets, parameters, def/class names, keyword names, global/
nonlocal names, as-names; inside and outside loops).  30% of all positions run on a line-ending
variant of the same text (CRLF, CR only, LF + one stray CR, CRLF + one lone CR).
Exceptions escaping either analysis are C08's business: counted, skipped.
"""
import ast
import io
import json
import keyword
import os
import random
import re
import shutil
import tempfile
import tokenize

from vf import core, corpus

MARK = '__supp_mark__'
# characters str.splitlines() treats as line ends but the tokenizer does not
SPLITLINES_ONLY = '\x0b\x0c\x1c\x1d\x1e\x85\u2028\u2029'
MAX_PER_MECH_PER_PART = 6


# ---------------------------------------------------------------------------------------
# text oracles

def tok_lines(text):
    """lines as the Python tokenizer (and ast linenos) see them"""
    return re.split(r'\r\n|\r|\n', text)


def ident_char(c):
    if c.isascii():
        return c == '_' or c.isalnum()
    return ('a' + c).isidentifier()


def expected_prefix(left):
    i = len(left)
    while i > 0 and ident_char(left[i - 1]):
        i -= 1
    return left[i:]


def char_class(c):
    if c is None:
        return 'sol'
    if c == ' ':
        return 'space'
    if c == '\t':
        return 'tab'
    if c.isspace():
        return 'ws-other'
    table = {'(': 'lparen', '[': 'lbracket', '{': 'lbrace', ',': 'comma', '=': 'equals', ':': 'colon',
             '.': 'dot', ';': 'semicolon', '#': 'hash', '\\': 'backslash', '"': 'quote', "'": 'quote',
             ')': 'closer', ']': 'closer', '}': 'closer'}
    if c in table:
        return table[c]
    if c in '+-*/%&|^~<>@!':
        return 'operator'
    if ident_char(c):
        return 'ident'
    return 'other'


def b2c(line, b):
    """utf-8 byte offset (ast col_offset) -> character offset"""
    if line.isascii():
        return b
    return len(line.encode('utf-8')[:b].decode('utf-8', 'replace'))


def c2b(line, c):
    if line.isascii():
        return c
    return len(line[:c].encode('utf-8'))


def first_splitlines_only_line(lines):
    """1-based number of the first tokenizer line containing a splitlines()-only separator, or None"""
    for i, l in enumerate(lines):
        if not l.isascii() or '\x0b' in l or '\x0c' in l or '\x1c' in l or '\x1d' in l or '\x1e' in l:
            for ch in SPLITLINES_ONLY:
                if ch in l:
                    return i + 1
    return None


# ---------------------------------------------------------------------------------------
# sites of a text: name reads, attribute accesses (Load/Store), import names

def enumerate_sites(text, lines, part=None):
    tree = ast.parse(text)
    sites = []

    def skip(why):
        if part is not None:
            part.count('site_skipped:' + why)

    def dotted(kind, sub, L, start, name):
        off = start
        for i, comp in enumerate(name.split('.')):
            if comp:
                sites.append({'kind': kind, 'sub': sub, 'line': L, 'start': off, 'end': off + len(comp),
                              'ident': comp, 'dotted': i > 0})
            off += len(comp) + 1

    for node in ast.walk(tree):
        t = type(node)
        if t is ast.Name:
            if type(node.ctx) is not ast.Load:
                continue
            line = lines[node.lineno - 1]
            s, e = b2c(line, node.col_offset), b2c(line, node.end_col_offset)
            if line[s:e] != node.id:
                skip('name-text-differs(NFKC)')
                continue
            sites.append({'kind': 'name', 'line': node.lineno, 'start': s, 'end': e, 'ident': node.id})
        elif t is ast.Attribute:
            if type(node.ctx) is ast.Load:
                kind = 'attr-load'
            elif type(node.ctx) is ast.Store:
                kind = 'attr-store'
            else:
                continue
            line = lines[node.end_lineno - 1]
            e = b2c(line, node.end_col_offset)
            s = e - len(node.attr)
            if s < 0 or line[s:e] != node.attr:
                skip('attr-text-differs')
                continue
            sites.append({'kind': kind, 'line': node.end_lineno, 'start': s, 'end': e, 'ident': node.attr})
        elif t is ast.Import or t is ast.ImportFrom:
            for a in node.names:
                if a.name == '*':
                    continue
                line = lines[a.lineno - 1]
                s = b2c(line, a.col_offset)
                if not line.startswith(a.name, s):
                    skip('import-name-with-inner-space')
                    continue
                dotted('import', 'import-name' if t is ast.Import else 'from-name', a.lineno, s, a.name)
            if t is ast.ImportFrom and node.module:
                line = lines[node.lineno - 1]
                m = re.compile(r'from\s+\.*').match(line, b2c(line, node.col_offset))
                if not m or not line.startswith(node.module, m.end()):
                    skip('from-module-not-located')
                    continue
                dotted('import', 'from-module', node.lineno, m.end(), node.module)
    for s in sites:
        line = lines[s['line'] - 1]
        s['ctx'] = 'code'
        s['pre'] = char_class(line[s['start'] - 1] if s['start'] > 0 else None)
    return sites


# ---------------------------------------------------------------------------------------
# every other NAME token (binding targets, parameters, def/class names, keyword names, global/nonlocal
# names, except/import/with 'as' names, ...): prefix + clean proposals hold there too

TARGET_FIELDS = {
    ast.Assign: ('targets', 'assign-target'), ast.AugAssign: ('target', 'aug-target'),
    ast.AnnAssign: ('target', 'annassign-target'), ast.For: ('target', 'for-target'),
    ast.AsyncFor: ('target', 'for-target'), ast.withitem: ('optional_vars', 'with-target'),
    ast.comprehension: ('target', 'comp-target'), ast.NamedExpr: ('target', 'walrus-target'),
    ast.Delete: ('targets', 'del-target'),
}


def role_map(tree, lines):
    """(line, char col) -> role of the identifier starting there, from the AST"""
    roles = {}

    def put(node, role):
        roles[(node.lineno, b2c(lines[node.lineno - 1], node.col_offset))] = role

    stack = [(tree, None)]
    while stack:
        node, role = stack.pop()
        t = type(node)
        if t is ast.Name:
            put(node, 'name-load' if type(node.ctx) is ast.Load else (role or 'store-other'))
            continue
        if t is ast.arg:
            put(node, 'param')
        elif t is ast.keyword and node.arg and hasattr(node, 'lineno'):
            put(node, 'kwarg-name')
        spec = TARGET_FIELDS.get(t)
        for field, value in ast.iter_fields(node):
            if spec and field == spec[0]:
                r = spec[1]
            elif t in (ast.Tuple, ast.List, ast.Starred):
                r = role
            else:
                r = None
            if isinstance(value, list):
                for v in value:
                    if isinstance(v, ast.AST):
                        stack.append((v, r))
            elif isinstance(value, ast.AST):
                stack.append((value, r))
    return roles


def loop_ranges(tree):
    out = []
    for node in ast.walk(tree):
        if isinstance(node, (ast.For, ast.AsyncFor, ast.While)) and node.body:
            out.append((node.body[0].lineno, max(getattr(n, 'end_lineno', n.lineno) for n in node.body)))
    return out


def in_loop(ranges, L):
    return any(a <= L <= b for a, b in ranges)


def enumerate_token_sites(text, lines, covered):
    """identifier tokens not already covered by enumerate_sites -> sites of kind 'token'"""
    tree = ast.parse(text)
    roles = role_map(tree, lines)
    ranges = loop_ranges(tree)
    sites = []
    prev = None
    first = None
    for tok in tokenize.generate_tokens(io.StringIO(text).readline):
        tt = tok.type
        if tt in (tokenize.NL, tokenize.COMMENT, tokenize.INDENT, tokenize.DEDENT):
            continue
        if tt == tokenize.NEWLINE:
            first = None
            prev = None
            continue
        if tt == tokenize.NAME:
            if first is None:
                first = tok.string
            s = tok.string
            L, c0 = tok.start
            if not keyword.iskeyword(s) and (L, c0) not in covered and tok.end[0] == L \
                    and L <= len(lines) and lines[L - 1][c0:tok.end[1]] == s:
                role = roles.get((L, c0))
                if role is None:
                    if prev == 'def':
                        role = 'def-name'
                    elif prev == 'class':
                        role = 'class-name'
                    elif prev == 'as':
                        role = 'as-name:' + (first if first in ('import', 'from', 'with', 'except', 'case') else 'other')
                    elif first in ('global', 'nonlocal'):
                        role = first + '-name'
                    elif prev == '.':
                        role = 'attr-other'
                    else:
                        role = 'other'
                if role != 'name-load':
                    sites.append({'kind': 'token', 'sub': role, 'ctx': 'code', 'line': L, 'start': c0, 'end': tok.end[1],
                                  'ident': s, 'in_loop': in_loop(ranges, L),
                                  'pre': char_class(lines[L - 1][c0 - 1] if c0 > 0 else None)})
        elif first is None and tt not in (tokenize.ENDMARKER,):
            first = tok.string
        prev = tok.string
    return sites


def positions_of(site, rng, interiors=1):
    """[(col, where)]: end, interior offsets, and start for attribute / dotted import parts"""
    s, e = site['start'], site['end']
    out = [(e, 'end')]
    inner = list(range(s + 1, e))
    if inner:
        if interiors is None or interiors >= len(inner):
            pick = inner
        else:
            pick = rng.sample(inner, interiors)
        out += [(c, 'interior') for c in sorted(pick)]
    if site['kind'] in ('attr-load', 'attr-store') or (site['kind'] == 'import' and site.get('dotted')):
        out.append((s, 'start'))
    return out


# ---------------------------------------------------------------------------------------
# spliced variants: one statement (or two lines) inserted before an existing statement
# focus identifier between < and >, N = a name read near the anchor, ^ = line starts at column 0

def _templates():
    T = []

    def add(tid, kind, tpl, toplevel_only=False):
        T.append({'id': tid, 'kind': kind, 'tpl': tpl, 'top': toplevel_only})

    n = 'name'
    add('space', n, '_t = ‹§›')
    add('tab', n, '_t =\t‹§›')
    add('lparen', n, '_t = (‹§›)')
    add('lparen-call', n, 'print(‹§›)')
    add('lbracket', n, '_t = [‹§›]')
    add('lbracket-subscript', n, '§[‹§›]')
    add('lbrace', n, '_t = {‹§›}')
    add('comma', n, '_t = (0,‹§›)')
    add('comma-call', n, 'print(§,‹§›)')
    add('equals', n, '_t=‹§›')
    add('equals-keyword', n, 'print(end=‹§›)')
    add('equals-default', n, 'def _t(a=‹§›): pass')
    for i, op in enumerate(('+', '-', '*', '/', '%', '|', '&', '^', '<', '>', '@', '//', '**', '<<', '>>',
                            '==', '!=', '<=', '>=')):
        add('binop' + op, n, '_t = 0' + op + '‹§›')
    add('binop-name-left', n, '_t = §+‹§›')
    for op in '-+~':
        add('unary' + op, n, '_t = ' + op + '‹§›')
    add('star-call', n, 'print(*‹§›)')
    add('dstar-call', n, 'print(**‹§›)')
    add('star-list', n, '_t = [*‹§›]')
    add('dstar-dict', n, '_t = {**‹§›}')
    add('colon-lambda', n, '_t = lambda:‹§›')
    add('colon-dict', n, '_t = {0:‹§›}')
    add('colon-slice', n, '_t = [][0:‹§›]')
    add('colon-annotation', n, '_t:‹§› = 0')
    add('colon-if', n, 'if 0:‹§›')
    add('semicolon', n, '0;‹§›')
    add('walrus', n, '(_t:=‹§›)')
    add('arrow', n, 'def _t()->‹§›: pass')
    add('decorator', n, '@‹§›\ndef _t(): pass')
    add('sol-paren-continuation', n, '_t = (\n^‹§›)')
    add('sol-backslash-continuation', n, '_t = \\\n^‹§›')
    add('sol-statement', n, '‹§›', True)
    add('fstring-expr', n, '_t = f"{‹§›}"')
    add('fstring-expr-conv', n, '_t = f"a{0}b{‹§›!r}"')
    add('space-not', n, '_t = not ‹§›')
    add('space-in', n, '_t = 0 in ‹§›')
    add('from-line-raise-from', n, 'raise ValueError(0) \\\n^    from ‹§›')
    add('formfeed-blank-line-before', n, '^\x0c\n_t = ‹§›')
    add('linesep-u2028-in-string-before', n, '_t = "\u2028"\n_t = ‹§›')
    add('nonascii-left', n, '_t = ("ñé", ‹§›)')
    add('nonascii-left-tight', n, '_t = ("ñéñéñéñé",‹§›)')
    add('nonascii-ident', n, 'ñandú_t = §\n_t=‹ñandú_t›')
    add('nonascii-ident-space', n, 'ñandú_t = §\n_t = ‹ñandú_t›')
    s = 'string'
    add('string-dq', s, '_t = "‹§›"')
    add('string-sq-space', s, "_t = 'a ‹§› b'")
    add('string-triple', s, '_t = """‹§›"""')
    add('string-fliteral', s, '_t = f"‹§›{0}"')
    add('string-bytes', s, '_t = b"‹§›"')
    add('string-raw-backslash', s, '_t = r"\\‹§›"')
    add('string-equals', s, '_t = "a=‹§›"')
    add('string-lparen', s, '_t = "(‹§›"')
    add('string-dot', s, '_t = "a.‹§›"')
    add('string-lbracket', s, '_t = "[‹§›"')
    add('string-comma', s, '_t = "a,‹§›"')
    add('string-colon', s, '_t = "a:‹§›"')
    add('string-minus', s, '_t = "a-‹§›"')
    add('string-from-line', s, '_t = """\n^from ‹§›"""')
    c = 'comment'
    add('comment-space', c, '# ‹§›')
    add('comment-hash', c, '#‹§›')
    add('comment-trailing', c, '_t = 0 #‹§›')
    add('comment-equals', c, '# a=‹§›')
    add('comment-lbracket', c, '# a[‹§›')
    add('comment-colon', c, '#:‹§›')
    add('comment-dot', c, '# a.‹§›')
    al = 'attr-load'
    add('attr-load', al, '_t=§.‹zq›')
    add('attr-load-chain', al, '_t=§.zq.‹zr›')
    add('attr-load-space', al, '_t = §. ‹zq›')
    add('attr-load-newline', al, '_t = (§.\n^‹zq›)')
    add('attr-load-call', al, 'print(0,§.‹zq›)')
    add('attr-load-on-call', al, '_t = §().‹zq›')
    add('attr-load-on-literal', al, '_t = "".‹zq›')
    ast_ = 'attr-store'
    add('attr-store', ast_, '§.‹zq› = 0')
    add('attr-store-ann', ast_, '§.‹zq›: int = 0')
    add('attr-store-aug', ast_, '§.‹zq› += 0')
    add('attr-store-tuple', ast_, '_t, §.‹zq› = 0, 0')
    add('attr-store-chained', ast_, '§.zq = §.‹zr› = 0')
    add('attr-store-with', ast_, 'with open(0) as §.‹zq›: pass')
    add('attr-store-on-attr', ast_, '§.zq.‹zr› = 0')
    add('attr-store-real', ast_, '§.‹zq› = 0\n_t = §.zq')
    # '#' left of the cursor in every place that is NOT a comment; the focus is a name read / attribute access, so
    # the transparency oracle decides (a tool that guesses "cursor is in a comment" from the line must not go blind)
    def hs(tid, tpl, kind=n):
        add('hash-' + tid, kind, tpl)
    hs('dq', '_t = "#" + ‹§›')
    hs('sq', "_t = '#' + ‹§›")
    hs('dq-mid', '_t = ("a#b", ‹§›)')
    hs('bytes', '_t = (b"#", ‹§›)')
    hs('raw', '_t = (r"#", ‹§›)')
    hs('rawbytes', "_t = (rb'#', ‹§›)")
    hs('u', '_t = (u"#", ‹§›)')
    hs('f-literal', '_t = (f"#", ‹§›)')
    hs('F-literal-field', "_t = (F'#{0}', ‹§›)")
    hs('triple-dq-oneline', '_t = ("""#""", ‹§›)')
    hs('triple-sq-oneline', "_t = ('''#''', ‹§›)")
    hs('escaped-sq', "_t = ('\\'#', ‹§›)")
    hs('escaped-dq', '_t = ("\\"#", ‹§›)')
    hs('escaped-apostrophe', "_t = ('it\\'s #1', ‹§›)")
    hs('raw-backslash-sq', "_t = r'\\'#' + ‹§›")
    hs('raw-backslash-dq', '_t = r"\\"#" + ‹§›')
    hs('raw-ends-backslash-quote', "_t = (r'#\\'', ‹§›)")
    hs('other-quote-inside', '_t = ("\'#", ‹§›)')
    hs('two-strings-parity-even', '_t = ("\'", \'#\', ‹§›)')
    hs('two-strings-parity-even2', "_t = ('\"', \"#\", ‹§›)")
    hs('percent-format', '_t = "%#x" % ‹§›')
    hs('fstring-field-after', '_t = f"# {‹§›}"')
    hs('fstring-field-after-sq', "_t = f'#{‹§›!r}'")
    hs('fstring-attr-after', '_t = f"#{§.‹zq›}"', al)
    hs('fstring-nested-quotes', '_t = f"# {§["#"]} {‹§›}"')
    hs('fstring-nested-string-field', '_t = f"{"#"}{‹§›}"')
    hs('fstring-format-spec', '_t = f"{0:#x} {‹§›}"')
    hs('fstring-format-spec-nested', '_t = f"{0:#>{‹§›}}"')
    hs('fstring-format-spec-attr', '_t = f"{0:#>{§.‹zq›}}"', al)
    hs('triple-continuation', '_t = ("""\n^# a""", ‹§›)')
    hs('triple-sq-continuation', "_t = ('''\n^ # a''', ‹§›)")
    hs('triple-continuation-plus', '_t = """\n^a # b""" + ‹§›')
    hs('triple-f-continuation', '_t = f"""\n^# {‹§›} and more\n^"""')
    hs('triple-f-continuation-second-field', '_t = f"""\n^# Report for {§}: {‹§›} items\n^"""')
    hs('triple-f-continuation-attr', '_t = f"""\n^# Report for {§.‹zq›} <{§}>\n^"""', al)
    hs('triple-f-continuation-attr2', "_t = f'''\n^## by {§} and {§.zq.‹zr›}\n^'''", al)
    hs('triple-f-continuation-nested', '_t = f"""\n^# {§["k"]} {‹§›}\n^"""')
    hs('triple-f-continuation-spec', '_t = f"""\n^{0:#>{‹§›}}\n^"""')
    hs('triple-rf-continuation', '_t = rf"""\n^\\# {‹§›}\n^"""')
    hs('backslash-continued-string', '_t = "a\\\n^# b" + ‹§›')
    hs('backslash-continued-string-f', '_t = f"a\\\n^# {‹§›}"')
    hs('after-line-continuation', '_t = "#" + \\\n^    "#" + ‹§›')
    hs('trailing-comment', '_t = ‹§› # c')
    hs('trailing-comment-quotes', 'print(‹§›)  # "quoted" it\'s')
    hs('string-and-trailing-comment', '_t = ("#", ‹§›) # c # d')
    hs('attr-and-trailing-comment', '_t = ("#", §.‹zq›) # §.zq', al)
    hs('store-attr-after-string', '_t = "#"; §.‹zq› = 0', ast_)
    hs('aug-target-after-string', 'for _i in ():\n    _t = "#"; ‹§› += 0', 'token:aug-target')
    hs('comment-after-string', '_t = "#" # ‹§›', c)
    hs('inside-string-after-hash', '_t = "# ‹§›"', s)
    hs('inside-triple-continuation', '_t = """\n^# ‹§›\n^"""', s)
    # the cursor line begins (after indentation) with 'from ' and is NOT an import: continuation of 'yield from' /
    # 'raise ... from' by brackets, nested brackets or a backslash, at several indentation levels
    def fl(tid, tpl, kind=n):
        add('fromline-' + tid, kind, tpl)
    fl('yield-paren', 'def _g():\n    _t = (yield\n        from ‹§›)')
    fl('yield-paren-same-indent', 'def _g():\n    _t = (yield\n    from ‹§›)')
    fl('yield-paren-col0', 'def _g():\n    _t = (yield\n^from ‹§›)')
    fl('yield-paren-deep-indent', 'def _g():\n    if 1:\n        for _i in ():\n            _t = (yield\n                  from ‹§›)')
    fl('yield-paren-tab-after', 'def _g():\n    _t = (yield\n        from \t‹§›)')
    fl('yield-in-list', 'def _g():\n    _t = [(yield\n        from ‹§›), 0]')
    fl('yield-in-call', 'def _g():\n    print((yield\n            from ‹§›), 0)')
    fl('yield-nested-brackets', 'def _g():\n    _t = {0: [0, ((yield\n      from ‹§›))]}')
    fl('yield-in-subscript', 'def _g():\n    _t = §[(yield\n        from ‹§›)]')
    fl('yield-expression-statement', 'def _g():\n    (yield\n     from ‹§›)')
    fl('yield-lambda', '_t = lambda: (yield\n    from ‹§›)')
    fl('yield-operand-more', 'def _g():\n    _t = (yield\n        from ‹§› or 0)')
    fl('yield-from-call', 'def _g():\n    _t = (yield\n        from ‹§›(0))')
    fl('yield-attr', 'def _g():\n    _t = (yield\n        from §.‹zq›)', al)
    fl('yield-attr-chain', 'def _g():\n    _t = [(yield\n        from §.zq.‹zr›)]', al)
    fl('yield-attr-on-call', 'def _g():\n    _t = (yield\n        from §().‹zq›)', al)
    fl('yield-backslash', 'def _g():\n    yield \\\n        from ‹§›')
    fl('yield-backslash-col0', 'def _g():\n    _t = yield \\\n^from ‹§›')
    fl('yield-paren-then-backslash', 'def _g():\n    _t = (yield \\\n        from ‹§›)')
    fl('raise-backslash', 'raise ValueError(§) \\\n    from ‹§›')
    fl('raise-backslash-col0', 'raise ValueError(§) \\\n^from ‹§›')
    fl('raise-backslash-deep', 'if 1:\n    try:\n        pass\n    except Exception:\n        raise ValueError(0) \\\n            from ‹§›')
    fl('raise-backslash-attr', 'raise ValueError(0) \\\n    from §.‹zq›', al)
    fl('raise-multiline-call-backslash', 'raise ValueError(0,\n                 §) \\\n    from ‹§›')
    fl('raise-yield-in-brackets', 'def _g():\n    raise ValueError((yield\n        from ‹§›))')
    fl('yield-paren-hash', 'def _g():\n    _t = ("#", (yield\n        from ‹§›))')
    fl('yield-paren-after-partial', 'def _g():\n    _t = (yield\n        from ‹§›)\nfrom os import path')
    # controls: genuinely half-typed imports (the text does not parse; prefix and clean proposals only)
    pi = 'partial'
    fl('partial-from', 'from ‹pk›', pi)
    fl('partial-from-dotted', 'from pkg.‹mo›', pi)
    fl('partial-from-dot-end', 'from os.‹›', pi)
    fl('partial-from-relative', 'from .‹si›', pi)
    fl('partial-from-import-name', 'from os.path import ‹jo›', pi)
    fl('partial-from-import-second', 'from os import path, ‹se›', pi)
    fl('partial-from-import-paren', 'from os import (path,\n    ‹se›', pi)
    fl('partial-from-import-empty', 'from os import ‹›', pi)
    fl('partial-from-relative-import-empty', 'from . import ‹›', pi)
    fl('partial-from-next-to-yield-from', 'def _g():\n    _t = (yield\n        from §)\n    from ‹pk›', pi)
    fl('partial-from-indented', 'if 1:\n    from pkg.‹su›', pi)
    # other identifier tokens (prefix + clean proposals only); several inside loop bodies, where a binding made by
    # the statement under the cursor reaches the cursor again over the loop back-edge
    def tok(role, tpl, tid=None):
        add('token-' + (tid or role), 'token:' + role, tpl)
    tok('aug-target', '‹§› += 0')
    tok('aug-target', 'for _i in ():\n    ‹§› += 0', 'aug-target-for')
    tok('aug-target', 'while 0:\n    ‹§› -= 1\n    print(§)', 'aug-target-while')
    tok('aug-target', '_t = 0\nfor _i in ():\n    ‹_t› += _i', 'aug-target-for-fresh')
    tok('aug-target', 'for _i in ():\n    if _i:\n        ‹§› *= 2', 'aug-target-for-if')
    tok('assign-target', '‹§› = 0')
    tok('assign-target', 'for _i in ():\n    ‹§› = 0\n    print(§)', 'assign-target-for')
    tok('assign-target', 'while 0:\n    ‹_t› = 0', 'assign-target-while')
    tok('assign-target', '‹§›, _t = 0, 0', 'tuple-target')
    tok('assign-target', '*‹§›, _t = 0, 0', 'star-target')
    tok('annassign-target', '‹§›: int = 0')
    tok('annassign-target', 'for _i in ():\n    ‹§›: int = 0', 'annassign-target-for')
    tok('for-target', 'for ‹§› in (): pass')
    tok('for-target', 'for _i, ‹§› in (): pass', 'for-target-tuple')
    tok('for-target', 'for _i in ():\n    for ‹§› in (): pass', 'for-target-nested')
    tok('with-target', 'with open(0) as ‹§›: pass')
    tok('with-target', 'for _i in ():\n    with open(0) as ‹§›: pass', 'with-target-for')
    tok('walrus-target', '(‹§› := 0)')
    tok('walrus-target', 'while (‹§› := 0): pass', 'walrus-target-while-test')
    tok('comp-target', '_t = [0 for ‹§› in ()]')
    tok('del-target', 'del ‹§›')
    tok('del-target', 'for _i in ():\n    del ‹§›', 'del-target-for')
    tok('param', 'def _t(‹§›): pass')
    tok('param', 'def _t(a, *‹§›): pass', 'param-star')
    tok('param', 'def _t(**‹§›): pass', 'param-dstar')
    tok('param', 'def _t(a, /, *, ‹§›=0): pass', 'param-kwonly')
    tok('param', '_t = lambda ‹§›: 0', 'param-lambda')
    tok('def-name', 'def ‹§›(): pass')
    tok('def-name', 'for _i in ():\n    def ‹§›(): pass', 'def-name-for')
    tok('class-name', 'class ‹§›: pass')
    tok('kwarg-name', 'print(‹end›=0)')
    tok('kwarg-name', 'print(0,‹end›=§)', 'kwarg-name-comma')
    tok('global-name', 'def _t():\n    global ‹§›')
    tok('global-name', 'def _t():\n    global _a,‹§›\n    § = 0', 'global-name-comma')
    tok('nonlocal-name', 'def _t():\n    nonlocal ‹§›')
    tok('as-name:except', 'try: pass\nexcept Exception as ‹§›: pass')
    tok('as-name:except', 'for _i in ():\n    try: pass\n    except Exception as ‹§›: pass', 'as-name-except-for')
    tok('as-name:import', 'import os as ‹§›')
    tok('as-name:from', 'from os import path as ‹§›')
    tok('as-name:import', 'for _i in ():\n    import os as ‹§›', 'as-name-import-for')
    tok('match-capture', 'match 0:\n    case ‹§›: pass')
    tok('assign-target', '‹ñandú_t› = 0\nfor _i in ():\n    ñandú_t += 1', 'nonascii-assign-target')
    return T


TEMPLATES = _templates()
TEMPLATE_BY_ID = {t['id']: t for t in TEMPLATES}


def anchors_of(text, lines):
    """statements before which a line can be inserted: [(lineno, indent, [names read in it])]"""
    tree = ast.parse(text)
    out = []
    for node in ast.walk(tree):
        if not isinstance(node, ast.stmt):
            continue
        L = node.lineno
        decos = getattr(node, 'decorator_list', None)
        if decos:
            L = min([L] + [d.lineno for d in decos])
            # the '@' line
            col = len(lines[L - 1]) - len(lines[L - 1].lstrip())
        else:
            col = b2c(lines[L - 1], node.col_offset)
        ind = lines[L - 1][:col]
        if ind.strip() or lines[L - 1].startswith('elif', col):
            continue            # statement does not start its line (a; b  /  if x: y  /  elif)
        if isinstance(node, ast.ImportFrom) and node.module == '__future__':
            continue
        names = []
        for sub in ast.walk(node):
            if type(sub) is ast.Name and type(sub.ctx) is ast.Load and sub.id.isascii() and sub.id not in names:
                names.append(sub.id)
        out.append((L, ind, names))
    out.sort()
    return out


def render_variant(lines, anchor, tpl, name):
    """-> (new_text, new_lines, site) ; site has line/start/end/ident/kind/ctx/pre"""
    L, ind, _ = anchor
    new = []
    focus = None
    for k, raw in enumerate(tpl['tpl'].split('\n')):
        if raw.startswith('^'):
            l = raw[1:]
        else:
            l = ind + raw
        l = l.replace('§', name)
        if '‹' in l:
            s = l.index('‹')
            l = l.replace('‹', '', 1)
            e = l.index('›')
            l = l.replace('›', '', 1)
            focus = (k, s, e, l[s:e])
        new.append(l)
    out = lines[:L - 1] + new + lines[L - 1:]
    k, s, e, ident = focus
    kind = tpl['kind']
    code = kind in ('name', 'attr-load', 'attr-store') or kind.startswith('token:')
    site = {'kind': kind.partition(':')[0] if code else 'text',
            'ctx': 'code' if code else ('partial-import' if kind == 'partial' else kind),
            'line': L + k, 'start': s, 'end': e, 'ident': ident, 'variant': tpl['id'],
            'pre': char_class(new[k][s - 1] if s > 0 else None)}
    if kind.startswith('token:'):
        site['sub'] = kind.partition(':')[2]
    return '\n'.join(out), out, site


def site_is_real(text, lines, site):
    """sanity of a rendered variant: it parses and the focus is the node kind it claims to be"""
    if site['ctx'] == 'partial-import':
        return True           # a half-typed import: the text is not supposed to parse
    try:
        tree = ast.parse(text)
    except (SyntaxError, ValueError, RecursionError):
        return False
    if site['kind'] == 'text':
        return True
    if site['kind'] == 'token':
        site['in_loop'] = in_loop(loop_ranges(tree), site['line'])
        return True
    return find_node(tree, lines, site) is not None


def find_node(tree, lines, site):
    L = site['line']
    line = lines[L - 1]
    kind = site['kind']
    if kind == 'name':
        bs = c2b(line, site['start'])
        for node in ast.walk(tree):
            if type(node) is ast.Name and node.lineno == L and node.col_offset == bs \
                    and node.id == site['ident'] and type(node.ctx) is ast.Load:
                return node
    elif kind in ('attr-load', 'attr-store'):
        be = c2b(line, site['end'])
        want = ast.Load if kind == 'attr-load' else ast.Store
        for node in ast.walk(tree):
            if type(node) is ast.Attribute and node.end_lineno == L and node.end_col_offset == be \
                    and node.attr == site['ident'] and type(node.ctx) is want:
                return node
    return None


# ---------------------------------------------------------------------------------------
# line-ending variants of one text (same tokenizer lines, same cursor positions)

EOLS = ('crlf', 'cr', 'lf+stray-cr', 'crlf+lone-cr')
EOL_SHARE = 0.3


def eol_text(lines, spec):
    """spec = [which, k]; k = index of the line boundary that becomes a lone CR in the mixed variants"""
    which, k = spec
    if which == 'lf':
        return '\n'.join(lines)
    if which == 'crlf':
        return '\r\n'.join(lines)
    if which == 'cr':
        return '\r'.join(lines)
    base = '\n' if which == 'lf+stray-cr' else '\r\n'
    out = []
    for i, l in enumerate(lines):
        out.append(l)
        if i < len(lines) - 1:
            out.append('\r' if i == k else base)
    return ''.join(out)


def pick_eol(rng, L, lines):
    which = rng.choice(EOLS)
    # a boundary before the cursor line when there is one
    ks = list(range(0, L - 1)) if L >= 2 else [0]
    if which == 'lf+stray-cr':
        # CR + empty line + LF would read as one CRLF
        ks = [k for k in ks if k + 1 < len(lines) and lines[k + 1] != ''] or None
        if ks is None:
            which, ks = 'crlf+lone-cr', list(range(0, L - 1)) if L >= 2 else [0]
    k = rng.choice(ks)
    return [which, min(k, max(0, len(lines) - 2))]


_SPECIAL = {ord(c): ' ' for c in SPLITLINES_ONLY}


def normalized_lines(lines):
    return [l.translate(_SPECIAL) if not l.isascii() or any(c in l for c in '\x0b\x0c\x1c\x1d\x1e') else l
            for l in lines]


# ---------------------------------------------------------------------------------------
# the monitor

class Mon(object):
    def __init__(self, part):
        self.p = part
        self.mech_seen = {}
        self.nonempty = 0

    def violation(self, mech, what, case):
        p = self.p
        p.hist('violation_instances', mech)
        n = self.mech_seen.get(mech, 0)
        self.mech_seen[mech] = n + 1
        if n < MAX_PER_MECH_PER_PART:
            p.violation(mech, what, case)

    # -- both analyses ---------------------------------------------------------------
    def run_assist(self, env, text, pos):
        from supp import assistant
        from supp.project import Project
        return assistant.assist(Project([env['root']]), text, pos, env['filename'])

    def run_oracle(self, env, text, lines, site, pos):
        """-> ('ok', sorted list) | ('nonode', None); raises what supp raises"""
        from supp.util import Source
        from supp.nast import extract_scope
        from supp.project import Project
        from supp.evaluator import EvalCtx
        project = Project([env['root']])
        scope = extract_scope(Source(text, env['filename']), project)
        node = find_node(scope.source.tree, lines, site)
        if node is None:
            return 'nonode', None
        if site['kind'] == 'name':
            return 'ok', sorted(set(node.flow.names_at(pos)))
        ctx = EvalCtx(project)
        value = ctx.evaluate(node.value)
        if value is None:
            return 'ok', []
        return 'ok', sorted(set(value.attr_list(ctx)))

    # -- one cursor position ---------------------------------------------------------
    def check(self, env, lines, site, col, where, eol=None):
        """lines = tokenizer lines of the text; eol = [variant, k] decides how they are joined"""
        eol = eol or ['lf', 0]
        text = eol_text(lines, eol)
        p = self.p
        if eol[0] != 'lf':
            if tok_lines(text) != lines:
                p.count('eol_variant_discarded(sanity; checked with LF instead)')
                eol = ['lf', 0]
                text = eol_text(lines, eol)
        if eol[0] != 'lf':
            p.count('eol_variant_positions')
            p.hist('eol_variant', eol[0])
        found = self._check(p, env, text, lines, site, col, where, eol, True)
        if not found:
            return
        # a violation in a text with unusual line structure: is it the line structure?  Same position, same
        # lines, joined with plain LF and splitlines()-only separators blanked out.
        norm = normalized_lines(lines)
        special = norm != lines
        if eol[0] != 'lf' or special:
            base = set(m for m, _, _ in self._check(core.Part(), env, '\n'.join(norm), norm, site, col, where,
                                                     ['lf', 0], False))
            for i, (m, what, case) in enumerate(found):
                if m not in base:
                    if eol[0] == 'lf':
                        m2 = 'line-split:splitlines-vs-tokenizer-lines'
                    else:
                        m2 = 'line-ending:%s' % eol[0]
                    found[i] = (m2, what + ' [holds with LF line ends]', case)
        # a violation with a '#' left of the cursor although the cursor is in code: does it hold when those
        # '#' (all inside string literals) are other characters?
        L = site['line']
        left = lines[L - 1][:col]
        if '#' in left and site['ctx'] == 'code':
            l2 = lines[:L - 1] + [left.replace('#', '$') + lines[L - 1][col:]] + lines[L:]
            try:
                ast.parse('\n'.join(l2))
            except (SyntaxError, ValueError, RecursionError):
                l2 = None
            if l2 is not None:
                t2 = eol_text(l2, eol)
                if tok_lines(t2) != l2:
                    t2 = '\n'.join(l2)
                base = set(m for m, _, _ in self._check(core.Part(), env, t2, l2, site, col, where, eol, False))
                for i, (m, what, case) in enumerate(found):
                    if m not in base and not m.startswith('line-'):
                        found[i] = ('hash-left-of-cursor:' + m.split(':')[0], what + " [holds when the '#' left of the "
                                    "cursor, inside a string literal, is another character]", case)
        for m, what, case in found:
            self.violation(m, what, case)

    def _check(self, p, env, text, lines, site, col, where, eol, main):
        found = []
        L = site['line']
        pos = (L, col)
        line = lines[L - 1]
        left = line[:col]
        kind = site['kind']
        if main:
            p.count('positions')
            p.hist('site_kind', '%s:%s' % (kind if kind != 'text' else site['ctx'], where))
            p.hist('pre_class', '%s:%s' % (site['ctx'], site['pre']))
            if site.get('variant'):
                p.hist('variant', site['variant'])
            if '#' in left and site['ctx'] == 'code':
                p.count('hash_left_of_cursor_in_code_positions')
                p.hist('hash_left_of_cursor', site.get('variant') or ('mutation:' + site.get('hash_mutation', 'natural')))
            if left.lstrip().startswith('from ') and ' import ' not in left:
                if site['ctx'] == 'code':
                    p.count('from_line_not_import_positions')
                    p.hist('from_line_not_import', site.get('variant') or ('mutation:' + site.get('fromline_mutation', 'natural')))
                elif site['ctx'] == 'partial-import':
                    p.count('from_line_partial_import_positions')
            if kind == 'token':
                p.count('token_positions')
                if site.get('in_loop'):
                    p.count('token_positions_in_loop')
                p.hist('token_role', '%s:%s' % (site['sub'], 'loop' if site.get('in_loop') else 'noloop'))
        try:
            res = self.run_assist(env, text, pos)
        except Exception as e:
            p.count('assist_raised(skipped, C08)')
            p.hist('assist_raised_type', '%s:%s:%s' % (site.get('sub') or kind, eol[0], type(e).__name__))
            if main and eol[0] != 'lf':
                try:
                    self.run_assist(env, '\n'.join(lines), pos)
                except Exception:
                    pass
                else:
                    p.count('assist_raised_only_in_eol_variant(skipped, C08)')
                    p.hist('assist_raised_only_in_eol_variant', '%s:%s' % (eol[0], type(e).__name__))
            return found
        from_line = left.lstrip().startswith('from ') and ' import ' not in left

        def case(**kw):
            c = {'env': env_case(env), 'pos': [L, col], 'site': site, 'where': where, 'line': line, 'eol': eol}
            if env['kind'] != 'corpus':
                c['text'] = text
            c.update(kw)
            return c

        def report(mech, what, c):
            found.append((mech, what, c))

        if not (isinstance(res, (tuple, list)) and len(res) == 2 and isinstance(res[0], str)
                and isinstance(res[1], list)):
            report('result-shape', 'assist returned %r at %r' % (type(res), pos), case())
            return found
        prefix, props = res

        # (1) prefix ------------------------------------------------------------------
        exp = expected_prefix(left)
        p.count('prefix_compared')
        if exp:
            p.count('prefix_compared_nonempty')
        if prefix != exp:
            mech = self.prefix_mech(prefix, exp, left, line, col, site, from_line)
            report(mech, 'prefix %r, expected %r for %r' % (prefix, exp, left[-40:] + '|' + line[col:col + 12]),
                   case(observed_prefix=prefix, expected_prefix=exp))
        else:
            p.count('prefix_ok')

        # (2) clean -------------------------------------------------------------------
        p.count('clean_checked')
        if props:
            p.count('clean_checked_nonempty')
            if site['ctx'] == 'partial-import':
                p.count('from_line_partial_import_nonempty_proposals')
            if kind == 'token':
                p.count('token_clean_checked_nonempty')
        self.clean(p, props, site, from_line, report, case, pos)

        # (3) transparency ------------------------------------------------------------
        if (kind == 'name' and where == 'end') or kind in ('attr-load', 'attr-store'):
            self.transparency(p, env, text, lines, site, pos, where, props, from_line, report, case, main)
        else:
            p.count('transparency_not_applicable')
        return found

    def prefix_mech(self, prefix, exp, left, line, col, site, from_line):
        suffix = ':from-line' if from_line else ''
        if prefix != exp and prefix.endswith(exp) and left.endswith(prefix):
            # supp's prefix reaches further left than the identifier run: which character did it not split at?
            extra = prefix[:len(prefix) - len(exp)]
            return 'prefix-not-split-at:%s%s' % (char_class(extra[-1]), suffix)
        right = line[col:]
        run = 0
        while run < len(right) and ident_char(right[run]):
            run += 1
        if run and prefix == exp + right[:run]:
            return 'prefix-includes-text-right-of-cursor:%s%s' % (site.get('sub') or site['kind'], suffix)
        return 'prefix-wrong:%s%s' % (site.get('sub') or site['kind'], suffix)

    def clean(self, p, props, site, from_line, report, case, pos):
        kind = site.get('sub') or site['kind']
        if kind == 'text':
            kind = site['ctx']
        if site['kind'] == 'token' and site.get('in_loop'):
            kind += ':in-loop'
        nonstr = [x for x in props if not isinstance(x, str)]
        if nonstr:
            report('proposal-not-str:' + kind, 'proposal %r is not a str at %r' % (nonstr[0], pos),
                   case(proposals=[repr(x) for x in props[:50]]))
            return
        leaked = [x for x in props if MARK in x]
        if leaked:
            report('marker-leak:' + {'attr-store': 'store-attribute'}.get(site['kind'], kind),
                   'proposal %r contains the cursor marker at %r' % (leaked[0], pos), case(leaked=leaked[:5]))
        if props != sorted(props):
            report('proposals-unsorted:' + kind, 'proposals not sorted at %r' % (pos,), case(proposals=props[:200]))
        if len(set(props)) != len(props):
            dup = sorted(x for x in set(props) if props.count(x) > 1)
            report('proposals-duplicate:' + kind, 'duplicate proposals %r at %r' % (dup[:5], pos),
                   case(duplicates=dup[:20]))
        bad = [x for x in props if not x.isidentifier() and MARK not in x]
        if bad:
            src = 'module-name' if (from_line or site['kind'] == 'import') else kind
            report('non-identifier-proposal:' + src, 'proposal %r is not an identifier at %r' % (bad[0], pos),
                   case(non_identifiers=bad[:10]))
        if not (leaked or bad or props != sorted(props) or len(set(props)) != len(props)):
            p.count('clean_ok')

    def transparency(self, p, env, text, lines, site, pos, where, props, from_line, report, case, main):
        kind = site['kind']
        try:
            st, exp = self.run_oracle(env, text, lines, site, pos)
        except Exception as e:
            p.count('oracle_raised(skipped, C08)')
            p.hist('oracle_raised_type', '%s:%s' % (kind, type(e).__name__))
            return
        if st != 'ok':
            p.count('oracle_node_not_found(skipped)')
            return
        cell = '%s:%s' % (kind, where)
        p.count('transparency_compared')
        if from_line:
            p.count('transparency_compared_from_line_not_import')
            if exp:
                p.count('transparency_compared_from_line_not_import_nonempty')
        if '#' in lines[pos[0] - 1][:pos[1]]:
            p.count('transparency_compared_hash_left_of_cursor')
            if exp:
                p.count('transparency_compared_hash_left_of_cursor_nonempty')
        p.count('transparency_%s_compared' % ('name' if kind == 'name' else 'attr'))
        p.hist('transparency_cell', cell)
        if kind == 'attr-store':
            p.count('transparency_store_attr_compared')
        if exp:
            p.count('transparency_compared_nonempty')
            if main:
                self.nonempty += 1
        got = sorted(set(props))
        if got == exp:
            p.count('transparency_ok')
            if exp and len(exp) < 400 and site['pre'] not in ('space', 'dot', 'lparen', 'sol'):
                p.sample({'workload': env['kind'], 'cursor': list(pos), 'line': lines[pos[0] - 1][:pos[1]] + '|' + lines[pos[0] - 1][pos[1]:],
                          'site': cell, 'proposals_equal_to_unmarked_analysis': len(exp), 'first': exp[:4]})
            return
        # process-global state (sys.modules warmed by the first analysis) must not be blamed on the cursor:
        # repeat both analyses once, in the same order, on fresh Projects
        try:
            res2 = self.run_assist(env, text, pos)
            st2, exp2 = self.run_oracle(env, text, lines, site, pos)
            if st2 == 'ok' and sorted(set(res2[1])) == exp2:
                p.count('transparency_mismatch_not_reproducible(not reported)')
                return
            got, exp = sorted(set(res2[1])), exp2
        except Exception:
            p.count('transparency_recheck_raised(not reported)')
            return
        extra = [x for x in got if x not in set(exp)]
        missing = [x for x in exp if x not in set(got)]
        if kind == 'name':
            mech = 'from-line-heuristic:name-read' if from_line else 'transparency:name-end'
        elif kind == 'attr-store' and extra and all(MARK in x for x in extra) \
                and set(missing) <= {site['ident']}:
            mech = 'marker-leak:store-attribute'
        else:
            mech = 'transparency:%s%s' % (kind, '' if where == 'start' else ':prefix-typed')
            if from_line:
                mech = 'from-line-heuristic:' + kind
        report(mech, 'proposals differ from the unmarked analysis at %r (%s): extra %r missing %r' % (
            pos, cell, extra[:5], missing[:5]), case(extra=extra[:30], missing=missing[:30], n_expected=len(exp)))


def env_case(env):
    return {k: v for k, v in env.items() if k in ('kind', 'path', 'files', 'relpath', 'gen')}


# ---------------------------------------------------------------------------------------
# workloads

def check_sites(mon, env, lines, sites, rng, per_site_interiors, eol_share=EOL_SHARE):
    classes = set()
    for site in sites:
        for col, where in positions_of(site, rng, per_site_interiors):
            eol = pick_eol(rng, site['line'], lines) if rng.random() < eol_share else None
            mon.check(env, lines, site, col, where, eol)
        classes.add((site['ctx'], site['pre']))
    return classes


# ---------------------------------------------------------------------------------------
# mutations of an existing line that put a '#' left of the cursor without making a comment

HASH_MUTATIONS = ('wrap-name', 'stmt-prefix-raw', 'stmt-prefix-dq', 'stmt-prefix-parity', 'trailing-comment')


def hash_mutation(lines, site, which):
    """-> (new_lines, new_site) or None; the site keeps its meaning, only columns move"""
    L = site['line']
    line = lines[L - 1]
    s, e = site['start'], site['end']
    shift = 0
    if which == 'wrap-name':
        if site['kind'] != 'name':
            return None
        pre = "(r'\\'#', "
        new = line[:s] + pre + line[s:e] + ')[1]' + line[e:]
        shift = len(pre)
    elif which.startswith('stmt-prefix') or which == 'trailing-comment':
        ind = len(line) - len(line.lstrip())
        if ind > s:
            return None
        ins = {'stmt-prefix-raw': "r'\\'#'; ", 'stmt-prefix-dq': '"#"; ', 'stmt-prefix-parity': '"\'", \'#\'; ',
               'trailing-comment': "'\\'#'; "}[which]
        new = line[:ind] + ins + line[ind:]
        if which == 'trailing-comment':
            new += '  # "c'
        shift = len(ins)
    else:
        return None
    out = lines[:L - 1] + [new] + lines[L:]
    ns = dict(site, start=s + shift, end=e + shift, hash_mutation=which)
    ns['pre'] = char_class(new[ns['start'] - 1] if ns['start'] > 0 else None)
    text = '\n'.join(out)
    try:
        tree = ast.parse(text)
    except (SyntaxError, ValueError, RecursionError):
        return None
    if new[ns['start']:ns['end']] != site['ident']:
        return None
    if site['kind'] in ('name', 'attr-load', 'attr-store'):
        if find_node(tree, out, ns) is None:
            return None
    elif site['kind'] == 'token':
        # still the same kind of token?
        try:
            again = [t for t in enumerate_token_sites(text, out, set()) if t['line'] == L and t['start'] == ns['start']]
        except (SyntaxError, ValueError, RecursionError, tokenize.TokenError):
            return None
        if not again or again[0]['sub'] != site['sub']:
            return None
    return out, ns


def check_hash_mutations(mon, env, lines, sites, rng, n):
    """n of the given sites, each on a mutated copy of its line"""
    part = mon.p
    cand = list(sites)
    rng.shuffle(cand)
    done = 0
    for site in cand:
        if done >= n:
            break
        which = rng.choice(HASH_MUTATIONS if site['kind'] == 'name' else HASH_MUTATIONS[1:])
        r = hash_mutation(lines, site, which)
        if r is None:
            part.count('hash_mutation_not_applicable')
            continue
        done += 1
        part.count('hash_mutations')
        part.hist('hash_mutation', '%s:%s' % (which, site['kind']))
        check_sites(mon, env, r[0], [r[1]], rng, 1)


def fromline_mutation(lines, site, which):
    """name read -> operand of a bracket-continued 'yield from' whose second line begins with 'from '"""
    if site['kind'] != 'name':
        return None
    L = site['line']
    line = lines[L - 1]
    s, e = site['start'], site['end']
    ind = line[:len(line) - len(line.lstrip())]
    if which == 'yield-from-wrap':
        first, second = line[:s] + '((yield', ind + '    from ' + line[s:e] + '))' + line[e:]
    elif which == 'yield-from-wrap-col0':
        first, second = line[:s] + '[(yield', 'from ' + line[s:e] + '), 0][0]' + line[e:]
    else:
        return None
    start = second.index('from ') + 5
    out = lines[:L - 1] + [first, second] + lines[L:]
    ns = dict(site, line=L + 1, start=start, end=start + (e - s), fromline_mutation=which, pre='space')
    try:
        tree = ast.parse('\n'.join(out))
    except (SyntaxError, ValueError, RecursionError):
        return None
    if find_node(tree, out, ns) is None:
        return None
    return out, ns


def check_fromline_mutations(mon, env, lines, sites, rng, n):
    part = mon.p
    cand = [s for s in sites if s['kind'] == 'name']
    rng.shuffle(cand)
    done = 0
    for site in cand:
        if done >= n:
            break
        which = rng.choice(('yield-from-wrap', 'yield-from-wrap-col0'))
        r = fromline_mutation(lines, site, which)
        if r is None:
            part.count('fromline_mutation_not_applicable')
            continue
        done += 1
        part.count('fromline_mutations')
        part.hist('fromline_mutation', which)
        check_sites(mon, env, r[0], [r[1]], rng, 1)


TESTED_BY_UNIT_TESTS = {('code', 'space'), ('code', 'dot'), ('code', 'lparen'), ('code', 'sol')}


def stratified(sites, rng, n):
    """up to n sites, round-robin over (kind, preceding character class) so rare classes are kept"""
    groups = {}
    for s in sites:
        groups.setdefault((s['kind'], s.get('sub'), s.get('in_loop'), s['pre']), []).append(s)
    keys = sorted(groups, key=str)
    for k in keys:
        rng.shuffle(groups[k])
    out = []
    i = 0
    while len(out) < n and keys:
        k = keys[i % len(keys)]
        g = groups[k]
        out.append(g.pop())
        if not g:
            keys.remove(k)
        else:
            i += 1
    return out


def variants_for(text, lines, rng, part, templates, prefer=None):
    """render every template once at a random anchor; -> [(vtext, vlines, site)]"""
    try:
        anchors = anchors_of(text, lines)
    except (SyntaxError, ValueError, RecursionError):
        return []
    if not anchors:
        return []
    allnames = sorted({n for a in anchors for n in a[2]})
    out = []
    for tpl in templates:
        cands = anchors
        if tpl['top']:
            cands = [a for a in anchors if a[1] == '']
        if prefer:
            pc = [a for a in cands if prefer in a[2]]
            if pc and rng.random() < 0.7:
                cands = pc
        if not cands:
            part.count('variant_no_anchor')
            continue
        anchor = rng.choice(cands)
        names = anchor[2] or allnames
        if not names:
            part.count('variant_no_name')
            continue
        name = prefer if (prefer and prefer in names and rng.random() < 0.7) else rng.choice(names)
        vtext, vlines, site = render_variant(lines, anchor, tpl, name)
        if not site_is_real(vtext, vlines, site):
            part.count('variant_discarded(sanity)')
            part.hist('variant_discarded', tpl['id'])
            continue
        out.append((vtext, vlines, site))
    return out


def do_text(mon, env, text, rng, n_sites, interiors, with_variants, prefer=None):
    """natural sites + variants of one text; -> set of (ctx, pre) classes exercised"""
    part = mon.p
    lines = tok_lines(text)
    try:
        sites = enumerate_sites(text, lines, part)
    except (SyntaxError, ValueError, RecursionError):
        part.count('text_not_parsable(skipped)')
        return set()
    part.count('sites_total', len(sites))
    pick = stratified(sites, rng, n_sites) if n_sites is not None and len(sites) > n_sites else sites
    classes = check_sites(mon, env, lines, pick, rng, interiors)
    try:
        toks = enumerate_token_sites(text, lines, set((s['line'], s['start']) for s in sites))
    except (SyntaxError, ValueError, RecursionError, tokenize.TokenError):
        part.count('text_not_tokenizable(token sites skipped)')
        toks = []
    part.count('token_sites_total', len(toks))
    n_tok = None if n_sites is None else max(4, (2 * n_sites) // 3)
    tpick = stratified(toks, rng, n_tok) if n_tok is not None and len(toks) > n_tok else toks
    classes |= check_sites(mon, env, lines, tpick, rng, 1)
    n_hash = 12 if n_sites is None else max(4, n_sites // 2)
    check_hash_mutations(mon, env, lines, pick + tpick, rng, n_hash)
    check_fromline_mutations(mon, env, lines, pick, rng, max(3, n_hash // 3))
    if with_variants:
        for vtext, vlines, site in variants_for(text, lines, rng, part, TEMPLATES, prefer):
            part.count('variants')
            classes |= check_sites(mon, env, vlines, [site], rng, 1)
    return classes


def nontrivial(mon, classes, before):
    return mon.nonempty > before and bool(classes - TESTED_BY_UNIT_TESTS)


def work_corpus(arg):
    seed, paths, n_sites, interiors = arg
    part = core.Part()
    mon = Mon(part)
    std = corpus.stdlib_root()
    for path in paths:
        text = corpus.read_text(path)
        if text is None:
            part.count('corpus_file_unreadable')
            continue
        rng = random.Random('%s:C12:corpus:%s' % (seed, path))
        root = std if path.startswith(std + os.sep) else core.REPO
        env = {'kind': 'corpus', 'path': path, 'root': root, 'filename': path}
        before = mon.nonempty
        part.count('corpus_files')
        classes = do_text(mon, env, text, rng, n_sites, interiors, False)
        part.case('corpus:' + path, nontrivial=nontrivial(mon, classes, before))
    return part.dump()


def work_gprog(arg):
    seed, start, count, n_sites = arg
    from vf import gen_prog, dynexec
    part = core.Part()
    mon = Mon(part)
    proj = dynexec.Project()
    try:
        for i in range(start, start + count):
            rng = random.Random('%s:C12:gprog:%d' % (seed, i))
            text = gen_prog.generate(rng, 'c01', 'medium')['text']
            proj.write_main(text)
            env = {'kind': 'gprog', 'root': proj.root, 'filename': proj.filename, 'gen': [seed, i]}
            before = mon.nonempty
            part.count('gprog_programs')
            classes = do_text(mon, env, text, rng, n_sites, 1, True)
            part.case('gprog:%s:%d' % (seed, i), nontrivial=nontrivial(mon, classes, before))
            if i == start:
                part.sample({'workload': 'gprog', 'gen': [seed, i], 'first_lines': text.split('\n')[:6]})
    finally:
        proj.close()
    return part.dump()


def write_tree(root, files):
    for rel, t in files.items():
        p = os.path.join(root, rel)
        os.makedirs(os.path.dirname(p), exist_ok=True)
        with open(p, 'w') as f:
            f.write(t)


def work_gclass(arg):
    seed, start, count, n_sites = arg
    from vf import gen_class
    part = core.Part()
    mon = Mon(part)
    for i in range(start, start + count):
        rng = random.Random('%s:C12:gclass:%d' % (seed, i))
        pr = gen_class.gen_project(rng)
        tmp = tempfile.mkdtemp(prefix='vf-')
        try:
            write_tree(tmp, pr['files'])
            rels = sorted(r for r, t in pr['files'].items() if 'self' in t)
            rng.shuffle(rels)
            part.count('gclass_projects')
            for rel in rels[:2]:
                text = pr['files'][rel]
                env = {'kind': 'gclass', 'root': tmp, 'filename': os.path.join(tmp, rel), 'relpath': rel,
                       'files': pr['files'], 'gen': [seed, i]}
                before = mon.nonempty
                part.count('gclass_files')
                classes = do_text(mon, env, text, rng, n_sites, 1, True, prefer='self')
                part.case('gclass:%s:%d:%s' % (seed, i, rel), nontrivial=nontrivial(mon, classes, before))
        finally:
            shutil.rmtree(tmp, ignore_errors=True)
    return part.dump()


# minimal fixed inputs ('|' = cursor); each is a (text, kind of the focus) pair
HAND = [
    ('foo = 1\nx=fo|\n', 'name'),
    ('foo = 1\nx = fo|\n', 'name'),
    ('abc = 1\nx = "ab|c"\n', 'text'),
    ('mid = 1\na = [0, 1]\na[mid|]\n', 'name'),
    ('def f(**kwargs):\n    return dict(**kwargs|)\n', 'name'),
    ('chunk = "abc"\nend = 2\nchunk[:end|]\n', 'name'),
    ('key = 1\nsorted([], key=key|)\n', 'name'),
    ('foo = 1\nx = {fo|o}\n', 'name'),
    ('foo = 1\nx = (0,fo|o)\n', 'name'),
    ('foo = 1\nx = -fo|o\n', 'name'),
    ('foo = 1\nx = 1+fo|o\n', 'name'),
    ('foo = 1\nx = lambda:fo|o\n', 'name'),
    ('foo = 1\n# see fo|o\n', 'text'),
    ('foo = 1\n#fo|o\n', 'text'),
    ('class A:\n    def f(self):\n        self.ba|r = 1\n', 'attr-store'),
    ('class A:\n    def f(self):\n        self.|bar = 1\n', 'attr-store'),
    ('class A:\n    bar = 0\n    def f(self):\n        return self.ba|r\n', 'attr-load'),
    ('import os\nos.|path\n', 'attr-load'),
    ('import os.pa|th\n', 'import'),
    ('import o|s\n', 'import'),
    ('from os import pa|th\n', 'import'),
    ('from os.pa|th import join\n', 'import'),
    ('ñandú = 1\nx=ñan|dú\n', 'name'),
    ('ñandú = 1\nx = ñandú|\n', 'name'),
    ('exc = 1\nraise ValueError(0) \\\n    from exc|\n', 'name'),
    ('x = 1\n\x0c\nfoo = 2\ny = fo|o\n', 'name'),
    ('x = 1\n\x0c\nfoo = 2\ny = foo|\n', 'name'),
    ('x = "\u2028"\nfoo = 2\ny = foo|\n', 'name'),
    ('import os\n\ndef f(arg):\n    foo = 1\n    bar = arg\n    return ba|r\nx = f\ny = os.path\n', 'name'),
    ('import os\n\ndef f(arg):\n    foo = 1\n    bar = arg\n    return bar\nx = f\ny = os.pa|th\n', 'attr-load'),
    ('total = 0\nfor item in (1, 2):\n    total| += item\n', 'token'),
    ('total = 0\nfor item in (1, 2):\n    to|tal += item\nprint(total)\n', 'token'),
    ('acc = 0\nwhile acc:\n    acc| -= 1\n', 'token'),
    ('total = 0\ntotal| += 1\n', 'token'),
    ('for item in (1, 2):\n    tot|al = item\n', 'token'),
    ('def f(arg|, other=1):\n    return arg\n', 'token'),
    ('def fu|nc():\n    pass\n', 'token'),
    ('class Kla|ss(object):\n    pass\n', 'token'),
    ('print(1, en|d="")\n', 'token'),
    ('x = 1\ndef f():\n    global x|\n    x = 2\n', 'token'),
    ('try:\n    pass\nexcept Exception as ex|c:\n    pass\n', 'token'),
    ('import os as oo|s\n', 'token'),
    ('for it|em in ():\n    pass\n', 'token'),
    ('with open(0) as fi|le:\n    pass\n', 'token'),
    ('class U:\n    name = 1\ncount = 2\nuser = U()\ntext = f"""\n# Report for {user.name}: {count|} items\n"""\n', 'name'),
    ('class U:\n    name = 1\ncount = 2\nuser = U()\ntext = f"""\n# Report for {user.|name}: {count} items\n"""\n', 'attr-load'),
    ("name = 1\nx = r'\\'#' + name|\n", 'name'),
    ('name = 1\nx = "#" + name|  # trailing\n', 'name'),
    ('first = [1]\ndef g():\n    got = (yield\n        from first|)\n    return got\n', 'name'),
    ('first = [1]\ndef g():\n    got = [(yield\n from fir|st), 0]\n', 'name'),
    ('import os\ndef g():\n    got = (yield\n        from os.|path)\n', 'attr-load'),
    ('exc = 1\nraise ValueError(0) \\\nfrom exc|\n', 'name'),
]


def hand_case(src):
    lines = src.split('\n')
    for i, l in enumerate(lines):
        if '|' in l:
            col = l.index('|')
            lines[i] = l.replace('|', '', 1)
            return '\n'.join(lines), (i + 1, col)
    raise AssertionError(src)


def work_hand(arg):
    part = core.Part()
    mon = Mon(part)
    tmp = tempfile.mkdtemp(prefix='vf-')
    try:
        fn = os.path.join(tmp, 'm.py')
        for n, (src, kind) in enumerate(HAND):
            text, (L, col) = hand_case(src)
            with open(fn, 'w') as f:
                f.write(text)
            lines = tok_lines(text)
            env = {'kind': 'hand', 'root': tmp, 'filename': fn}
            before = mon.nonempty
            site = None
            if kind == 'text':
                left = lines[L - 1][:col]
                s = col - len(expected_prefix(left))
                e = col
                while e < len(lines[L - 1]) and ident_char(lines[L - 1][e]):
                    e += 1
                site = {'kind': 'text', 'ctx': 'comment' if '#' in left else 'string', 'line': L, 'start': s,
                        'end': e, 'ident': lines[L - 1][s:e], 'pre': char_class(left[s - 1] if s else None)}
            else:
                found = enumerate_sites(text, lines, part)
                if kind == 'token':
                    found = enumerate_token_sites(text, lines, set((s['line'], s['start']) for s in found))
                for s in found:
                    if s['line'] == L and s['start'] <= col <= s['end'] and s['kind'] == kind:
                        site = s
            if site is None:
                part.inconclusive.append('hand case %d: site not found' % n)
                continue
            where = 'end' if col == site['end'] else 'start' if col == site['start'] else 'interior'
            part.count('hand_cases')
            mon.check(env, lines, site, col, where)
            # and the same input under every line-ending variant (stray CR right before the cursor line)
            for which in EOLS:
                mon.check(env, lines, site, col, where, [which, max(0, L - 2)])
            part.case('hand:%d' % n, nontrivial=mon.nonempty > before or kind in ('text', 'import', 'token'))
    finally:
        shutil.rmtree(tmp, ignore_errors=True)
    return part.dump()


def dispatch(arg):
    fn, a = arg
    return globals()[fn](a)


def main(run):
    seed = run.seed
    files = corpus.select(run, 44, 300)
    # spread big files: sort by size and deal round-robin; heavy chunks are queued first
    sized = sorted(files, key=lambda p: -os.path.getsize(p))
    nchunks = max(1, min(len(sized), run.pick(44, 200)))
    chunks = [sized[i::nchunks] for i in range(nchunks)]
    n_sites = run.pick(14, 40)
    interiors = run.pick(1, 2)
    jobs = [['work_corpus', [seed, ch, n_sites, interiors]] for ch in chunks if ch]
    nprog = run.pick(20, 300)
    per = run.pick(1, 6)
    jobs += [['work_gprog', [seed, s, min(per, nprog - s), run.pick(24, 60)]] for s in range(0, nprog, per)]
    ncls = run.pick(14, 200)
    perc = run.pick(1, 6)
    jobs += [['work_gclass', [seed, s, min(perc, ncls - s), run.pick(24, 60)]] for s in range(0, ncls, perc)]
    jobs.append(['work_hand', 0])
    core.run_parts(run, 'vf.props.c12:dispatch', jobs, timeout=run.pick(600, 3000))
    # the replay file keeps the first 200 violations: interleave the mechanisms so each one is represented
    by_mech = {}
    for v in run.violations:
        by_mech.setdefault(v['mech'], []).append(v)
    order = []
    while any(by_mech.values()):
        for m in sorted(by_mech):
            if by_mech[m]:
                order.append(by_mech[m].pop(0))
    run.violations[:] = order
    run.extra['workload'] = {
        'corpus_files': len(files), 'sites_per_corpus_file': n_sites, 'interior_offsets_per_site': interiors,
        'gprog_programs': nprog, 'gclass_projects': ncls, 'variant_templates': len(TEMPLATES),
        'hand_cases': len(HAND),
    }
    return run.finish(
        rule='case = one real file / one generated program / one generated class-project file / one fixed minimal input; '
             'non-trivial = at least one transparency comparison in it had a non-empty expected proposal list AND at '
             'least one checked identifier was preceded by a character class other than space, dot, "(" or start of '
             'line (the classes the unit tests cover); for fixed string/comment/import inputs: always',
        require=('positions', 'prefix_compared_nonempty', 'clean_checked_nonempty', 'transparency_name_compared',
                 'transparency_attr_compared', 'transparency_store_attr_compared', 'transparency_compared_nonempty',
                 'variants', 'corpus_files', 'gprog_programs', 'gclass_files', 'eol_variant_positions',
                 'token_positions', 'token_positions_in_loop', 'hash_left_of_cursor_in_code_positions',
                 'transparency_compared_hash_left_of_cursor_nonempty', 'hash_mutations',
                 'from_line_not_import_positions', 'transparency_compared_from_line_not_import_nonempty',
                 'from_line_partial_import_nonempty_proposals', 'fromline_mutations'),
        assumptions=[
            'cursor position = (1-based tokenizer line, 0-based character column), as an editor reports it',
            'identifier character = [A-Za-z0-9_] or a non-ASCII c with ("a"+c).isidentifier()',
            'transparency is decided at the end of bare name reads (Load context) and at every offset of the attribute '
            'part of expr.attr (Load or Store context; offsets after the dot get their own mechanism label)',
            'both analyses run on fresh Project objects; a mismatch that does not reproduce when both analyses are '
            'repeated (interpreter-global sys.modules warmed by the first run) is counted, not reported',
            'exceptions escaping assist or the unmarked analysis are counted and skipped (property C08)',
            'a share (%d%%) of all positions is run on a line-ending variant of the same text (CRLF, CR only, LF with one '
            'stray CR before the cursor line, CRLF with one lone CR); lines and cursor lines are counted the tokenizer way; '
            'a violation that disappears when the same lines are joined with LF is labelled line-ending:<variant>' % int(EOL_SHARE * 100),
            "templates and mutations put name reads / attribute accesses on lines that begin with 'from ' but continue a "
            "'yield from' / 'raise ... from' (brackets, nested brackets, backslash; several indentations); half-typed imports "
            '(unparsable text: prefix and clean proposals only) run next to them as controls',
            "templates and mutations of existing lines put a '#' left of the cursor in every non-comment place (one-line "
            'strings of all quote/prefix kinds, escaped quotes, raw strings, continuation lines of triple-quoted strings and '
            'f-strings with replacement fields, format specs, backslash-continued strings) and real trailing comments after '
            'the cursor; the same oracles decide',
            'prefix and clean-proposal clauses are also checked at the end of / inside every other identifier token '
            '(binding targets, augmented-assignment targets, for/with targets, parameters, def/class names, keyword names, '
            'global/nonlocal names, as-names), inside and outside loop bodies; transparency is not defined there',
            'corpus files are sampled: up to %d sites per file stratified by (site kind, preceding character class)' % n_sites,
        ],
        exhaustive=False)


def replay(run, path):
    with open(path) as f:
        data = json.load(f)
    part = core.Part()
    mon = Mon(part)
    for v in data['violations']:
        c = v['case']
        e = c['env']
        tmp = None
        proj = None
        try:
            if e['kind'] == 'corpus':
                text = corpus.read_text(e['path'])
                std = corpus.stdlib_root()
                env = dict(e, root=std if e['path'].startswith(std + os.sep) else core.REPO, filename=e['path'])
            elif e['kind'] == 'gprog':
                from vf import dynexec
                proj = dynexec.Project()
                text = c['text']
                proj.write_main(text)
                env = dict(e, root=proj.root, filename=proj.filename)
            elif e['kind'] == 'gclass':
                tmp = tempfile.mkdtemp(prefix='vf-')
                write_tree(tmp, e['files'])
                text = c['text']
                env = dict(e, root=tmp, filename=os.path.join(tmp, e['relpath']))
            else:
                tmp = tempfile.mkdtemp(prefix='vf-')
                text = c['text']
                with open(os.path.join(tmp, 'm.py'), 'w') as f:
                    f.write(text)
                env = dict(e, root=tmp, filename=os.path.join(tmp, 'm.py'))
            lines = tok_lines(text)
            part.case(json.dumps([e.get('path'), e.get('gen'), c['pos']]), nontrivial=True)
            mon.check(env, lines, c['site'], c['pos'][1], c['where'], c.get('eol'))
        finally:
            if proj is not None:
                proj.close()
            if tmp:
                shutil.rmtree(tmp, ignore_errors=True)
    run.merge(part.dump())
    for v in run.violations:
        print('REPLAYED', v['mech'], v['what'][:300])
    return 1 if run.violations else 0
